#!/usr/bin/env python3
"""Evaluates one seeded change (a patch that should break a property while the test suite stays green).

usage: tools/seed_eval.py <dir with patch.diff + demo.py> <property id> [--tier quick|thorough] [--checks C01,C03]
                          [--skip-suite] [--seeds 0,1]

Steps, all in a scratch worktree of /repo outside /repo and /verif (removed afterwards):
  1. demo.py on the clean tree must exit 0;
  2. patch applies; demo.py on the patched tree must exit non-zero;
  3. the repository's suite on the patched tree must still contain every baseline stable-pass test;
  4. the named checks (default: the property's own) are run with VERIF_REPO=<patched tree>; exit 1 = caught.
Prints one JSON object (also written to <dir>/eval.json).
"""
import argparse
import json
import os
import subprocess
import sys
import tempfile
import time

HERE = os.path.dirname(os.path.dirname(os.path.abspath(__file__)))


def sh(cmd, cwd=None, env=None, timeout=3600):
    proc = subprocess.run(cmd, cwd=cwd, env=env, stdout=subprocess.PIPE, stderr=subprocess.STDOUT, text=True,
                          timeout=timeout, check=False)
    return proc.returncode, proc.stdout


def main():
    ap = argparse.ArgumentParser()
    ap.add_argument("dir")
    ap.add_argument("pid")
    ap.add_argument("--tier", default="quick")
    ap.add_argument("--checks", default="")
    ap.add_argument("--seeds", default="0")
    ap.add_argument("--skip-suite", action="store_true")
    ap.add_argument("--commit", default="HEAD", help="commit of /repo the patch is applied to (default: HEAD)")
    args = ap.parse_args()
    src = os.path.abspath(args.dir)
    patch = os.path.join(src, "patch.diff")
    demo = os.path.join(src, "demo.py")
    checks = [c for c in args.checks.split(",") if c] or [args.pid]
    out = {"property": args.pid, "dir": src, "tier": args.tier, "checks": {}}
    previous = {}
    if os.path.exists(os.path.join(src, "eval.json")):
        with open(os.path.join(src, "eval.json"), encoding="utf-8") as handle:
            previous = json.load(handle)
    if args.skip_suite and "suite_ok" in previous:
        out["suite_ok"] = previous["suite_ok"]
        out["suite_tail"] = previous.get("suite_tail")
        out["suite_note"] = "suite result carried over from an earlier evaluation of the same patch"
    tree = tempfile.mkdtemp(prefix="vf-seed-", dir="/tmp")
    os.rmdir(tree)
    rc, txt = sh(["git", "-C", "/repo", "worktree", "add", "-q", "--detach", tree, args.commit])
    out["repo_commit"] = sh(["git", "-C", "/repo", "rev-parse", "--short", args.commit])[1].strip()
    if rc:
        print(txt)
        return 3
    try:
        env = dict(os.environ, PYTHONPATH=tree, PYTHONDONTWRITEBYTECODE="1")
        if os.path.exists(demo):
            rc, txt = sh(["/venv/bin/python", demo, tree], cwd=tree, env=env, timeout=900)
            out["demo_clean_rc"] = rc
            if rc:
                out["demo_clean_tail"] = txt[-600:]
        rc, txt = sh(["git", "-C", tree, "apply", patch])
        out["patch_applies"] = rc == 0
        if rc:
            out["apply_error"] = txt[-600:]
            with open(os.path.join(src, "eval.json"), "w", encoding="utf-8") as handle:
                json.dump(out, handle, indent=1)
            print(json.dumps(out, indent=1))
            return 2
        if os.path.exists(demo):
            rc, txt = sh(["/venv/bin/python", demo, tree], cwd=tree, env=env, timeout=900)
            out["demo_patched_rc"] = rc
            out["demo_patched_tail"] = txt[-400:]
        if not args.skip_suite:
            rc, txt = sh(["python3", os.path.join(HERE, "tools", "baseline_off.py")],
                         env=dict(os.environ, VERIF_REPO=tree), timeout=1800)
            out["suite_ok"] = rc == 0
            out["suite_tail"] = txt.strip().splitlines()[-2:]
        for check in checks:
            for seed in args.seeds.split(","):
                t0 = time.time()
                rc, txt = sh([os.path.join(HERE, "check"), check, "--tier", args.tier, "--seed", seed],
                             env=dict(os.environ, VERIF_REPO=tree, VERIF_EVIDENCE_DIR=os.path.join(tree, ".vf-evidence"),
                                      VERIF_REPLAY_DIR=os.path.join(tree, ".vf-replays")),
                             timeout=7200)
                lines = [l for l in txt.splitlines() if l.startswith(("VIOLATION", "   clause=", "INCONCLUSIVE"))]
                out["checks"][f"{check}@{seed}"] = {"rc": rc, "caught": rc == 1, "wall_s": round(time.time() - t0, 1),
                                                    "lines": [l[:300] for l in lines[:6]]}
                if rc == 1:
                    break
        out["caught_by"] = sorted({k.split("@")[0] for k, v in out["checks"].items() if v["caught"]})
    finally:
        sh(["git", "-C", "/repo", "worktree", "remove", "--force", tree])
    with open(os.path.join(src, "eval.json"), "w", encoding="utf-8") as handle:
        json.dump(out, handle, indent=1)
    print(json.dumps(out, indent=1))
    return 0


if __name__ == "__main__":
    sys.exit(main())
