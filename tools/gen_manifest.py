#!/usr/bin/env python3
"""Writes MANIFEST.json from the table below + the check modules that exist."""
import json
import os

HERE = os.path.dirname(os.path.dirname(os.path.abspath(__file__)))
TABLE = json.load(open(os.path.join(HERE, "tools", "manifest_table.json")))

checks = []
not_applicable = []
for pid in [f"C{i:02d}" for i in range(1, 21)]:
    entry = TABLE.get(pid, {})
    if os.path.exists(os.path.join(HERE, "vf", "checks", pid.lower() + ".py")) and entry.get("claimed", True) and entry:
        checks.append({
            "property_id": pid,
            "quick_cmd": f"./check {pid} --tier quick",
            "thorough_cmd": f"./check {pid} --tier thorough",
            "evidence_file": f"evidence/{pid}.json",
            "replay_cmd_template": f"./check {pid} --replay {{path}}",
            "engine": "vf",
            "level_claimed": {"category": entry.get("level", "exploration"), "text": entry["text"],
                              "design_ref": f"DESIGN.md section 2, {pid}"},
            "level_note": entry["note"],
            "technique": entry["technique"],
        })
    else:
        not_applicable.append({"property_id": pid, "reason": entry.get("na_reason", "check not built yet in this round; see DESIGN.md section 4 for the construction order")})

manifest = {
    "version": 1,
    "setup_cmd": "./tools/setup.sh",
    "hooks": {
        "guard": "ANTISMASH_VERIF",
        "enable": "no source hooks: monitors are installed from the harness by rebinding module globals / class attributes (vf/instrument.py), audit hooks and sys.monitoring; checks import antismash from /repo's working tree in a fresh interpreter",
        "baseline_off_cmd": "python3 tools/baseline_off.py",
        "source_commits": [],
        "add_only": True,
    },
    "engines": [{"name": "vf", "path": "vf/", "serves_properties": [c["property_id"] for c in checks],
                 "kind_free_text": "runtime monitoring: contracts/recording wrappers on the real functions, reference-model and metamorphic oracles, audit-hook and sys.monitoring fault injection, offline history checkers"}],
    "checks": checks,
    "notes": "Exit codes: 0 held on everything observed (KNOWN-FINDING lines possible), 1 VIOLATION, 2 INCONCLUSIVE (a deciding monitor saw nothing). Known findings: known_findings.json (read-only at run time).",
    "not_applicable": not_applicable,
}
with open(os.path.join(HERE, "MANIFEST.json"), "w") as handle:
    json.dump(manifest, handle, indent=1)
    handle.write("\n")
print("checks:", [c["property_id"] for c in checks])
print("not claimed:", [c["property_id"] for c in not_applicable])
