#!/bin/bash
# Offline setup: contracts libraries beside the repository's interpreter (git-ignored .deps)
HERE="$(cd "$(dirname "${BASH_SOURCE[0]}")/.." && pwd)"
set -e
if [ ! -d "$HERE/.deps/icontract" ]; then
  /venv/bin/pip install -q --no-index --find-links /opt/veriftools/wheels --target "$HERE/.deps" icontract deal
fi
mkdir -p "$HERE/evidence" "$HERE/replays" "$HERE/.work"
/venv/bin/python -c "import sys; sys.path.insert(0,'$HERE/.deps'); import icontract; print('icontract', icontract.__version__)"
