#!/bin/bash
# Offline setup: nothing is installed. The monitors are hand-written recording wrappers (vf/instrument.py), audit hooks
# and sys.monitoring callbacks from the standard library; the checks only need /venv/bin/python with the repository's
# own dependencies. This script creates the output directories and verifies that antiSMASH imports from /repo.
HERE="$(cd "$(dirname "${BASH_SOURCE[0]}")/.." && pwd)"
set -e
mkdir -p "$HERE/evidence" "$HERE/replays" "$HERE/.work"
REPO="${VERIF_REPO:-/repo}"
PYTHONPATH="$REPO:$HERE" PYTHONDONTWRITEBYTECODE=1 /venv/bin/python -c "import antismash, vf.core, sys; print('antismash', antismash.__version__, 'python', sys.version.split()[0])"
