#!/usr/bin/env python3
"""Takes every repair of /repo back, one at a time, and runs the check that found the defect: it has to report it again.

For each `fix:` commit of /repo a scratch worktree of /repo's HEAD is made outside /repo and /verif, the commit is
reverted there (`git revert --no-commit`, i.e. a three-way merge, so later changes to the same file stay), the check
of the property the repair is recorded under in known_findings.json is run with VERIF_REPO pointing at the worktree
(quick tier, seeds 1 then 0; exit 1 = the defect is reported), and the worktree is removed. A commit that does not
revert cleanly on HEAD (later repairs rewrote the same lines) is listed as such and not judged.

Writes seeded/reverts.json. usage: tools/revert_eval.py [-j N] [--only <hash>,<hash>] [--extra C03,C10]
"""
import argparse
import concurrent.futures
import json
import os
import re
import shutil
import subprocess
import sys
import tempfile
import time

HERE = os.path.dirname(os.path.dirname(os.path.abspath(__file__)))
# follow-up repairs that known_findings.json lists under the first commit only
FOLLOW_UPS = {"4ae6366f": "C02", "3eaf51d2": "C03", "851fc4fb": "C07", "a591be3e": "C10"}
# repairs whose defect a neighbouring property's check observes (run after the property's own check)
ALSO = {"facaf3f4": ["C06"], "851fc4fb": ["C03"]}
# repairs that a later repair made redundant: taking them back changes nothing that can be observed on HEAD
NEUTRAL = {"80881317": "since bb9b8112 the origin handed to DetectionRule.detect is the record length for every cutoff of a "
                       "circular record, so the value cached per cutoff is the same whichever cutoff was computed last"}


def sh(cmd, **kwargs):
    proc = subprocess.run(cmd, stdout=subprocess.PIPE, stderr=subprocess.STDOUT, text=True, check=False, **kwargs)
    return proc.returncode, proc.stdout


def fix_commits():
    out = sh(["git", "-C", "/repo", "log", "--format=%h %s"])[1].splitlines()
    return [line.split(" ", 1) for line in out if line.split(" ", 1)[1].startswith("fix:")]


def properties_of():
    with open(os.path.join(HERE, "known_findings.json"), encoding="utf-8") as handle:
        findings = json.load(handle)["findings"]
    found = {}
    for entry in findings:
        if entry["status"] != "fixed":
            continue
        for digest in re.findall(r"\b[0-9a-f]{7,8}\b", entry.get("commit", "") + " " + entry.get("line", "")):
            found.setdefault(digest[:7], []).append((entry["property"], entry["id"]))
    return found


def evaluate(commit, subject, props, extra):
    out = {"commit": commit, "subject": subject, "recorded_as": [fid for _p, fid in props], "checks": {}}
    tree = tempfile.mkdtemp(prefix="vf-revert-", dir="/tmp")
    os.rmdir(tree)
    scratch = tempfile.mkdtemp(prefix="vf-revert-out-", dir="/tmp")
    try:
        rc, txt = sh(["git", "-C", "/repo", "worktree", "add", "-q", "--detach", tree, "HEAD"])
        if rc:
            out["error"] = txt[-300:]
            return out
        rc, txt = sh(["git", "-C", tree, "revert", "--no-commit", commit])
        out["reverts_cleanly"] = rc == 0
        if rc:
            out["revert_tail"] = txt.strip().splitlines()[-2:]
            return out
        checks = []
        for prop, _fid in props:
            if prop not in checks:
                checks.append(prop)
        checks += [c for c in ALSO.get(commit, []) + extra if c not in checks]
        env = dict(os.environ, VERIF_REPO=tree, VERIF_EVIDENCE_DIR=os.path.join(scratch, "evidence"),
                   VERIF_REPLAY_DIR=os.path.join(scratch, "replays"))
        caught = []
        for check in checks:
            for seed in ("1", "0"):
                started = time.time()
                rc, txt = sh([os.path.join(HERE, "check"), check, "--tier", "quick", "--seed", seed], env=env, timeout=1800)
                lines = [line for line in txt.splitlines() if line.startswith(("VIOLATION", "   clause="))]
                out["checks"][f"{check}@{seed}"] = {"rc": rc, "wall_s": round(time.time() - started, 1),
                                                    "lines": [line[:300] for line in lines[:2]]}
                if rc == 1:
                    caught.append(check)
                    break
        out["reported_again_by"] = caught
        if not caught and commit in NEUTRAL:
            out["neutral_on_head"] = NEUTRAL[commit]
        return out
    finally:
        sh(["git", "-C", "/repo", "worktree", "remove", "--force", tree])
        shutil.rmtree(tree, ignore_errors=True)
        shutil.rmtree(scratch, ignore_errors=True)


def main():
    ap = argparse.ArgumentParser()
    ap.add_argument("-j", type=int, default=6)
    ap.add_argument("--only", default="")
    ap.add_argument("--extra", default="")
    args = ap.parse_args()
    recorded = properties_of()
    jobs = []
    for commit, subject in fix_commits():
        if args.only and commit[:7] not in [c[:7] for c in args.only.split(",")]:
            continue
        props = recorded.get(commit[:7]) or ([(FOLLOW_UPS[commit], "follow-up")] if commit in FOLLOW_UPS else [])
        jobs.append((commit, subject, props))
    path = os.path.join(HERE, "seeded", "reverts.json")
    results = {}
    if args.only and os.path.exists(path):
        with open(path, encoding="utf-8") as handle:
            results = {r["commit"]: r for r in json.load(handle)["reverts"]}
    extra = [c for c in args.extra.split(",") if c]
    with concurrent.futures.ThreadPoolExecutor(max_workers=args.j) as pool:
        for res in pool.map(lambda job: evaluate(*job, extra), jobs):
            results[res["commit"]] = res
            verdict = ("does not revert cleanly" if not res.get("reverts_cleanly") else
                       ",".join(res["reported_again_by"]) or ("no effect on HEAD" if res.get("neutral_on_head") else "NOT REPORTED"))
            print(f"{res['commit']} {','.join(res['recorded_as']):22s} {verdict:26s} {res['subject'][:90]}", flush=True)
    order = [c for c, _s in fix_commits()]
    listing = [results[c] for c in order if c in results]
    judged = [r for r in listing if r.get("reverts_cleanly")]
    summary = {"fix_commits": len(listing), "revert_cleanly_on_head": len(judged),
               "reported_again": sum(1 for r in judged if r["reported_again_by"]),
               "without_effect_on_head": [r["commit"] for r in judged if r.get("neutral_on_head")],
               "not_reported": [r["commit"] for r in judged if not r["reported_again_by"] and not r.get("neutral_on_head")]}
    with open(path, "w", encoding="utf-8") as handle:
        json.dump({"summary": summary, "reverts": listing}, handle, indent=1)
    print(summary)
    return 1 if summary["not_reported"] else 0


if __name__ == "__main__":
    sys.exit(main())
