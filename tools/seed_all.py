#!/usr/bin/env python3
"""Re-evaluates every seeded change under seeded/ against the current checks (tools/seed_eval.py for each).

For each change the checks that caught it before are run (or the property's own check), quick tier, seeds 1 then 0.
The patch is applied to /repo's HEAD; when it no longer applies there, or its demonstration no longer fails there
(a later repair of /repo rewrote or neutralised the mutated lines), the /repo commit recorded by the previous
evaluation is used, and failing that the history of /repo is searched backwards for the latest commit at which the
patch applies and the demonstration fails.

usage: tools/seed_all.py [-j N] [--only C05-n2,C07-m3] [--with-suite]
"""
import argparse
import concurrent.futures
import json
import os
import subprocess
import sys

HERE = os.path.dirname(os.path.dirname(os.path.abspath(__file__)))


def run_eval(sid, pid, checks, commit, with_suite):
    cmd = ["python3", os.path.join(HERE, "tools", "seed_eval.py"), os.path.join(HERE, "seeded", sid), pid,
           "--checks", ",".join(checks), "--seeds", "1,0", "--commit", commit]
    if not with_suite:
        cmd.append("--skip-suite")
    subprocess.run(cmd, stdout=subprocess.DEVNULL, stderr=subprocess.DEVNULL, check=False)
    path = os.path.join(HERE, "seeded", sid, "eval.json")
    with open(path, encoding="utf-8") as handle:
        return json.load(handle)


def usable(ev):
    return ev.get("patch_applies") and ev.get("demo_patched_rc") not in (0, None) and ev.get("demo_clean_rc") == 0


def history():
    out = subprocess.run(["git", "-C", "/repo", "log", "--first-parent", "--format=%h", "-150"],
                         stdout=subprocess.PIPE, text=True, check=True).stdout.split()
    return out


def evaluate(sid, with_suite):
    directory = os.path.join(HERE, "seeded", sid)
    pid = sid.split("-")[0]
    previous = {}
    if os.path.exists(os.path.join(directory, "eval.json")):
        with open(os.path.join(directory, "eval.json"), encoding="utf-8") as handle:
            previous = json.load(handle)
    checks = previous.get("caught_by") or sorted({k.split("@")[0] for k in previous.get("checks", {})}) or [pid]
    if os.path.exists(os.path.join(directory, "eval.json")):
        os.replace(os.path.join(directory, "eval.json"), os.path.join(directory, "eval.previous.json"))
    ev = run_eval(sid, pid, checks, "HEAD", with_suite)
    base = "HEAD"
    if not usable(ev):
        candidates = [c for c in [previous.get("repo_commit")] if c] + history()[1:]
        for commit in candidates:
            ev = run_eval(sid, pid, checks, commit, with_suite)
            if usable(ev):
                base = commit
                break
    if os.path.exists(os.path.join(directory, "eval.previous.json")):
        os.remove(os.path.join(directory, "eval.previous.json"))
    if not ev.get("suite_ok") and previous.get("suite_ok"):
        ev["suite_ok"], ev["suite_note"] = previous["suite_ok"], "suite result carried over from an earlier evaluation of the same patch"
        with open(os.path.join(directory, "eval.json"), "w", encoding="utf-8") as handle:
            json.dump(ev, handle, indent=1)
    if base != "HEAD":
        ev["note"] = f"not applicable to /repo HEAD any more (mutated lines repaired or rewritten since); evaluated at {base}"
        with open(os.path.join(directory, "eval.json"), "w", encoding="utf-8") as handle:
            json.dump(ev, handle, indent=1)
    return sid, base, ev.get("caught_by", []), usable(ev)


def main():
    ap = argparse.ArgumentParser()
    ap.add_argument("-j", type=int, default=6)
    ap.add_argument("--only", default="")
    ap.add_argument("--with-suite", action="store_true")
    args = ap.parse_args()
    ids = sorted(d for d in os.listdir(os.path.join(HERE, "seeded")) if os.path.isdir(os.path.join(HERE, "seeded", d)))
    if args.only:
        ids = [i for i in ids if i in args.only.split(",")]
    missed = []
    with concurrent.futures.ThreadPoolExecutor(max_workers=args.j) as pool:
        for sid, base, caught, ok in pool.map(lambda s: evaluate(s, args.with_suite), ids):
            print(f"{sid:8s} base={base:9s} usable={ok} caught_by={','.join(caught) or 'MISSED'}", flush=True)
            if not caught:
                missed.append(sid)
    print("missed:", missed)
    return 1 if missed else 0


if __name__ == "__main__":
    sys.exit(main())
