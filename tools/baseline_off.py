#!/usr/bin/env python3
"""Runs the repository's own test suite with the verification guard OFF and compares with
/root/.vp/BASELINE.json: every stable-pass test must still pass. Exit 0 iff so."""
import json
import os
import subprocess
import sys
import tempfile
import xml.etree.ElementTree as ET

repo = os.environ.get("VERIF_REPO", "/repo")
env = dict(os.environ)
env.pop("ANTISMASH_VERIF", None)
env.pop("PYTHONPATH", None)
with tempfile.TemporaryDirectory() as tmp:
    xml = os.path.join(tmp, "junit.xml")
    proc = subprocess.run(["/venv/bin/python", "-m", "pytest", "-q", "-p", "no:cacheprovider", "--timeout=900",
                           "--continue-on-collection-errors", f"--junitxml={xml}"] + sys.argv[1:],
                          cwd=repo, env=env, stdout=subprocess.PIPE, stderr=subprocess.STDOUT, text=True)
    passed = set()
    failed = set()
    for case in ET.parse(xml).getroot().iter("testcase"):
        name = f"{case.get('classname')}::{case.get('name')}"
        bad = any(child.tag in ("failure", "error") for child in case)
        skipped = any(child.tag == "skipped" for child in case)
        if bad:
            failed.add(name)
        elif not skipped:
            passed.add(name)
print(proc.stdout.strip().splitlines()[-1])
baseline_path = "/root/.vp/BASELINE.json"
if os.path.exists(baseline_path):
    stable = set(json.load(open(baseline_path))["stable_pass"])
    missing = sorted(stable - passed)
    print(f"baseline stable_pass={len(stable)} passing_now={len(stable & passed)} missing={len(missing)}")
    for name in missing[:30]:
        print("  NOT PASSING:", name)
    sys.exit(1 if missing else 0)
print(f"passed={len(passed)} failed={len(failed)} (no baseline file to compare)")
sys.exit(0)
