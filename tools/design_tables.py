#!/usr/bin/env python3
"""Regenerates the generated blocks of DESIGN.md (between <!-- BEGIN x --> and <!-- END x --> markers) from
known_findings.json and seeded/*/meta.json, and adds the one-line renderings to known_findings.json."""
import json
import os
import re

HERE = os.path.dirname(os.path.dirname(os.path.abspath(__file__)))


def findings_block():
    path = os.path.join(HERE, "known_findings.json")
    data = json.load(open(path))
    lines = []
    for entry in data["findings"]:
        mech = entry["mechanism"].split(". ")[0].strip()
        if entry["status"] == "fixed":
            entry["line"] = f"fixed: property={entry['property']} {entry.get('commit', '?')} {mech}"
        else:
            entry["line"] = f"KNOWN-FINDING: property={entry['property']} {entry['id']}: {mech}"
    with open(path, "w", encoding="utf-8") as handle:
        json.dump(data, handle, indent=1)
    by_prop = {}
    for entry in data["findings"]:
        by_prop.setdefault(entry["property"], []).append(entry)
    for prop in sorted(by_prop):
        lines.append(f"**{prop}**")
        lines.append("")
        for entry in by_prop[prop]:
            mech = entry["mechanism"]
            if len(mech) > 330:
                mech = mech[:327] + "..."
            if entry["status"] == "fixed":
                lines.append(f"* `{entry['id']}` fixed in `{entry.get('commit', '?')}` - {mech}")
            else:
                lines.append(f"* `{entry['id']}` **known finding** (classifier `{entry.get('classifier')}`) - {mech}")
        lines.append("")
    return "\n".join(lines)


def seeded_block():
    rows = ["| seeded change | property | what it needs to manifest | caught by | note |", "|---|---|---|---|---|"]
    root = os.path.join(HERE, "seeded")
    for sid in sorted(os.listdir(root)):
        meta_path = os.path.join(root, sid, "meta.json")
        if not os.path.exists(meta_path):
            continue
        meta = json.load(open(meta_path))
        rows.append(f"| `{sid}` | {meta['property']} | {meta['needs_to_manifest']} | {', '.join(meta['caught_by']) or '**missed**'} "
                    f"| {meta.get('history', '')} |")
    return "\n".join(rows)


def main():
    path = os.path.join(HERE, "DESIGN.md")
    text = open(path, encoding="utf-8").read()
    for name, block in (("findings", findings_block()), ("seeded", seeded_block())):
        pattern = re.compile(rf"(<!-- BEGIN {name} -->\n).*?(<!-- END {name} -->)", re.S)
        if not pattern.search(text):
            print("marker missing:", name)
            continue
        text = pattern.sub(lambda m, b=block: m.group(1) + b + "\n" + m.group(2), text)
    with open(path, "w", encoding="utf-8") as handle:
        handle.write(text)


if __name__ == "__main__":
    main()
