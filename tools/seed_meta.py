#!/usr/bin/env python3
"""Writes seeded/<id>/meta.json from tools/seed_table.json (what the change breaks / needs) and eval.json (what was run)."""
import json
import os

HERE = os.path.dirname(os.path.dirname(os.path.abspath(__file__)))
table = json.load(open(os.path.join(HERE, "tools", "seed_table.json")))
rows = []
for sid, info in sorted(table.items()):
    d = os.path.join(HERE, "seeded", sid)
    if not os.path.isdir(d):
        continue
    ev = {}
    if os.path.exists(os.path.join(d, "eval.json")):
        ev = json.load(open(os.path.join(d, "eval.json")))
    meta = {
        "id": sid,
        "property": info["property"],
        "breaks": info["breaks"],
        "needs_to_manifest": info["needs"],
        "origin": "written by an independent sub-agent given only the property text and a scratch worktree",
        "repo_commit_patch_was_confirmed_against": ev.get("repo_commit", info.get("base_commit", "")),
        "confirmed": {
            "demo_exit_on_unchanged_tree": ev.get("demo_clean_rc"),
            "demo_exit_with_patch": ev.get("demo_patched_rc"),
            "repository_suite_still_passes_with_patch": ev.get("suite_ok"),
            "how": "tools/seed_eval.py in a scratch worktree of /repo (removed afterwards): demo.py on the clean and the "
                   "patched tree, tools/baseline_off.py against the 1463 baseline tests, then the checks with VERIF_REPO",
        },
        "checks_run": {k: {"exit": v["rc"], "caught": v["caught"], "wall_s": v["wall_s"], "first_lines": v["lines"][:2]}
                       for k, v in ev.get("checks", {}).items()},
        "caught_by": ev.get("caught_by", []),
        "history": info.get("history", ""),
    }
    with open(os.path.join(d, "meta.json"), "w", encoding="utf-8") as handle:
        json.dump(meta, handle, indent=1)
    rows.append((sid, info["property"], ",".join(meta["caught_by"]) or "MISSED", info.get("history", "")))
for r in rows:
    print(*r, sep=" | ")
