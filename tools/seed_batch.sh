#!/bin/bash
# usage: tools/seed_batch.sh <ID> <outdir under /tmp/seed> <prefix n|m> [checks]
# copies the mutants (1..3, those delivered) of an agent into seeded/<ID>-<prefix><k>/ and evaluates them in parallel
ID=$1; OUT=$2; PFX=$3; CHECKS=${4:-$ID}
cd "$(dirname "$0")/.."
for n in 1 2 3; do
  [ -f /tmp/seed/$OUT/$n/patch.diff ] || continue
  d=seeded/$ID-$PFX$n; mkdir -p $d
  cp /tmp/seed/$OUT/$n/patch.diff /tmp/seed/$OUT/$n/demo.py /tmp/seed/$OUT/$n/notes.md $d/ 2>/dev/null
  ( python3 tools/seed_eval.py $d $ID --checks $CHECKS --seeds 1,0 > /tmp/q/seed-$ID-$PFX$n.log 2>&1 ) &
done
wait
for n in 1 2 3; do
[ -f seeded/$ID-$PFX$n/eval.json ] || continue
/venv/bin/python - <<PY
import json
d=json.load(open('seeded/$ID-$PFX$n/eval.json'))
print('$ID-$PFX$n','clean',d.get('demo_clean_rc'),'patched',d.get('demo_patched_rc'),'suite',d.get('suite_ok'),'caught',d.get('caught_by'),{k:(v['rc'],v['wall_s']) for k,v in d['checks'].items()}, d.get('apply_error'))
PY
done
