#!/bin/bash
# usage: tools/mutant.sh <file-relative-to-repo> <python-expr-old> <python-expr-new> <check ids...>
# Copies /repo/antismash to a scratch dir, replaces the first occurrence of OLD by NEW in FILE, runs the checks
# against the copy (VERIF_REPO) and removes it. Prints one line per check: CAUGHT / MISSED.
set -u
FILE="$1"; OLD="$2"; NEW="$3"; shift 3
SCRATCH=$(mktemp -d /tmp/vf-mut-XXXXXX)
mkdir -p "$SCRATCH/repo"
cp -r /repo/antismash "$SCRATCH/repo/antismash"
python3 - "$SCRATCH/repo/$FILE" "$OLD" "$NEW" <<'PY' || { rm -rf "$SCRATCH"; exit 3; }
import sys
path, old, new = sys.argv[1:4]
src = open(path).read()
if old not in src:
    print("MUTANT-ERROR: pattern not found"); sys.exit(1)
open(path, "w").write(src.replace(old, new, 1))
PY
for ID in "$@"; do
  OUT=$(VERIF_REPO="$SCRATCH/repo" VERIF_BUDGET_S="${VERIF_BUDGET_S:-40}" "$(dirname "$0")/../check" "$ID" --tier "${TIER:-quick}" --seed "${SEED:-0}" 2>&1)
  RC=$?
  if [ $RC -eq 1 ]; then echo "CAUGHT $ID: $(echo "$OUT" | grep -m1 'clause=' | cut -c1-200)";
  elif [ $RC -eq 0 ]; then echo "MISSED $ID"; else echo "RC=$RC $ID: $(echo "$OUT" | tail -3 | cut -c1-300)"; fi
done
git -C /verif checkout -q -- evidence 2>/dev/null
rm -rf "$SCRATCH"
