"""C18 helper module: worker functions (importable in pool workers), record builder,
canonical object-graph dump and the child-process driver that records the history.

The child (``python -m vf.c18_workers plan.json history.jsonl``) only *records*: for every
scenario of the plan it writes a ``begin`` line, runs the real ``parallel_function`` /
``parallel_execute`` / ``pre_process_sequences`` and writes an ``end`` line with what came back
(payloads or dump digests, worker pid, t_start, t_end per task, or the exception that surfaced).
The verdict is taken offline by vf/checks/c18.py from that history.

All clocks are ``time.monotonic()`` (CLOCK_MONOTONIC: one clock for every process of the machine).
"""
from __future__ import annotations

import enum
import functools
import hashlib
import json
import os
import random
import signal
import sys
import time
import zlib

# --------------------------------------------------------------------------
# canonical dump of an arbitrary object graph (address-free, hash-order-free)
# --------------------------------------------------------------------------

TRACE_KEY = "c18_trace"


def _shallow_key(obj):
    """ sort key for members of a set: must not depend on addresses or hash order """
    if isinstance(obj, (str, int, float, bytes, bool)) or obj is None:
        return ("", repr(obj), "", "")
    name = ""
    getter = getattr(obj, "get_name", None)
    if getter is not None:
        try:
            name = str(getter())
        except Exception:  # pylint: disable=broad-except
            name = ""
    return (type(obj).__name__, "", str(getattr(obj, "location", "")), name)


def _all_slots(cls):
    names = []
    for klass in reversed(cls.__mro__):
        slots = klass.__dict__.get("__slots__", ())
        if isinstance(slots, str):
            slots = (slots,)
        for slot in slots:
            if slot in ("__dict__", "__weakref__"):
                continue
            if slot.startswith("__") and not slot.endswith("__"):
                slot = f"_{klass.__name__.lstrip('_')}{slot}"
            if slot not in names:
                names.append(slot)
    return names


def canon(root):
    """ A JSON-able canonical form of the object graph below `root`.
        Every slot / __dict__ entry of every reachable object is included; shared and cyclic
        references become ["ref", n] where n is the visiting number of the target, so aliasing is
        part of the form. dict order is kept (it is content and survives pickling), set members
        are sorted by a shallow structural key.
    """
    from Bio.Seq import Seq  # local: the module must stay importable without Biopython loaded first
    memo: dict[int, int] = {}
    keep = []

    def walk(obj):  # pylint: disable=too-many-return-statements,too-many-branches
        if obj is None or obj is True or obj is False:
            return obj
        kind = type(obj)
        if kind is int or kind is str:
            return obj
        if kind is float:
            return ["float", repr(obj)]
        if isinstance(obj, (bytes, bytearray)):
            return ["bytes", bytes(obj).hex()]
        if isinstance(obj, enum.Enum):
            return ["enum", kind.__qualname__, obj.name]
        if isinstance(obj, (int, float, str)):  # subclasses, e.g. Bio positions
            return ["prim", kind.__qualname__, repr(obj)]
        if isinstance(obj, type) or (callable(obj) and hasattr(obj, "__qualname__")
                                     and kind.__module__ == "builtins"):
            return ["callable", f"{getattr(obj, '__module__', '')}.{obj.__qualname__}"]
        if isinstance(obj, functools.partial):
            return ["partial", walk(obj.func), walk(list(obj.args)), walk(dict(obj.keywords))]
        oid = id(obj)
        if oid in memo:
            return ["ref", memo[oid]]
        if kind is not tuple:
            memo[oid] = len(memo)
            keep.append(obj)
        if isinstance(obj, Seq):
            try:
                return ["Seq", str(obj)]
            except Exception:  # pylint: disable=broad-except
                return ["Seq-undefined", len(obj)]
        if isinstance(obj, tuple):
            # raw members: _SectionedCDSTuple overrides __iter__/__len__/__getitem__
            raw = list(tuple.__iter__(obj))
            return ["tuple" if kind is tuple else f"tuple:{kind.__qualname__}", [walk(x) for x in raw]]
        if isinstance(obj, list):
            return ["list" if kind is list else f"list:{kind.__qualname__}", [walk(x) for x in list.__iter__(obj)]]
        if isinstance(obj, (set, frozenset)):
            members = sorted(obj, key=_shallow_key)
            return ["set", [walk(x) for x in members]]
        if isinstance(obj, dict):
            head = "dict" if kind is dict else f"dict:{kind.__qualname__}"
            extra = []
            factory = getattr(obj, "default_factory", None)
            if factory is not None:
                extra = [walk(factory)]
            return [head, extra, [[walk(k), walk(v)] for k, v in dict.items(obj)]]
        attrs = []
        for slot in _all_slots(kind):
            try:
                value = object.__getattribute__(obj, slot)
            except AttributeError:
                attrs.append([slot, ["unset"]])
                continue
            attrs.append([slot, walk(value)])
        try:
            inst = object.__getattribute__(obj, "__dict__")
        except AttributeError:
            inst = None
        if inst:
            for key in sorted(inst):
                attrs.append([key, walk(inst[key])])
        return ["obj", f"{kind.__module__}.{kind.__qualname__}", attrs]

    return walk(root)


def digest(form) -> str:
    return hashlib.sha1(json.dumps(form, sort_keys=False, separators=(",", ":")).encode()).hexdigest()


def diff(left, right, path="", limit=5, out=None):
    """ paths at which two canonical forms differ (at most `limit`) """
    if out is None:
        out = []
    if len(out) >= limit:
        return out
    if type(left) is not type(right):
        out.append({"path": path, "seq": _short(left), "par": _short(right)})
        return out
    if isinstance(left, dict):
        for key in sorted(set(left) | set(right)):
            if key not in left or key not in right:
                out.append({"path": f"{path}.{key}", "seq": _short(left.get(key, "<absent>")),
                            "par": _short(right.get(key, "<absent>"))})
            else:
                diff(left[key], right[key], f"{path}.{key}", limit, out)
        return out
    if isinstance(left, list):
        if left and left[0] == "obj" and right and right[0] == "obj" and len(left) == 3 and len(right) == 3:
            if left[1] != right[1]:
                out.append({"path": path + "<class>", "seq": left[1], "par": right[1]})
                return out
            lattrs, rattrs = dict(map(tuple, left[2])), dict(map(tuple, right[2]))
            for key in list(lattrs) + [k for k in rattrs if k not in lattrs]:
                if key not in lattrs or key not in rattrs:
                    out.append({"path": f"{path}.{key}", "seq": _short(lattrs.get(key, "<absent>")),
                                "par": _short(rattrs.get(key, "<absent>"))})
                else:
                    diff(lattrs[key], rattrs[key], f"{path}.{key}", limit, out)
            return out
        if len(left) != len(right):
            out.append({"path": path + "<len>", "seq": len(left), "par": len(right),
                        "seq_head": _short(left), "par_head": _short(right)})
            return out
        for i, (lval, rval) in enumerate(zip(left, right)):
            diff(lval, rval, f"{path}[{i}]", limit, out)
        return out
    if left != right:
        out.append({"path": path, "seq": _short(left), "par": _short(right)})
    return out


def _short(value):
    text = json.dumps(value) if not isinstance(value, str) else value
    return text if len(text) <= 160 else text[:157] + "..."


# --------------------------------------------------------------------------
# worker functions (module level: pickled by reference)
# --------------------------------------------------------------------------

def arith_value(i, a, b):
    """ the pure part of `arith` (also evaluated sequentially by the offline checker) """
    return {"i": i, "v": a * a + 3 * b - i, "s": str(a % 10) * (b % 4), "l": [i, [a, b]]}


CONFIG_MARKER = "options-of-this-run"


def config_marker():
    """ a non-default option of the run that is not handed to the function explicitly: calls made one after another
        in the calling process see it, and so must the calls made in workers """
    from antismash.config import get_config
    try:
        return get_config().verif_marker
    except Exception as err:  # pylint: disable=broad-except
        return "absent:" + type(err).__name__


def arith(i, a, b, delay):
    t_start = time.monotonic()
    if delay:
        time.sleep(delay)
    value = arith_value(i, a, b)
    value["cfg"] = config_marker()
    return (value, os.getpid(), t_start, time.monotonic())


def plain_value(i):
    """ what a function working by side effect, or a lookup without an answer, returns: for some calls nothing """
    return None if i % 3 == 0 else (i if i % 3 == 1 else {"i": [i, None]})


def plain(i, delay):
    if delay:
        time.sleep(delay)
    return plain_value(i)


def _call_with_default_workers(function, args, machine):
    """ the number of workers is left to the default option of a machine with `machine` cores """
    import multiprocessing
    from unittest.mock import patch
    from antismash.common.subprocessing import parallel_function
    from antismash.config import build_config, get_config, update_config
    kept = dict(vars(get_config()))
    try:
        with patch.object(multiprocessing, "cpu_count", return_value=machine):
            build_config([], isolated=True, modules=[])
        return parallel_function(function, args)
    finally:
        build_config([], isolated=True, modules=[])
        update_config(kept)


class C18Error(Exception):
    """ an exception class of the harness, with a two-argument constructor state """


def maybe_raise(i, kinds, delay):
    """ kinds: dict str(index) -> exception kind; raising tasks raise after their delay """
    t_start = time.monotonic()
    if delay:
        time.sleep(delay)
    kind = kinds.get(str(i))
    if kind == "ValueError":
        raise ValueError(f"task {i} failed")
    if kind == "KeyError":
        raise KeyError(f"task {i} failed")
    if kind == "AntismashInputError":
        from antismash.common.errors import AntismashInputError
        raise AntismashInputError(f"task {i} failed")
    if kind == "C18Error":
        raise C18Error(f"task {i} failed")
    if kind == "ZeroDivisionError":
        return 1 // 0
    return (arith_value(i, i, 1), os.getpid(), t_start, time.monotonic())


def expected_exception(i, kind):
    """ (type name, message) that `maybe_raise` gives for task i """
    if kind == "KeyError":
        return ("KeyError", repr(f"task {i} failed"))
    if kind == "ZeroDivisionError":
        return ("ZeroDivisionError", "integer division or modulo by zero")
    return (kind, f"task {i} failed")


def sleeper(i, seconds):
    t_start = time.monotonic()
    time.sleep(seconds)
    return (arith_value(i, i, 2), os.getpid(), t_start, time.monotonic())


def dier(i, victims, how, delay):
    """ the worker process running a victim task disappears without reporting """
    t_start = time.monotonic()
    if delay:
        time.sleep(delay)
    if i in victims:
        if how == "exit":
            os._exit(3)  # pylint: disable=protected-access
        os.kill(os.getpid(), signal.SIGKILL)
        time.sleep(60)
    return (arith_value(i, i, 3), os.getpid(), t_start, time.monotonic())


def rec_echo(obj, delay):
    t_start = time.monotonic()
    if delay:
        time.sleep(delay)
    return (obj, os.getpid(), t_start, time.monotonic())


def rec_sanitise(record, delay):
    from antismash.common import record_processing
    t_start = time.monotonic()
    if delay:
        time.sleep(delay)
    out = record_processing.sanitise_sequence(record)
    return (out, os.getpid(), t_start, time.monotonic())


GENEFINDING_OPTS = {"genefinding_tool": "prodigal", "genefinding_gff3": "", "taxon": "bacteria"}


def rec_ensure(record, delay):
    from antismash.common import record_processing
    t_start = time.monotonic()
    if delay:
        time.sleep(delay)
    out = record_processing.ensure_cds_info(find_genes, record, **GENEFINDING_OPTS)
    return (out, os.getpid(), t_start, time.monotonic())


def cds_probe(cds, index, delay):
    """ shaped like smcog_tree_analysis(cds, index, ...): a CDSFeature of a region crosses the
        boundary and drags its region and record along """
    t_start = time.monotonic()
    if delay:
        time.sleep(delay)
    region = cds.region
    summary = {"index": index, "name": cds.get_name(), "translation": cds.translation,
               "region": None if region is None else [str(region.location),
                                                      [c.get_name() for c in region.cds_children]]}
    return ((summary, cds), os.getpid(), t_start, time.monotonic())


def find_genes(record, options):  # pylint: disable=unused-argument
    """ gene-finding shaped: run_on_record(record, options) adds CDS (and gene) features to the
        record it was given. The plan travels inside the record (annotation c18_genes), as do an
        optional delay and, on return, the trace (pid, t_start, t_end). """
    from antismash.common.secmet.features import CDSFeature, Gene
    t_start = time.monotonic()
    annotations = record.annotations
    delay = float(annotations.get("c18_delay", "0") or 0)
    if delay:
        time.sleep(delay)
    for item in annotations.get("c18_genes", []):
        if item == "raise":
            raise ValueError(f"gene finding failed in {record.id}")
        tag, strand, parts, translation = item.split("|")
        location = make_location([[int(x) for x in p.split(":")] for p in parts.split(",")], int(strand))
        record.add_cds_feature(CDSFeature(location, translation=translation, locus_tag=tag,
                                          translation_table=record.transl_table))
        record.add_gene(Gene(location, locus_tag=tag))
    record.add_annotation(TRACE_KEY, [str(os.getpid()), repr(t_start), repr(time.monotonic())])


run_on_record = find_genes  # so that this module can stand in for a genefinding module


# --------------------------------------------------------------------------
# building Records from JSON specs
# --------------------------------------------------------------------------

def make_location(parts, strand):
    """ parts: [[start, end], ...] in biological order """
    from antismash.common.secmet.locations import CompoundLocation, FeatureLocation
    locs = [FeatureLocation(s, e, strand) for s, e in parts]
    if len(locs) == 1:
        return locs[0]
    return CompoundLocation(locs)


def _area_location(pair, length):
    start, end = pair
    if start > end or (start == end):
        return make_location([[start, length], [0, end]], 1)
    return make_location([[start, end]], 1)


def build_record(spec):  # pylint: disable=too-many-locals,too-many-branches
    """ a real secmet.Record from a JSON spec (see vf/checks/c18.py:gen_record_spec) """
    from Bio.Seq import Seq
    from antismash.common.secmet import Record
    from antismash.common.secmet.features import (CDSFeature, CDSMotif, Gene, PFAMDomain, Protocluster,
                                                  SubRegion, Feature)
    from antismash.common.secmet.locations import FeatureLocation
    from antismash.common.secmet.qualifiers import GeneFunction

    rnd = random.Random(spec["seed"])
    length = spec["length"]
    seq = [rnd.choice("ACGT") for _ in range(length)]
    for _ in range(spec.get("dirt", 0)):
        seq[rnd.randrange(length)] = rnd.choice("nNRYKMxacgt" if spec.get("gapless") else "-nNRYKMxacgt-")
    if spec.get("blank"):
        seq = [rnd.choice("-NnX") for _ in range(length)]
    annotations = {"molecule_type": "DNA", "topology": "circular" if spec["circular"] else "linear",
                   "organism": "Verificatio syntheticus", "source": "synthetic", "data_file_division": "BCT"}
    record = Record(Seq("".join(seq)), id=spec["id"], name=spec["id"], description=f"generated {spec['id']}",
                    annotations=annotations, transl_table=11)
    record.record_index = spec.get("index", 1)
    if spec.get("original_id"):
        record.original_id = spec["original_id"]
    if spec.get("skip"):
        record.skip = spec["skip"]
    for cds in spec.get("cds", []):
        location = make_location(cds["parts"], cds["strand"])
        feature = CDSFeature(location, translation=cds["translation"], locus_tag=cds["tag"],
                             product=cds.get("product", ""), translation_table=11)
        if cds.get("core"):
            feature.gene_functions.add(GeneFunction.CORE, "c18", f"core for {cds['core']}", cds["core"])
        record.add_cds_feature(feature)
        if cds.get("gene"):
            record.add_gene(Gene(location, locus_tag=cds["tag"]))
        if cds.get("pfam"):
            first = location.parts[0]
            sub = FeatureLocation(first.start, min(first.end, first.start + 30), first.strand)
            pfam = PFAMDomain(sub, "a generated domain", FeatureLocation(0, 10), "PF00001.3", "c18", cds["tag"],
                              domain="p450")
            pfam.domain_id = f"pfam_{cds['tag']}"
            if zlib.crc32(cds["tag"].encode()) % 2 == 0:
                # as pfam2go annotates them
                from antismash.common.secmet.qualifiers.go import GOQualifier
                pfam.gene_ontologies = GOQualifier({"GO:0004497": "monooxygenase activity",
                                                    "GO:0005506": "iron ion binding"})
            record.add_pfam_domain(pfam)
            motif = CDSMotif(sub, cds["tag"], FeatureLocation(0, 10), "c18")
            motif.domain_id = f"motif_{cds['tag']}"
            record.add_cds_motif(motif)
    for i, misc in enumerate(spec.get("misc", [])):
        feature = Feature(make_location([misc], 1), feature_type="misc_feature")
        feature.notes.append(f"note {i}")
        record.add_feature(feature)
    if spec.get("gene_plan") is not None:
        record.add_annotation("c18_genes", list(spec["gene_plan"]))
    if spec.get("delay"):
        record.add_annotation("c18_delay", repr(spec["delay"]))
    for proto in spec.get("protoclusters", []):
        core = _area_location(proto["core"], length)
        surround = _area_location(proto["surround"], length)
        record.add_protocluster(Protocluster(core, surround, "c18", proto["product"], proto["cutoff"],
                                             proto["neighbourhood"], "cds(any)", product_category="PKS"))
    for sub in spec.get("subregions", []):
        record.add_subregion(SubRegion(_area_location(sub, length), tool="c18", label="generated"))
    if spec.get("protoclusters") or spec.get("subregions"):
        record.create_candidate_clusters()
        record.create_regions()
    if spec.get("warm"):
        warm(record)
    return record


def warm(record):
    """ access the caches, so that the cached tuples (_SectionedCDSTuple) exist when pickled """
    record.get_cds_features()
    for group in (record.get_protoclusters(), record.get_candidate_clusters(), record.get_subregions(),
                  record.get_regions()):
        for area in group:
            assert area.cds_children is not None


def record_shape(record):
    """ structural facts about what is about to cross the process boundary """
    from antismash.common.secmet.features.cdscollection import _SectionedCDSTuple
    areas = list(record.get_protoclusters()) + list(record.get_candidate_clusters()) \
        + list(record.get_subregions()) + list(record.get_regions())
    sectioned = 0
    sections = set()
    for area in areas:
        cached = area._cdses._cached  # pylint: disable=protected-access
        if isinstance(cached, _SectionedCDSTuple) and not area._cdses._dirty:  # pylint: disable=protected-access
            sectioned += 1
            for name in ("pre_origin", "cross_origin", "post_origin"):
                if getattr(cached, name):
                    sections.add(name)
    cdses = list(record._cds_features)  # pylint: disable=protected-access  # no accessor: those fill caches
    return {"cds": len(cdses), "regions": len(record.get_regions()),
            "areas": len(areas), "sectioned_tuples": sectioned, "sections_filled": sorted(sections),
            "origin_spanning_area": any(len(a.location.parts) > 1 for a in areas),
            "origin_spanning_cds": any(c.crosses_origin() for c in cdses),
            "multi_exon_cds": any(len(c.location.parts) > 1 and not c.crosses_origin() for c in cdses),
            "circular": record.is_circular(), "skip": bool(record.skip)}


def api_view(record):
    """ the record as seen through its public interface (exercises __getattr__ passthroughs and
        the tuple subclass's overridden accessors after unpickling) """
    def area_view(area):
        kids = area.cds_children
        return [area.type, str(area.location), [c.get_name() for c in kids], len(kids),
                [c.get_name() for c in kids.pre_origin], [c.get_name() for c in kids.cross_origin],
                [c.get_name() for c in kids.post_origin], area.contig_edge]
    return {
        "id": record.id, "name": record.name, "description": record.description, "seq": str(record.seq),
        "len": len(record), "skip": record.skip, "record_index": record.record_index,
        "original_id": record.original_id, "circular": record.is_circular(),
        "annotations": {k: v for k, v in sorted(record.annotations.items()) if k != TRACE_KEY},
        "cds": [[c.get_name(), str(c.location), c.translation, c.unique_id,
                 None if c.region is None else c.region.get_region_number(),
                 str(c.gene_function)] for c in record.get_cds_features()],
        "genes": [[g.get_name(), str(g.location)] for g in record.get_genes()],
        "pfams": [[p.domain_id, str(p.location), p.full_identifier] for p in record.get_pfam_domains()],
        "motifs": [[m.domain_id, str(m.location)] for m in record.get_cds_motifs()],
        "generics": [[f.type, str(f.location), list(f.notes)] for f in record.get_generics()],
        "protoclusters": [area_view(a) + [a.product, str(a.core_location),
                                          sorted(c.get_name() for c in a.definition_cdses)]
                          for a in record.get_protoclusters()],
        "candidates": [area_view(a) + [str(a.kind), [p.get_protocluster_number() for p in a.protoclusters]]
                       for a in record.get_candidate_clusters()],
        "subregions": [area_view(a) for a in record.get_subregions()],
        "regions": [area_view(a) + [a.get_region_number(), a.products] for a in record.get_regions()],
    }


def full_form(obj):
    """ canonical form of a task result: the structural graph plus, for Records, the API view """
    from antismash.common.secmet import Record
    from antismash.common.secmet.features import CDSFeature
    record = None
    if isinstance(obj, Record):
        record = obj
    elif isinstance(obj, tuple) and len(obj) == 2 and isinstance(obj[1], CDSFeature) and obj[1].region is not None:
        record = obj[1].region.parent_record
    trace = None
    if record is not None and TRACE_KEY in record.annotations:
        trace = record.annotations.pop(TRACE_KEY)
    form = {"graph": canon(obj)}
    if record is not None:
        try:
            form["api"] = api_view(record)
        except Exception as err:  # an object that broke on the way is an observation  # pylint: disable=broad-except
            form["api"] = {"accessor_failed": f"{type(err).__name__}: {err}"[:200]}
    return form, trace


# --------------------------------------------------------------------------
# the child driver
# --------------------------------------------------------------------------

def _timing(results):
    return [[r[1], r[2], r[3]] for r in results]


def _wellformed(results, n_fields=4):
    return isinstance(results, list) and all(isinstance(r, tuple) and len(r) == n_fields for r in results)


def _call_parallel(function, args, scenario):
    """ the call under observation """
    from antismash.common.subprocessing import parallel_function
    from antismash.config import update_config
    if scenario.get("generator_args"):
        args = (a for a in args)
    kwargs = {}
    if scenario.get("timeout") is not None:
        kwargs["timeout"] = scenario["timeout"]
    if scenario.get("via_config"):
        update_config({"cpus": scenario["k"]})
        return parallel_function(function, args, **kwargs)
    return parallel_function(function, args, cpus=scenario["k"], **kwargs)


def _outcome(call):
    started = time.monotonic()
    try:
        value = call()
    except Exception as err:  # pylint: disable=broad-except
        return {"outcome": "raised", "exc_type": type(err).__name__, "exc_msg": str(err)[:300],
                "exc_bases": [c.__name__ for c in type(err).__mro__], "wall": time.monotonic() - started}, None
    return {"outcome": "returned", "wall": time.monotonic() - started}, value


def _describe_return(value):
    out = {"type": type(value).__name__}
    try:
        out["len"] = len(value)
    except TypeError:
        pass
    return out


def _record_objects(scenario):
    """ (sequential args, parallel args, shapes, unstable): two independent builds of the same specs.
        Building is itself real antiSMASH code (candidate/region formation); where two builds of one
        spec do not give the same object graph (not this property's business) the task is marked
        unstable and the checker does not compare its content. """
    seq_args, par_args, shapes, unstable = [], [], [], []
    fn = scenario["fn"]
    for i, (spec, delay) in enumerate(zip(scenario["records"], scenario["delays"])):
        if fn in ("raw_ensure", "pre_process"):
            spec = dict(spec, delay=delay)
        first = build_record(spec)
        reference = canon(first)      # canon() calls no methods: caches stay as built
        for _ in range(4):
            second = build_record(spec)
            if canon(second) == reference:
                break
        else:
            unstable.append(i)
        shapes.append(record_shape(second))
        if fn == "children_echo":
            # the cached gene tuple of an area on its own, as an argument and as a result
            def children(record):
                regions = record.get_regions()
                return regions[0].cds_children if regions else record.get_cds_features()
            seq_args.append([children(first), 0])
            par_args.append([children(second), delay])
        elif fn == "cds_probe":
            pick = spec.get("pick", 0)
            seq_args.append([first.get_cds_features()[pick], i, 0])
            par_args.append([second.get_cds_features()[pick], i, delay])
        elif fn in ("raw_sanitise", "raw_ensure", "pre_process"):
            seq_args.append([first])
            par_args.append([second])
        else:
            seq_args.append([first, 0])
            par_args.append([second, delay])
    return seq_args, par_args, shapes, unstable


RECORD_FUNCTIONS = {"echo": rec_echo, "sanitise": rec_sanitise, "ensure": rec_ensure, "cds_probe": cds_probe,
                    "children_echo": rec_echo}


def run_record_scenario(scenario):  # pylint: disable=too-many-locals,too-many-branches
    from antismash.common import record_processing
    fn = scenario["fn"]
    try:
        seq_args, par_args, shapes, unstable = _record_objects(scenario)
    except Exception as err:  # pylint: disable=broad-except
        return {"outcome": "build_failed", "exc_type": type(err).__name__, "exc_msg": str(err)[:300]}
    wrapped = fn in RECORD_FUNCTIONS
    if wrapped:
        function = RECORD_FUNCTIONS[fn]
    elif fn == "raw_sanitise":
        function = record_processing.sanitise_sequence
    else:
        function = functools.partial(record_processing.ensure_cds_info, find_genes, **GENEFINDING_OPTS)

    # the sequential run, in this process
    seq_info, seq_results = _outcome(lambda: [function(*a) for a in seq_args])
    # what goes to the workers and what they send back crosses the process boundary as a pickle: when an
    # argument or a sequential result does not survive that (a deterministic fact, no scheduling involved), no
    # pool is started - a pool whose worker or result handler dies while unpickling never returns
    if scenario["k"] > 1:
        import pickle
        payloads = [("argument", i, a) for i, a in enumerate(par_args)]
        if seq_info["outcome"] == "returned":
            payloads += [("result", i, r) for i, r in enumerate(seq_results)]
        for what, i, payload in payloads:
            try:
                pickle.loads(pickle.dumps(payload))
            except Exception as err:  # pylint: disable=broad-except
                return {"outcome": "not_picklable", "what": what, "index": i, "exc_type": type(err).__name__,
                        "exc_msg": str(err)[:300], "seq_outcome": seq_info["outcome"], "shapes": shapes}
    info, results = _outcome(lambda: _call_parallel(function, par_args, scenario))
    info["shapes"] = shapes
    info["unstable_builds"] = unstable
    info["seq_outcome"] = seq_info["outcome"]
    if seq_info["outcome"] == "raised":
        info["seq_exc"] = [seq_info["exc_type"], seq_info["exc_msg"]]
    if info["outcome"] != "returned":
        return info
    info["returned"] = _describe_return(results)
    if not isinstance(results, list) or (wrapped and not _wellformed(results)):
        info["malformed"] = True
        return info
    if seq_info["outcome"] != "returned":
        return info
    tasks = []
    for i, result in enumerate(results):
        payload = result[0] if wrapped else result
        form, trace = full_form(payload)
        entry = {"digest": digest(form), "id": _payload_id(payload)}
        if wrapped:
            entry["pid"], entry["t0"], entry["t1"] = result[1], result[2], result[3]
        elif trace:
            entry["pid"], entry["t0"], entry["t1"] = int(trace[0]), float(trace[1]), float(trace[2])
        if i < len(seq_results):
            seq_payload = seq_results[i][0] if wrapped else seq_results[i]
            seq_form, _ = full_form(seq_payload)
            entry["seq_digest"] = digest(seq_form)
            entry["seq_id"] = _payload_id(seq_payload)
            if entry["seq_digest"] != entry["digest"]:
                entry["diff"] = diff(seq_form, form)
        tasks.append(entry)
    info["tasks"] = tasks
    info["seq_len"] = len(seq_results)
    return info


def _payload_id(payload):
    from antismash.common.secmet import Record
    if isinstance(payload, Record):
        return payload.id
    if isinstance(payload, tuple) and payload and isinstance(payload[0], dict):
        return f"{payload[0].get('index')}:{payload[0].get('name')}"
    return None


def run_pre_process(scenario):
    """ the real pre_process_sequences with config cpus = k, against the same call with cpus = 1 """
    from antismash.common import record_processing
    from antismash.config import get_config, update_config
    module = sys.modules[__name__]
    try:
        seq_args, par_args, shapes, unstable = _record_objects(scenario)
    except Exception as err:  # pylint: disable=broad-except
        return {"outcome": "build_failed", "exc_type": type(err).__name__, "exc_msg": str(err)[:300]}

    def call(records, cpus):
        update_config({"cpus": cpus, "minlength": scenario.get("minlength", 0), "limit": -1,
                       "limit_to_record": "", "reuse_results": None, "skip_sanitisation": False,
                       "allow_long_headers": True, **GENEFINDING_OPTS})
        return record_processing.pre_process_sequences(records, get_config(), module)

    seq_info, seq_results = _outcome(lambda: call([a[0] for a in seq_args], 1))
    info, results = _outcome(lambda: call([a[0] for a in par_args], scenario["k"]))
    info["shapes"] = shapes
    info["unstable_builds"] = unstable
    info["seq_outcome"] = seq_info["outcome"]
    if seq_info["outcome"] == "raised":
        info["seq_exc"] = [seq_info["exc_type"], seq_info["exc_msg"]]
    if info["outcome"] != "returned" or seq_info["outcome"] != "returned":
        return info
    info["returned"] = _describe_return(results)
    if not isinstance(results, list):
        info["malformed"] = True
        return info
    tasks = []
    for i, payload in enumerate(results):
        form, trace = full_form(payload)
        entry = {"digest": digest(form), "id": _payload_id(payload)}
        # pre-processing numbers the records by their position in the batch before anything else happens
        entry["record_index"] = getattr(payload, "record_index", None)
        if trace:
            entry["pid"], entry["t0"], entry["t1"] = int(trace[0]), float(trace[1]), float(trace[2])
        if i < len(seq_results):
            seq_form, _ = full_form(seq_results[i])
            entry["seq_digest"] = digest(seq_form)
            entry["seq_id"] = _payload_id(seq_results[i])
            if entry["seq_digest"] != entry["digest"]:
                entry["diff"] = diff(seq_form, form)
        tasks.append(entry)
    info["tasks"] = tasks
    info["seq_len"] = len(seq_results)
    return info


def run_execute(scenario, scratch):
    """ parallel_execute on shell commands that exit with prescribed codes after prescribed delays """
    from antismash.common.subprocessing import parallel_execute
    os.makedirs(scratch, exist_ok=True)
    commands = []
    for i, (code, delay) in enumerate(zip(scenario["codes"], scenario["delays"])):
        stamp = os.path.join(scratch, f"{scenario['sid']}.{i}")
        commands.append(["sh", "-c", f"sleep {delay}; date +%s%N > {stamp}; exit {code}"])
    shared = os.path.join(scratch, f"{scenario['sid']}.shared")
    if scenario.get("repeat"):
        # the same command line n times, each call leaving a line in one file (a retry, an appending tool): each is a call
        # of its own; run one after another the k-th call exits with k
        commands = [["sh", "-c", f"echo x >> {shared}; exit $(wc -l < {shared})"] for _ in commands]
    kwargs = {"cpus": scenario["k"], "verbose": bool(scenario.get("verbose"))}
    if scenario.get("timeout") is not None:
        kwargs["timeout"] = scenario["timeout"]
    info, results = _outcome(lambda: parallel_execute(commands, **kwargs))
    if scenario.get("repeat"):
        try:
            with open(shared, encoding="ascii") as handle:
                info["ran"] = len(handle.read().splitlines())
        except OSError:
            info["ran"] = 0
    if info["outcome"] == "returned":
        info["returned"] = _describe_return(results)
        info["codes"] = list(results) if isinstance(results, list) else None
        stamps = []
        for i in range(len(commands)):
            try:
                with open(os.path.join(scratch, f"{scenario['sid']}.{i}"), encoding="ascii") as handle:
                    stamps.append(int(handle.read().strip() or 0))
            except (OSError, ValueError):
                stamps.append(None)
        info["stamps"] = stamps
    return info


def run_scenario(scenario, scratch):  # pylint: disable=too-many-return-statements
    kind = scenario["kind"]
    if kind == "arith":
        info, results = _outcome(lambda: _call_parallel(arith, scenario["args"], scenario))
    elif kind == "plain":
        args = [[i, d] for i, d in enumerate(scenario["delays"])]
        if scenario.get("default_of_machine"):
            info, results = _outcome(lambda: _call_with_default_workers(plain, args, scenario["default_of_machine"]))
        else:
            info, results = _outcome(lambda: _call_parallel(plain, args, scenario))
        if info["outcome"] == "returned":
            info["plain"] = results if isinstance(results, list) else repr(results)[:200]
        return info
    elif kind == "raise":
        args = [[i, scenario["raisers"], d] for i, d in enumerate(scenario["delays"])]
        info, results = _outcome(lambda: _call_parallel(maybe_raise, args, scenario))
    elif kind == "sleep":
        args = [[i, s] for i, s in enumerate(scenario["sleeps"])]
        info, results = _outcome(lambda: _call_parallel(sleeper, args, scenario))
    elif kind == "die":
        args = [[i, scenario["victims"], scenario["how"], d] for i, d in enumerate(scenario["delays"])]
        info, results = _outcome(lambda: _call_parallel(dier, args, scenario))
    elif kind == "record":
        if scenario["fn"] == "pre_process":
            return run_pre_process(scenario)
        return run_record_scenario(scenario)
    elif kind == "execute":
        return run_execute(scenario, scratch)
    else:
        return {"outcome": "unknown-kind"}
    if info["outcome"] == "returned":
        info["returned"] = _describe_return(results)
        if _wellformed(results):
            info["payloads"] = [r[0] for r in results]
            info["timing"] = _timing(results)
        else:
            info["malformed"] = True
            info["repr"] = repr(results)[:300]
    return info


def main(argv):
    import faulthandler
    faulthandler.enable()
    plan_path, out_path, scratch = argv[1], argv[2], argv[3]
    with open(plan_path, encoding="utf-8") as handle:
        plan = json.load(handle)
    import logging
    logging.disable(logging.CRITICAL)
    from antismash.config import build_config, update_config
    build_config([], isolated=True, modules=[])
    update_config(dict(GENEFINDING_OPTS))
    update_config({"verif_marker": CONFIG_MARKER})
    with open(out_path, "a", encoding="utf-8") as out:
        def emit(obj):
            out.write(json.dumps(obj) + "\n")
            out.flush()
        emit({"ev": "hello", "pid": os.getpid(), "t": time.monotonic()})
        for scenario in plan:
            emit({"ev": "begin", "sid": scenario["sid"], "t": time.monotonic()})
            # the options change from batch to batch within one process (as between the stages and the records of a
            # run): every batch sees the options of the moment it is started
            update_config({"verif_marker": f"{CONFIG_MARKER}/{scenario['sid']}"})
            try:
                info = run_scenario(scenario, scratch)
            except Exception as err:  # harness failure, not an observation  # pylint: disable=broad-except
                import traceback
                info = {"outcome": "harness_error", "exc_type": type(err).__name__,
                        "exc_msg": traceback.format_exc()[-1500:]}
            emit({"ev": "end", "sid": scenario["sid"], "t": time.monotonic(), **info})
        emit({"ev": "bye", "t": time.monotonic()})
    return 0


if __name__ == "__main__":
    # run through the importable module, so that functions pickle as vf.c18_workers.<name>
    from vf import c18_workers as _module
    sys.exit(_module.main(sys.argv))
