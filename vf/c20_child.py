"""C20 child: one write of results holding non-ASCII text over an existing file, in a process whose locale encoding
is whatever the parent set (LC_ALL=C, UTF-8 mode off: the locale's codec cannot encode such text).

usage: python -m vf.c20_child <target path> <function: write_to_file|dump_records>
prints one JSON line: {"error": type name or null, "message": ..., "preferred_encoding": ...}
"""
import json
import locale
import logging
import sys


def main() -> int:
    logging.disable(logging.CRITICAL)
    from antismash.common import serialiser
    from antismash.common.module_results import ModuleResults
    from antismash.common.secmet.test.helpers import DummyRecord

    class Greek(ModuleResults):
        def to_json(self):
            return {"record_id": self.record_id, "schema_version": 1, "product": "β-lactone", "note": "café → done"}

        def add_to_record(self, record):
            pass

    target, function = sys.argv[1], sys.argv[2]
    records = [DummyRecord(seq="ACGT" * 30, record_id=f"rec{i}") for i in range(2)]
    results = [{"antismash.vf.plain": Greek(rec.id)} for rec in records]
    whole = serialiser.AntismashResults("input.gbk", records, results, "vf-test")
    outcome = {"error": None, "message": "", "preferred_encoding": locale.getpreferredencoding(False)}
    try:
        if function == "write_to_file":
            whole.write_to_file(target)
        else:
            serialiser.dump_records(results, records, handle=target)
    except BaseException as err:  # pylint: disable=broad-except
        outcome["error"] = type(err).__name__
        outcome["message"] = str(err)[:200]
    print(json.dumps(outcome))
    return 0


if __name__ == "__main__":
    sys.exit(main())
