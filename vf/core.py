"""Shared run context: seeded randomness, counters, three-valued verdicts, evidence.

A check module (vf/checks/cXX.py) provides
    PROPERTY, LEVEL, RULE, ASSUMPTIONS, REQUIRED (counter names that must be > 0),
    PARALLEL (bool: thorough tier fans out to worker processes),
    run(ctx)            -- drive the workload, calling ctx.case / ctx.violate / ctx.count
    replay(ctx, case)   -- optional: re-run one dumped case
Monitors record and return; the verdict is taken in Ctx.finish().
"""
from __future__ import annotations

import collections
import hashlib
import json
import os
import random
import sys
import time
import traceback

HERE = os.path.dirname(os.path.dirname(os.path.abspath(__file__)))
# (the overrides keep runs against scratch copies of the repository from replacing the real evidence)
REPLAY_DIR = os.environ.get("VERIF_REPLAY_DIR") or os.path.join(HERE, "replays")
EVIDENCE_DIR = os.environ.get("VERIF_EVIDENCE_DIR") or os.path.join(HERE, "evidence")
WORK_DIR = os.path.join(HERE, ".work")

MAX_SAMPLES = 4
MAX_STORED_VIOLATIONS = 40


def jsonable(obj):
    """ Best-effort conversion of a case description into JSON-able data """
    if isinstance(obj, (str, int, float, bool)) or obj is None:
        return obj
    if isinstance(obj, dict):
        return {str(k): jsonable(v) for k, v in obj.items()}
    if isinstance(obj, (list, tuple)):
        return [jsonable(v) for v in obj]
    if isinstance(obj, (set, frozenset)):
        return sorted((jsonable(v) for v in obj), key=repr)
    return str(obj)


def crash_facts(err) -> dict:
    tb = traceback.extract_tb(err.__traceback__)
    return {"exception": type(err).__name__, "message": str(err)[:200],
            "where": [f"{os.path.basename(f.filename)}:{f.name}" for f in tb[-4:]]}


def digest(obj) -> str:
    return hashlib.sha1(json.dumps(jsonable(obj), sort_keys=True).encode()).hexdigest()[:16]


class Ctx:
    def __init__(self, pid: str, tier: str, seed: int, worker: int = 0, nworkers: int = 1,
                 budget_s: float | None = None):
        self.pid = pid
        self.tier = tier
        self.seed = seed
        self.worker = worker
        self.nworkers = nworkers
        self.t0 = time.monotonic()
        self.cpu0 = time.process_time()
        self._phase_end = None      # (cpu deadline, wall deadline) of the current phase, if any
        if budget_s is None:
            budget_s = float(os.environ.get("VERIF_BUDGET_S", 0)) or (40.0 if tier == "quick" else 420.0)
        self.budget_s = budget_s
        self.counters: collections.Counter = collections.Counter()
        self.nontrivial: set[str] = set()
        self.samples: list = []
        self.evaluations = 0
        self.violations: list[dict] = []
        self.violation_count = 0
        self.known: dict[str, dict] = {}
        self.notes: list[str] = []
        self.extra: dict = {}
        self.budget_hit = False
        self.exhaustive = None
        from vf import findings
        self._findings = findings

    # ---- randomness -------------------------------------------------------
    def rng(self, *key) -> random.Random:
        text = f"{self.seed}/{self.pid}/{self.worker}/" + "/".join(str(k) for k in key)
        return random.Random(int(hashlib.sha256(text.encode()).hexdigest()[:16], 16))

    # ---- budgets ------------------------------------------------------------
    def quota(self, quick: int, thorough: int) -> int:
        """ number of cases for this process (thorough is the total over all workers) """
        scale = float(os.environ.get("VERIF_SCALE", 1.0))
        if self.tier == "quick":
            return max(1, int(quick * scale))
        return max(1, int(thorough * scale / self.nworkers))

    def time_left(self) -> float:
        """ soft budget, counted in CPU seconds of this process so that the amount of work done does not
            depend on how loaded the machine is; wall-clock time only caps it at 3 x the budget """
        cpu = time.process_time() - self.cpu0
        wall = time.monotonic() - self.t0
        left = min(self.budget_s - cpu, 3 * self.budget_s - wall)
        if self._phase_end is not None:
            left = min(left, self._phase_end[0] - cpu, self._phase_end[1] - wall)
        return left

    def phase(self, share: float):
        """ context manager: the enclosed part of the workload may use at most `share` of the whole budget,
            so that later parts are reached whatever the speed of the machine """
        ctx = self

        class _Phase:
            def __enter__(self):
                cpu = time.process_time() - ctx.cpu0
                wall = time.monotonic() - ctx.t0
                ctx._phase_end = (cpu + share * ctx.budget_s, wall + 3 * share * ctx.budget_s)

            def __exit__(self, *exc):
                ctx._phase_end = None
                return False
        return _Phase()

    def cases(self, n: int, every: int = 16):
        """ yields case indices until n or until the soft time budget is used up """
        for i in range(n):
            if i % every == 0 and self.time_left() <= 0:
                self.budget_hit = True
                self.counters["budget_stop_at"] = i
                return
            yield i

    # ---- recording ----------------------------------------------------------
    def count(self, name: str, n: int = 1) -> None:
        self.counters[name] += n

    def case(self, key=None, nontrivial: bool = False, sample=None) -> None:
        """ one executed case; key is its canonical form (for distinctness) """
        self.evaluations += 1
        if nontrivial:
            self.nontrivial.add(key if isinstance(key, str) and len(key) <= 16 else digest(key))
        if sample is not None and len(self.samples) < MAX_SAMPLES and (nontrivial or self.evaluations < 3):
            self.samples.append(jsonable(sample))

    def violate(self, clause: str, facts: dict, case) -> str | None:
        """ record a deviation; returns the known-finding id it was attributed to, if any """
        facts = dict(facts)
        known_id = self._findings.classify(self.pid, clause, facts)
        if known_id is not None:
            entry = self.known.setdefault(known_id, {"count": 0, "example": None})
            entry["count"] += 1
            if entry["example"] is None:
                entry["example"] = jsonable({"clause": clause, "facts": facts, "case": case})
            return known_id
        self.violation_count += 1
        self.counters["violation:" + clause] += 1
        if self.counters["violation:" + clause] <= 3 and len(self.violations) < MAX_STORED_VIOLATIONS:
            self.violations.append(jsonable({"clause": clause, "facts": facts, "case": case}))
        return None

    def guard(self, clause_on_crash: str, case, fn, *args, **kwargs):
        """ run fn; an unexpected exception inside code under test is a recorded deviation """
        try:
            return True, fn(*args, **kwargs)
        except Exception as err:  # pylint: disable=broad-except
            tb = traceback.extract_tb(err.__traceback__)
            where = [f"{os.path.basename(f.filename)}:{f.name}" for f in tb[-4:]]
            self.violate(clause_on_crash, {"exception": type(err).__name__, "message": str(err)[:200],
                                           "where": where}, case)
            return False, err

    # ---- (de)serialisation for workers ------------------------------------
    def to_partial(self) -> dict:
        return {
            "counters": dict(self.counters), "nontrivial": sorted(self.nontrivial),
            "samples": self.samples, "evaluations": self.evaluations,
            "violations": self.violations, "violation_count": self.violation_count,
            "known": self.known, "notes": self.notes, "extra": self.extra,
            "budget_hit": self.budget_hit, "exhaustive": self.exhaustive,
            "wall_s": time.monotonic() - self.t0,
        }

    def merge_partial(self, part: dict) -> None:
        self.counters.update(part["counters"])
        self.nontrivial.update(part["nontrivial"])
        for s in part["samples"]:
            if len(self.samples) < MAX_SAMPLES:
                self.samples.append(s)
        self.evaluations += part["evaluations"]
        self.violation_count += part["violation_count"]
        for v in part["violations"]:
            if len(self.violations) < MAX_STORED_VIOLATIONS:
                self.violations.append(v)
        for k, v in part["known"].items():
            entry = self.known.setdefault(k, {"count": 0, "example": None})
            entry["count"] += v["count"]
            if entry["example"] is None:
                entry["example"] = v["example"]
        self.notes.extend(n for n in part["notes"] if n not in self.notes)
        for k, v in part.get("extra", {}).items():
            if isinstance(v, (int, float)) and isinstance(self.extra.get(k), (int, float)):
                self.extra[k] += v
            elif isinstance(v, list) and isinstance(self.extra.get(k), list):
                self.extra[k] = sorted(set(map(json.dumps, self.extra[k])) | set(map(json.dumps, v)))
                self.extra[k] = [json.loads(x) for x in self.extra[k]]
            else:
                self.extra.setdefault(k, v)
        self.budget_hit = self.budget_hit or part["budget_hit"]
        if part.get("exhaustive") is not None:
            self.exhaustive = part["exhaustive"] if self.exhaustive is None else (self.exhaustive and part["exhaustive"])

    # ---- verdict ------------------------------------------------------------
    def finish(self, module) -> int:
        os.makedirs(EVIDENCE_DIR, exist_ok=True)
        os.makedirs(REPLAY_DIR, exist_ok=True)
        wall = time.monotonic() - self.t0
        required = list(getattr(module, "REQUIRED", []))
        if self.tier == "thorough":
            required += list(getattr(module, "REQUIRED_THOROUGH", []))
        missing = [name for name in required if self.counters.get(name, 0) <= 0]
        inconclusive = []
        if missing:
            inconclusive.append("deciding counters are zero: " + ", ".join(missing))
        if self.evaluations < 1 or len(self.nontrivial) < 2:
            inconclusive.append(f"too few non-trivial cases ({len(self.nontrivial)} of {self.evaluations})")

        replay_paths = []
        for name in os.listdir(REPLAY_DIR):
            if name.startswith(f"{self.pid}-{self.tier}-{self.seed}-"):
                os.remove(os.path.join(REPLAY_DIR, name))
        for i, v in enumerate(self.violations):
            path = os.path.join(REPLAY_DIR, f"{self.pid}-{self.tier}-{self.seed}-{i}.json")
            with open(path, "w", encoding="utf-8") as handle:
                json.dump({"property": self.pid, "tier": self.tier, "seed": self.seed, **v}, handle, indent=1)
            replay_paths.append(path)

        known_entries = self._findings.entries(self.pid)
        coverage = {
            "evaluations": self.evaluations,
            "distinct_nontrivial": len(self.nontrivial),
            "rule": getattr(module, "RULE", ""),
            "samples": self.samples,
            "counters": dict(sorted(self.counters.items())),
            "known_findings_seen": {k: {"count": v["count"], "mechanism": known_entries.get(k, {}).get("mechanism", ""),
                                        "example": v["example"]} for k, v in sorted(self.known.items())},
            "workers": self.nworkers,
            "soft_time_budget_hit": self.budget_hit,
            "verdict": "violated" if self.violation_count else ("inconclusive" if inconclusive else "held_on_observed"),
        }
        if self.exhaustive is not None:
            coverage["exhaustive"] = bool(self.exhaustive)
        if self.violations:
            coverage["violation_examples"] = self.violations[:5]
        if inconclusive:
            coverage["inconclusive_reasons"] = inconclusive
        if self.notes:
            coverage["notes"] = self.notes
        coverage.update(self.extra)
        evidence = {
            "property_id": self.pid, "tier": self.tier, "seed": self.seed,
            "level": getattr(module, "LEVEL", "exploration"),
            "coverage": coverage,
            "assumptions": list(getattr(module, "ASSUMPTIONS", [])),
            "wall_s": round(wall, 2),
            "violations": self.violation_count,
        }
        with open(os.path.join(EVIDENCE_DIR, f"{self.pid}.json"), "w", encoding="utf-8") as handle:
            json.dump(evidence, handle, indent=1, sort_keys=False)
            handle.write("\n")

        for k, v in sorted(self.known.items()):
            mech = known_entries.get(k, {}).get("mechanism", k)
            print(f"KNOWN-FINDING: property={self.pid} {k}: {mech} (seen {v['count']}x)")
        top = ", ".join(f"{k}={v}" for k, v in sorted(self.counters.items()) if not k.startswith("sites:"))
        print(f"[{self.pid}] tier={self.tier} seed={self.seed} evaluations={self.evaluations} "
              f"distinct_nontrivial={len(self.nontrivial)} violations={self.violation_count} wall={wall:.1f}s")
        print(f"[{self.pid}] counters: {top}")
        if self.violation_count:
            for path, v in zip(replay_paths, self.violations):
                print(f"VIOLATION property={self.pid} replay={path}")
                print(f"   clause={v['clause']} facts={json.dumps(v['facts'])[:300]}")
            return 1
        if inconclusive:
            print(f"INCONCLUSIVE property={self.pid} " + "; ".join(inconclusive))
            return 2
        return 0
