"""Instrumentation layer: recording wrappers on real functions, rebinding of early-bound names.

`from m import f` binds early; a monitor placed only on `m.f` would be bypassed by every module
that imported the name. `rebind` walks all loaded antismash modules and replaces every global
that *is* the original object. Each monitor counts its evaluations per binding site, a deciding
monitor with zero evaluations makes a run inconclusive (see core.Ctx.finish / REQUIRED).
Monitors never change results or raise into the code under test: they record and return.
"""
from __future__ import annotations

import functools
import sys
from typing import Callable

_INSTALLED: list[tuple] = []


def rebind(original, replacement, prefix: str = "antismash") -> int:
    sites = 0
    for name, module in list(sys.modules.items()):
        if module is None or not name.startswith(prefix):
            continue
        for key, value in list(vars(module).items()):
            if value is original:
                setattr(module, key, replacement)
                _INSTALLED.append((module, key, original))
                sites += 1
    return sites


def monitor_function(module, name: str, post: Callable, ctx=None, counter: str | None = None,
                     on_exception: Callable | None = None) -> int:
    """ wraps module.name so that post(args, kwargs, result) runs after every call, whichever
        binding the caller used; returns the number of binding sites rebound """
    original = getattr(module, name)
    counter = counter or f"monitor:{name}"

    @functools.wraps(original)
    def wrapper(*args, **kwargs):
        try:
            result = original(*args, **kwargs)
        except Exception as err:  # pylint: disable=broad-except
            if on_exception is not None:
                on_exception(args, kwargs, err)
            raise
        if ctx is not None:
            ctx.counters[counter] += 1
        post(args, kwargs, result)
        return result

    wrapper.__wrapped_original__ = original
    sites = rebind(original, wrapper)
    if ctx is not None:
        ctx.counters[f"sites:{name}"] = sites
    return sites


def monitor_method(cls, name: str, post: Callable, ctx=None, counter: str | None = None,
                   on_exception: Callable | None = None) -> None:
    """ post(self, args, kwargs, result) after every call of cls.name """
    original = cls.__dict__[name]
    counter = counter or f"monitor:{cls.__name__}.{name}"
    raw = original.__func__ if isinstance(original, (staticmethod, classmethod)) else original

    @functools.wraps(raw)
    def wrapper(self, *args, **kwargs):
        try:
            result = raw(self, *args, **kwargs)
        except Exception as err:  # pylint: disable=broad-except
            if on_exception is not None:
                on_exception(self, args, kwargs, err)
            raise
        if ctx is not None:
            ctx.counters[counter] += 1
        post(self, args, kwargs, result)
        return result

    setattr(cls, name, wrapper)
    _INSTALLED.append((cls, name, original))


def uninstall_all() -> None:
    while _INSTALLED:
        owner, key, original = _INSTALLED.pop()
        setattr(owner, key, original)
