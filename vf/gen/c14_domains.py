"""C14 workload: domain sequences ("tokens") for genes, gene pairs and small gene clusters.

A token is a string  NAME | NAME:SUB | NAME:SUB/SUBSUB | NAME:SUB+SUB2
  NAME:SUB        one nested subtype hit                     -> subtype SUB
  NAME:SUB/SUBSUB a nested hit that itself has a nested hit  -> subtypes [SUB, SUBSUB]
  NAME:SUB+SUB2   two nested hits at the same depth           -> ambiguous, no subtype
Coordinates follow from the position in the list (distinct, increasing), so a list of tokens is a
complete, replayable description of the domains of a gene.
"""
from __future__ import annotations

from antismash.common.hmmscan_refinement import HMMResult

from vf.models import c14_layout as M

STEP = 40
WIDTH = 30

KS_SUBTYPES = ["Trans-AT-KS", "Iterative-KS", "Modular-KS", "Enediyne-KS", "Hybrid-KS"]

# the letters of the exhaustive sweep: one or two representatives of every behavioural class
EXHAUSTIVE = ["PKS_KS", "PKS_KS:Trans-AT-KS", "PKS_AT", "AMP-binding", "CAL_domain", "Condensation_LCL", "SAT",
              "PKS_KR", "PKS_DH", "LPG_synthase_C", "Beta_elim_lyase", "ACP", "PCP", "Thioesterase",
              "Epimerization", "Trans-AT_docking", "NRPS-COM_Nterm", "X"]
# a smaller one for longer exhaustive words
EXHAUSTIVE_MINI = ["PKS_KS:Trans-AT-KS", "PKS_AT", "AMP-binding", "Condensation_LCL", "PKS_KR", "ACP",
                   "Thioesterase", "Trans-AT_docking", "LPG_synthase_C", "Beta_elim_lyase"]

CORE = ["PKS_KS", "PKS_KS:Trans-AT-KS", "PKS_KS:Iterative-KS", "PKS_KS:Modular-KS", "PKS_AT", "ACP", "PKS_KR",
        "PKS_DH", "PKS_ER", "AMP-binding", "PCP", "Condensation_LCL", "Thioesterase", "Epimerization", "TD",
        "CAL_domain", "Trans-AT_docking", "nMT", "LPG_synthase_C", "Beta_elim_lyase", "PP-binding",
        "NRPS-COM_Nterm", "PKS_Docking_Cterm", "A-OX", "SAT", "Heterocyclization", "TIGR01720", "X", "Interface"]


def parse_token(token: str):
    """ -> (name, structure) where structure is None, [sub, ...nested] or ("ambiguous", [sub, sub2]) """
    if ":" not in token:
        return token, None
    name, rest = token.split(":", 1)
    if "+" in rest:
        return name, ("ambiguous", rest.split("+"))
    return name, rest.split("/")


def label_of(token: str) -> str:
    return token.split(":", 1)[0]


def subtype_of(token: str):
    name, structure = parse_token(token)
    if structure is None or isinstance(structure, tuple):
        return None
    return structure[0]


def make_domain(token: str, index: int) -> HMMResult:
    name, structure = parse_token(token)
    start = 10 + STEP * index
    end = start + WIDTH
    internal = None
    if isinstance(structure, tuple):
        internal = [HMMResult(sub, start + 1 + k, end - 1, 1.0301e-5, 50.0625 + k) for k, sub in enumerate(structure[1])]
    elif structure:
        inner = None
        for depth, sub in reversed(list(enumerate(structure))):
            inner = HMMResult(sub, start + 1 + depth, end - 1 - depth, 1.0301e-5, 50.0625 - depth,
                              internal_hits=[inner] if inner is not None else None)
        internal = [inner]
    # scores and e-values with more digits than hmmscan prints (merged or computed values have them)
    return HMMResult(name, start, end, 1.23456e-10 / (1 + index), 100.0625 + 1.37 * index, internal_hits=internal)


def make_domains(tokens) -> list:
    return [make_domain(token, i) for i, token in enumerate(tokens)]


def protein_length(tokens) -> int:
    return 10 + STEP * max(1, len(tokens)) + 10


# --------------------------------------------------------------------------
# random words
# --------------------------------------------------------------------------

def _ks(rng) -> str:
    pick = rng.random()
    if pick < 0.35:
        return "PKS_KS"
    if pick < 0.9:
        return "PKS_KS:" + rng.choice(KS_SUBTYPES)
    if pick < 0.95:
        return "PKS_KS:Trans-AT-KS/" + rng.choice(["Clade_1", "Clade_27"])
    return "PKS_KS:" + "+".join(rng.sample(KS_SUBTYPES, 2))


def decorate(rng, name: str) -> str:
    """ give a bare profile name a subtype where the real pipeline could produce one """
    if name == "PKS_KS":
        return _ks(rng)
    return name


def random_word(rng, alphabet, max_len=16) -> list:
    n = rng.choice([1, 2, 2, 3, 3, 4, 4, 5, 6, 7, 8, 10, 12, max_len])
    word = []
    for _ in range(n):
        token = rng.choice(alphabet)
        word.append(token if ":" in token else decorate(rng, token))
    return word


def template_module(rng) -> list:
    """ a module that follows (or nearly follows) the documented layout """
    kind = rng.choice(["nrps", "nrps", "pks", "pks", "transat", "transat", "transat-docked", "cal", "sat",
                       "double", "loader-only"])
    cp_nrps = rng.choice(["PCP", "PP-binding"])
    cp_pks = rng.choice(["ACP", "PKS_PP", "ACP_beta", "PP-binding"])
    end = rng.choice([[], [], ["Thioesterase"], ["TD"], ["Epimerization"], ["cAT"], ["Abhydrolase_1"]])
    pks_mods = rng.sample(["PKS_KR", "PKS_DH", "PKS_ER", "cMT", "PKS_DH2", "PKS_DHt", "oMT"], rng.choice([0, 0, 1, 2, 3]))
    nrps_mods = rng.sample(["nMT", "oMT", "cMT", "TauD", "PKS_KR"], rng.choice([0, 0, 0, 1, 2]))
    if kind == "nrps":
        start = rng.choice([[], [rng.choice(sorted(M.CONDENSATIONS))]])
        return start + [rng.choice(["AMP-binding", "A-OX"])] + nrps_mods + [cp_nrps] + end
    if kind == "pks":
        return [_ks(rng), "PKS_AT"] + pks_mods + [cp_pks] + end
    if kind == "transat":
        post = rng.choice([[], ["PKS_KR"], ["PKS_KR"], ["PKS_DH"]])
        return ["PKS_KS:Trans-AT-KS"] + pks_mods + [cp_pks] + post + end
    if kind == "transat-docked":
        word = [_ks(rng)] + pks_mods + [cp_pks] + rng.choice([[], ["PKS_KR"]]) + end
        word.insert(rng.randrange(0, len(word) + 1), "Trans-AT_docking")
        return word
    if kind == "cal":
        return ["CAL_domain"] + rng.choice([[], ["PKS_KR"]]) + [cp_pks] + end
    if kind == "sat":
        return ["SAT", rng.choice(["PKS_AT", "AMP-binding", "CAL_domain"])] + pks_mods[:1] + [cp_pks] + end
    if kind == "double":
        head = rng.choice([["PKS_KS:Trans-AT-KS"], ["AMP-binding"], ["PKS_KS", "PKS_AT"], []])
        filler = rng.choice([[], [], ["NRPS-COM_Nterm"], ["X"]])
        return head + [cp_pks, rng.choice(["ACP", "PCP"])] + filler + ["LPG_synthase_C", "Beta_elim_lyase"] \
            + rng.choice([[], ["PKS_KR"], ["ACP"]]) + end
    # loader-only: complete only as the first module of a gene
    return [rng.choice(["AMP-binding", "PKS_AT", "CAL_domain"]), rng.choice([cp_nrps, cp_pks])] + end


def template_word(rng, alphabet_all, max_modules=4) -> list:
    word = []
    for _ in range(rng.randrange(1, max_modules + 1)):
        word.extend(template_module(rng))
        if rng.random() < 0.15:
            word.append(rng.choice(["TIGR01720", "X", "NRPS-COM_Cterm", "PKS_Docking_Nterm", "Interface", "ECH"]))
    # perturb
    for _ in range(rng.choice([0, 0, 1, 1, 2, 3])):
        op = rng.choice(["delete", "insert", "duplicate", "swap", "replace"])
        if not word:
            break
        pos = rng.randrange(len(word))
        if op == "delete" and len(word) > 1:
            del word[pos]
        elif op == "insert":
            word.insert(pos, decorate(rng, rng.choice(alphabet_all)))
        elif op == "duplicate":
            word.insert(pos, word[pos])
        elif op == "swap" and pos + 1 < len(word):
            word[pos], word[pos + 1] = word[pos + 1], word[pos]
        elif op == "replace":
            word[pos] = decorate(rng, rng.choice(alphabet_all))
    return word[:24]


def gen_word(rng, alphabet_all) -> list:
    pick = rng.random()
    if pick < 0.45:
        return template_word(rng, alphabet_all)
    if pick < 0.75:
        return random_word(rng, CORE)
    return random_word(rng, alphabet_all)


def split_word(rng, word):
    """ cut a word into two genes; cutting inside a module makes a merge candidate """
    if len(word) < 2:
        return word, gen_word(rng, CORE)[:6]
    cut = rng.randrange(1, len(word))
    return word[:cut], word[cut:]


def gen_pair(rng, alphabet_all) -> dict:
    pick = rng.random()
    if pick < 0.6:
        head, tail = split_word(rng, template_word(rng, alphabet_all, max_modules=3))
    elif pick < 0.7:
        # the documented trailing-KR case: trans-AT module split before or after its carrier protein
        head = rng.choice([[], ["PKS_KS", "PKS_AT", "ACP"]]) + ["PKS_KS:Trans-AT-KS"] + rng.choice([[], ["PKS_DH"]])
        tail = [rng.choice(["ACP", "PKS_PP"])] + rng.choice([[], [], ["Thioesterase"], ["Epimerization"], ["X"]]) \
            + rng.choice([["PKS_KR"], ["PKS_KR"], ["PKS_KR", "PKS_KS", "PKS_AT"], ["PKS_DH"], ["PKS_KR", "PKS_KR"]])
    else:
        head, tail = gen_word(rng, alphabet_all)[:10], gen_word(rng, alphabet_all)[:10]
    strand = rng.choice([1, -1])
    other = strand if rng.random() < 0.85 else -strand
    return {"kind": "pair", "head": head, "tail": tail, "strands": [strand, other]}


def gen_cluster(rng, alphabet_all) -> dict:
    """ 2-4 consecutive genes of one region; biological order = list order; `strand` applies to all
        genes except those marked flipped; a gene may have no domains (interrupts merging) """
    word = template_word(rng, alphabet_all, max_modules=4)
    count = rng.choice([2, 2, 3, 3, 4])
    cuts = sorted(rng.sample(range(1, len(word)), min(count - 1, max(0, len(word) - 1)))) if len(word) > 1 else []
    pieces = [word[a:b] for a, b in zip([0] + cuts, cuts + [len(word)])]
    genes = []
    for piece in pieces:
        genes.append({"tokens": piece, "flipped": rng.random() < 0.08})
        if rng.random() < 0.08:
            genes.append({"tokens": [], "flipped": False})
    return {"kind": "cluster", "strand": rng.choice([1, -1]), "genes": genes,
            "split_regions": rng.random() < 0.08}
