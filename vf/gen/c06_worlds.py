"""C06 workloads: area layouts (protoclusters + subregions) and call histories on a Record.

A world is JSON-able: record length/topology, gene specs, protocluster specs, subregion specs. A history is a list
of ops over spec indices; objects are built freshly from the specs each time an op adds them, so a spec can be added
again after a clear ("clearing and re-creating areas"). All coordinates are half-open intervals in record
coordinates; an area crossing the origin is [[x, L], [0, y]] with y <= x.
"""
from __future__ import annotations

from vf.models import ring

OPS_ADD = ("add_cds_feature", "add_protocluster", "add_subregion")
OPS_CREATE = ("create_candidate_clusters", "create_regions")
OPS_CLEAR = ("clear_regions", "clear_candidate_clusters", "clear_protoclusters", "clear_subregions",
             "strip_antismash_annotations")


def _arc(start: int, arc_len: int, length: int, circular: bool) -> list[list[int]]:
    if arc_len >= length:
        return [[0, length]]
    if circular:
        return [list(iv) for iv in ring.arc_to_intervals(start % length, arc_len, length)]
    start = max(0, min(start, length - 1))
    return [[start, min(length, start + arc_len)]]


# --------------------------------------------------------------------------------------------------------------
# style "grid": the C05 layouts (gene grid, protoclusters of 1-4 core genes with 0-3 neighbouring genes) + subregions
# --------------------------------------------------------------------------------------------------------------

def grid_world(rng) -> dict:
    circular = rng.random() < 0.6
    n_genes = rng.choice([8, 10, 12, 16])
    glen, gap = 60, 40
    step = glen + gap
    length = n_genes * step
    genes = [{"name": f"g{i}", "loc": {"parts": [[i * step + 10, i * step + 10 + glen]], "strand": rng.choice([1, -1])},
              "core": []} for i in range(n_genes)]
    if circular and rng.random() < 0.3:
        # one gene over the origin instead of the last grid gene
        genes[-1] = {"name": f"g{n_genes - 1}", "loc": {"parts": [[length - 50, length], [0, 7]], "strand": 1}, "core": []}
        genes[0]["loc"]["parts"] = [[10, 70]]
    protos = []
    for j in range(rng.choice([0, 1, 1, 2, 2, 3, 3, 4, 5, 6])):
        if protos and rng.random() < 0.2:
            base = rng.choice(protos)
            first, ncore, nb = base["first"], base["ncore"], base["nb"]
            if rng.random() < 0.5:
                nb = max(0, nb - rng.randrange(0, 2))
        else:
            ncore = rng.randrange(1, 5)
            first = rng.randrange(0, n_genes) if circular else rng.randrange(0, n_genes - ncore + 1)
            nb = rng.choice([0, 1, 2, 3])
        product = rng.choice(["alpha", "beta", "gamma"]) + str(j)
        if not circular and first + ncore > n_genes:
            continue
        core_genes = [(first + k) % n_genes for k in range(ncore)]
        core_start = first * step + 10
        core_len = (ncore - 1) * step + glen
        nb_len = nb * step
        if circular:
            if core_len + 2 * nb_len >= length:
                continue
            core = ring.arc_to_intervals(core_start, core_len, length)
            extent = ring.arc_to_intervals((core_start - nb_len) % length, core_len + 2 * nb_len, length)
        else:
            core = [(core_start, core_start + core_len)]
            extent = [(max(0, core_start - nb_len), min(length, core_start + core_len + nb_len))]
        for d in sorted(set(rng.choice(core_genes) for _ in range(rng.randrange(1, 3)))):
            genes[d]["core"].append(product)
        protos.append({"first": first, "ncore": ncore, "nb": nb, "product": product, "cutoff": 10,
                       "neighbourhood": nb_len, "core": [list(c) for c in core], "extent": [list(e) for e in extent]})
    subs = []
    anchors = [iv for p in protos for iv in p["extent"]]
    for k in range(rng.choice([0, 0, 1, 1, 2, 3])):
        roll = rng.random()
        n = rng.randrange(1, 5)
        if anchors and roll < 0.35:
            # boundary coincidences with an existing extent: adjacent, one shared base, same start, nested
            s, e = rng.choice(anchors)
            kind = rng.choice(["adjacent-after", "one-base-after", "adjacent-before", "one-base-before", "same-start", "nested"])
            if kind == "adjacent-after":
                ext = _arc(e, n * step, length, circular)
            elif kind == "one-base-after":
                ext = _arc(e - 1, n * step, length, circular)
            elif kind == "adjacent-before":
                ext = _arc(s - n * step, n * step, length, circular) if circular or s - n * step >= 0 else [[0, max(1, s)]]
            elif kind == "one-base-before":
                ext = _arc(s - n * step, n * step + 1, length, circular) if circular or s - n * step >= 0 else [[0, s + 1]]
            elif kind == "same-start":
                ext = _arc(s, n * step, length, circular)
            else:
                ext = [[s + (e - s) // 4, e - (e - s) // 4]] if e - s >= 8 else [[s, e]]
        elif roll < 0.42:
            ext = [[0, length]]
        else:
            first = rng.randrange(0, n_genes)
            off = rng.choice([0, 0, 5, 10, 70, 99])
            ext = _arc(first * step + off, n * step - rng.choice([0, 0, 1, 30]), length, circular)
        ext = [iv for iv in ext if iv[1] > iv[0]]
        if not ext or (len(ext) == 2 and ext[1][1] > ext[0][0]):
            continue
        subs.append({"label": f"s{k}", "extent": ext})
        anchors.extend(ext)
    return {"style": "grid", "L": length, "circular": circular, "genes": genes, "protoclusters": protos, "subregions": subs}


# --------------------------------------------------------------------------------------------------------------
# style "dense": short records, areas at arbitrary coordinates with crafted relations
# --------------------------------------------------------------------------------------------------------------

def _derived(rng, anchors, length, circular):
    ivs = rng.choice(anchors)
    s = ivs[0][0]
    e = ivs[-1][1] if len(ivs) == 1 else ivs[1][1] + length     # unrolled end
    n = rng.randrange(1, max(2, length // 4))
    kind = rng.choice(["adjacent-after", "one-base-after", "adjacent-before", "one-base-before", "identical", "nested",
                       "same-start", "same-end"])
    if kind == "adjacent-after":
        return _arc(e, n, length, circular)
    if kind == "one-base-after":
        return _arc(e - 1, n, length, circular)
    if kind == "adjacent-before":
        return _arc(s - n, n, length, circular) if circular or s - n >= 0 else None
    if kind == "one-base-before":
        return _arc(s - n, n + 1, length, circular) if circular or s - n >= 0 else None
    if kind == "identical":
        return [list(iv) for iv in ivs]
    if kind == "same-start":
        return _arc(s, n, length, circular)
    if kind == "same-end":
        return _arc(e - n, n, length, circular) if circular or e - n >= 0 else None
    size = e - s
    if size < 3:
        return None
    a = rng.randrange(0, size - 1)
    return _arc(s + a, rng.randrange(1, size - a), length, circular)


def dense_world(rng) -> dict:
    circular = rng.random() < 0.7
    length = rng.choice([30, 40, 60, 90])
    n_areas = rng.choice([1, 2, 3, 3, 4, 4, 5, 6, 7, 8])
    max_len = rng.choice([3, length // 6, length // 4, length // 3, length // 2 + 2])
    protos, subs, anchors = [], [], []
    genes = []
    # a few genes so that cds.region links exist: short, at random places, distinct locations
    seen = set()
    for i in range(rng.choice([0, 3, 6])):
        s = rng.randrange(0, length - 3)
        e = s + 3
        if (s, e) in seen:
            continue
        seen.add((s, e))
        genes.append({"name": f"g{i}", "loc": {"parts": [[s, e]], "strand": rng.choice([1, -1])}, "core": []})
    if circular and genes and rng.random() < 0.5:
        genes.append({"name": "gx", "loc": {"parts": [[length - 2, length], [0, 1]], "strand": 1}, "core": []})
    for k in range(n_areas):
        ext = None
        roll = rng.random()
        if anchors and roll < 0.45:
            ext = _derived(rng, anchors, length, circular)
        elif roll < 0.5:
            ext = [[0, length]]
        elif circular and roll < 0.65:
            pre = rng.randrange(1, max(2, max_len))
            post = rng.randrange(1, max(2, max_len))
            ext = _arc(length - pre, pre + post, length, True)
        if ext is None:
            n = rng.randrange(1, max(2, max_len + 1))
            ext = _arc(rng.randrange(0, length if circular else max(1, length - n + 1)), n, length, circular)
        ext = [iv for iv in ext if iv[1] > iv[0]]
        if not ext or (len(ext) == 2 and ext[1][1] > ext[0][0]):
            continue
        anchors.append(ext)
        if rng.random() < 0.45:
            # protocluster: the core is an arc inside the extent
            size = sum(e - s for s, e in ext)
            start = ext[0][0]
            lead = rng.randrange(0, size)
            core_len = rng.randrange(1, size - lead + 1)
            core = _arc(start + lead, core_len, length, circular) if size < length else [[lead, lead + core_len]]
            protos.append({"product": f"p{k}", "cutoff": 5, "neighbourhood": lead, "core": core, "extent": ext})
        else:
            subs.append({"label": f"s{k}", "extent": ext})
    return {"style": "dense", "L": length, "circular": circular, "genes": genes, "protoclusters": protos, "subregions": subs}


def origin_world(rng) -> dict:
    """ circular records whose areas gather around the origin: one or two origin-crossing areas, short areas hanging
        onto their pre-origin side (x..L) and onto their post-origin side (0..y), chains leading away from them,
        and unrelated areas in the uncovered middle """
    length = rng.choice([40, 60, 90, 120])
    pre = rng.randrange(2, length // 3)
    post = rng.randrange(2, length // 3)
    x, y = length - pre, post
    extents = [[[x, length], [0, y]]]
    if rng.random() < 0.4:
        extents.append([[length - rng.randrange(1, pre + 1), length], [0, rng.randrange(1, post + 1)]])
    # pre-origin side: short areas overlapping [x, L), possibly reaching below x
    cursor = x - rng.randrange(0, 4)
    for _ in range(rng.choice([0, 1, 2, 2, 3])):
        if cursor >= length - 1:
            break
        size = rng.randrange(1, 5)
        extents.append([[max(y + 1, cursor), min(length, max(x + 1, cursor + size))]])
        cursor = extents[-1][0][1] + rng.randrange(0, 3)
    # post-origin side
    for _ in range(rng.choice([0, 0, 1, 2])):
        s = rng.randrange(0, y)
        extents.append([[s, min(x - 1, s + rng.randrange(1, 6))]])
    # chains leading away from the origin component (make it long), from either side
    for _ in range(rng.choice([0, 0, 1, 2])):
        base = rng.choice(extents[1:] if len(extents) > 1 else extents)
        if len(base) == 2:
            continue
        s, e = base[0]
        if rng.random() < 0.5 and s - y > 3:
            n = rng.randrange(2, max(3, (s - y) // 2 + 2))
            extents.append([[max(y, s - n), s + 1]])
        elif x - e > 3:
            n = rng.randrange(2, max(3, (x - e) // 2 + 2))
            extents.append([[e - 1, min(x, e + n)]])
    # unrelated areas in the middle
    for _ in range(rng.choice([0, 1, 1, 2])):
        if x - y < 6:
            break
        s = rng.randrange(y + 1, x - 2)
        extents.append([[s, min(x - 1, s + rng.randrange(1, 4))]])
    rng.shuffle(extents)
    protos, subs = [], []
    for k, ext in enumerate(extents):
        ext = [iv for iv in ext if iv[1] > iv[0]]
        if not ext:
            continue
        if rng.random() < 0.35:
            size = sum(e - s for s, e in ext)
            lead = rng.randrange(0, size)
            core = _arc(ext[0][0] + lead, rng.randrange(1, size - lead + 1), length, True)
            protos.append({"product": f"p{k}", "cutoff": 5, "neighbourhood": lead, "core": core, "extent": ext})
        else:
            subs.append({"label": f"s{k}", "extent": ext})
    genes = []
    seen = set()
    for i in range(rng.choice([0, 4])):
        s = rng.randrange(0, length - 3)
        if s in seen:
            continue
        seen.add(s)
        genes.append({"name": f"g{i}", "loc": {"parts": [[s, s + 3]], "strand": 1}, "core": []})
    if genes and rng.random() < 0.5:
        genes.append({"name": "gx", "loc": {"parts": [[length - 1, length], [0, 2]], "strand": 1}, "core": []})
    return {"style": "origin", "L": length, "circular": True, "genes": genes, "protoclusters": protos, "subregions": subs}


def make_world(rng) -> dict:
    roll = rng.random()
    if roll < 0.4:
        return dense_world(rng)
    if roll < 0.6:
        return origin_world(rng)
    return grid_world(rng)


# --------------------------------------------------------------------------------------------------------------
# histories
# --------------------------------------------------------------------------------------------------------------

def build_ops(world: dict, rng=None) -> list[list]:
    """ the pipeline's own order: genes, protoclusters, subregions, candidates, regions (insertion order shuffled) """
    genes = list(range(len(world["genes"])))
    protos = list(range(len(world["protoclusters"])))
    subs = list(range(len(world["subregions"])))
    if rng is not None:
        rng.shuffle(genes)
        rng.shuffle(protos)
        rng.shuffle(subs)
    ops = [["add_cds_feature", i] for i in genes] + [["add_protocluster", i] for i in protos] \
        + [["add_subregion", i] for i in subs]
    ops += [["create_candidate_clusters"], ["create_regions"]]
    return ops


def random_history(world: dict, rng) -> list[list]:
    """ 5-25 random calls (after an optional full build), legal by construction under the model:
        create_candidate_clusters only while no candidates exist, create_regions only while no regions exist,
        a gene is added once, area specs may be added again once they are no longer in the record """
    n_genes, n_protos, n_subs = len(world["genes"]), len(world["protoclusters"]), len(world["subregions"])
    genes_left = list(range(n_genes))
    rng.shuffle(genes_left)
    live_protos: list[int] = []
    live_subs: list[int] = []
    cands = False
    regions = False
    ops: list[list] = []

    def apply(op):
        nonlocal cands, regions
        name = op[0]
        ops.append(op)
        if name == "add_cds_feature":
            genes_left.remove(op[1])
        elif name == "add_protocluster":
            live_protos.append(op[1])
        elif name == "add_subregion":
            live_subs.append(op[1])
        elif name == "create_candidate_clusters":
            cands = bool(live_protos)
        elif name == "create_regions":
            regions = cands or bool(live_subs)
        elif name == "clear_regions":
            regions = False
        elif name == "clear_candidate_clusters":
            cands = False
            regions = regions and bool(live_subs)
        elif name == "clear_protoclusters":
            live_protos.clear()
            cands = False
            regions = regions and bool(live_subs)
        elif name == "clear_subregions":
            live_subs.clear()
            regions = regions and cands
        elif name == "strip_antismash_annotations":
            live_protos.clear()
            live_subs.clear()
            cands = regions = False

    if rng.random() < 0.5:
        for op in build_ops(world, rng):
            if op[0] == "add_cds_feature" and rng.random() < 0.3:
                continue        # some genes arrive later, after the regions exist
            apply(op)
    for _ in range(rng.randrange(5, 26)):
        options = []
        if genes_left:
            options.append((3, ["add_cds_feature", genes_left[0]]))
        free_protos = [i for i in range(n_protos) if i not in live_protos]
        if free_protos:
            options.append((1 if cands else 4, ["add_protocluster", rng.choice(free_protos)]))
        free_subs = [i for i in range(n_subs) if i not in live_subs]
        if free_subs:
            options.append((3, ["add_subregion", rng.choice(free_subs)]))
        if live_protos and not cands:
            options.append((6, ["create_candidate_clusters"]))
        if not regions and (cands or live_subs):
            options.append((7, ["create_regions"]))
        if not regions and not cands and not live_subs and rng.random() < 0.2:
            options.append((1, ["create_regions"]))          # nothing to build from: must stay empty
        options.append((2 if regions else 0.5, ["clear_regions"]))
        options.append((2 if cands else 0.5, ["clear_candidate_clusters"]))
        options.append((1.5 if live_protos else 0.3, ["clear_protoclusters"]))
        options.append((1.5 if live_subs else 0.3, ["clear_subregions"]))
        options.append((0.3, ["strip_antismash_annotations"]))
        total = sum(w for w, _ in options)
        pick = rng.random() * total
        for w, op in options:
            pick -= w
            if pick <= 0:
                apply(op)
                break
    return ops
