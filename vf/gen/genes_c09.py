"""Gene generator for C09: real coding DNA laid onto a record through an arbitrary exon structure.

A case is plain data (JSON-able, replayable):
    {"L", "circular", "strand", "parts" (forward-travel order, pre-origin parts first),
     "codon_start" (1..3, as the GenBank qualifier), "seq" (the whole record), "n_codons", "stop" (bool),
     "tail_extra" (0..2 bases after the last whole codon), "origin" (None | "exon" | "intron" | "border")}
The coding sequence consists of sense codons only (plus an optional terminal stop codon), so the
translation antiSMASH derives from the DNA has one residue per codon; TTA codons are sown on purpose.
Nothing of antiSMASH is imported here.
"""
from __future__ import annotations

STOPS = {"TAA", "TAG", "TGA"}
SENSE = [a + b + c for a in "ACGT" for b in "ACGT" for c in "ACGT" if a + b + c not in STOPS]
COMPLEMENT = {"A": "T", "C": "G", "G": "C", "T": "A"}


def _split(rng, total: int, count: int, first_min: int) -> list[int] | None:
    """ total split into count positive lengths, the first at least first_min """
    if total < first_min + (count - 1):
        return None
    if count == 1:
        return [total]
    cuts = sorted(rng.sample(range(first_min, total), count - 1)) if total - first_min >= count - 1 else None
    if cuts is None:
        return None
    bounds = [0] + cuts + [total]
    return [bounds[i + 1] - bounds[i] for i in range(count)]


def coding_sequence(rng, n_codons: int, lead: int, tail_extra: int, stop: bool, tta_p: float) -> str:
    codons = []
    for i in range(n_codons):
        if stop and i == n_codons - 1:
            codons.append(rng.choice(sorted(STOPS)))
        elif i == 0 and lead == 0:
            codons.append(rng.choice(["ATG", "ATG", "ATG", "GTG", "TTG", "CTG"]))
        elif rng.random() < tta_p:
            codons.append("TTA")
        else:
            codons.append(rng.choice(SENSE))
    return ("".join(rng.choice("ACGT") for _ in range(lead)) + "".join(codons)
            + "".join(rng.choice("ACGT") for _ in range(tail_extra)))


def lay_out(lengths_travel: list[int], gaps_travel: list[int], start: int, length: int) -> list[tuple[int, int]]:
    """ exon lengths/gaps in forward-travel order from `start`; an exon running over the end of the
        record is split at the origin (only meaningful on a circular record) """
    parts = []
    pos = start
    for i, exon in enumerate(lengths_travel):
        s, e = pos, pos + exon
        if s < length < e:
            parts.append((s, length))
            parts.append((0, e - length))
        elif s >= length:
            parts.append((s - length, e - length))
        else:
            parts.append((s, e))
        pos = e + (gaps_travel[i] if i < len(gaps_travel) else 0)
    return parts


def positions_in_reading_order(parts_travel, strand: int) -> list[int]:
    pos = [p for s, e in parts_travel for p in range(s, e)]
    if strand == -1:
        pos.reverse()
    return pos


def gen_gene(rng, *, small_p: float = 0.45, bridge_p: float = 0.3, tta_p: float = 0.1) -> dict:
    while True:
        strand = rng.choice([1, -1])
        n_codons = rng.randrange(2, 16) if rng.random() < small_p else rng.randrange(16, 140)
        codon_start = rng.choice([1, 1, 1, 1, 2, 3])
        lead = codon_start - 1
        tail_extra = rng.choice([0] * 8 + [1, 2])
        stop = rng.random() < 0.5
        total = lead + 3 * n_codons + tail_extra
        exons = rng.choice([1, 1, 2, 2, 3, 4])
        # biological order: the first exon must survive the codon_start shift
        lengths_bio = _split(rng, total, exons, first_min=lead + 1)
        if lengths_bio is None:
            continue
        gaps = [rng.choice([0, 1, 1, 2, 2, 3, 3, 4, 5, 6]) for _ in range(exons - 1)]
        lengths_travel = lengths_bio if strand == 1 else lengths_bio[::-1]
        span = total + sum(gaps)
        circular = rng.random() < 0.6
        origin = None
        if circular and rng.random() < bridge_p / 0.6 and span >= 2:
            length = span + rng.randrange(1, 60)
            # where in the span the origin falls: inside an exon, inside an intron, or on an exon border
            marks = []  # (offset in span, kind)
            pos = 0
            for i, exon in enumerate(lengths_travel):
                marks.extend((pos + k, "exon") for k in range(1, exon))
                pos += exon
                if i < len(gaps):
                    marks.append((pos, "border"))
                    marks.extend((pos + k, "intron") for k in range(1, gaps[i]))
                    pos += gaps[i]
                    marks.append((pos, "border"))
            kinds = sorted({k for _, k in marks})
            if not kinds:
                continue
            kind = rng.choice(kinds)
            offset = rng.choice([o for o, k in marks if k == kind])
            start = length - offset
            origin = kind
        else:
            # (a multi-part feature covering a whole linear record is refused by Record.from_biopython)
            length = span + rng.randrange(0 if exons == 1 else 1, 60)
            start = rng.randrange(0, length - span + 1)
            # make the record ends reachable: first/last base of the record
            edge = rng.random()
            if edge < 0.1:
                start = 0
            elif edge < 0.2:
                start = length - span
        parts = lay_out(lengths_travel, gaps, start, length)
        first = parts[0] if strand == 1 else parts[-1]
        if first[1] - first[0] <= lead:
            continue  # the origin cut the first exon shorter than the codon_start shift: not generated
        coding = coding_sequence(rng, n_codons, lead, tail_extra, stop, tta_p)
        seq = [rng.choice("ACGT") for _ in range(length)]
        for base, pos in zip(coding, positions_in_reading_order(parts, strand)):
            seq[pos] = base if strand == 1 else COMPLEMENT[base]
        return {"L": length, "circular": circular, "strand": strand, "parts": [list(p) for p in parts],
                "codon_start": codon_start, "seq": "".join(seq), "n_codons": n_codons, "stop": stop,
                "tail_extra": tail_extra, "origin": origin}


def protein_ranges(rng, case: dict, exhaustive_upto: int = 15, random_count: int = 40) -> tuple[list, set]:
    """ protein ranges [s, e) to query and the subset that starts/ends on an exon border.
        Borders are where the reading leaves one part of the (frame-shifted) location. """
    n = (sum(e - s for s, e in case["parts"]) - (case["codon_start"] - 1)) // 3
    parts = case["parts"] if case["strand"] == 1 else case["parts"][::-1]
    lens = [e - s for s, e in parts]
    lens[0] -= case["codon_start"] - 1
    borders_nt = []
    acc = 0
    for ln in lens[:-1]:
        acc += ln
        borders_nt.append(acc)
    border_aa = set()
    for b in borders_nt:
        for aa in (b // 3, -(-b // 3)):
            if 0 <= aa <= n:
                border_aa.add(aa)
    border = set()
    for aa in sorted(border_aa):
        if aa > 0:
            border.add((0, aa))
            border.add((aa - 1, aa))
            if aa < n:
                border.add((aa - 1, aa + 1))
        if aa < n:
            border.add((aa, n))
            border.add((aa, aa + 1))
    border = {(s, e) for s, e in border if 0 <= s < e <= n}
    if n <= exhaustive_upto:
        ranges = [(s, e) for s in range(n) for e in range(s + 1, n + 1)]
    else:
        chosen = set(border)
        chosen.add((0, n))
        chosen.add((0, 1))
        chosen.add((n - 1, n))
        while len(chosen) < len(border) + 3 + random_count:
            s = rng.randrange(0, n)
            chosen.add((s, rng.randrange(s + 1, n + 1)))
        ranges = sorted(chosen)
    return ranges, border
