"""C19 worlds: a gene grid with optional origin-spanning genes, protoclusters (symmetric and asymmetric
neighbourhoods, sideloaded ones through the real sideloader annotation classes), subregions (plain and
sideloaded), on linear and circular records; candidates and regions are formed by the real
Record.create_candidate_clusters / create_regions.

A case is plain JSON:
  {"L", "circular",
   "genes": [{"name", "loc": {"parts": [[s, e], ...] (forward order), "strand"}, "core": [products]}],
   "protoclusters": [{"product", "core": [[s, e], ...], "extent": [[s, e], ...], "sideloaded": bool,
                      "left": bp, "right": bp}],
   "subregions": [{"label", "extent": [[s, e], ...], "sideloaded": bool}]}
"""
from __future__ import annotations

import zlib

from antismash.common.secmet.features import SubRegion
from antismash.common.secmet.features.protocluster import Protocluster
from antismash.common.secmet.locations import CompoundLocation, FeatureLocation
from antismash.detection.sideloader.data_structures import ProtoclusterAnnotation, SubRegionAnnotation, Tool

from vf.gen import layout as W
from vf.models import ring

STEP = 100
GLEN = 60
TOOL = Tool("verif side", "1", "", {})


def _span(parts):
    """ forward-order parts -> (start, end, bridging) """
    bridging = any(parts[i + 1][0] < parts[i][0] for i in range(len(parts) - 1))
    return parts[0][0], parts[-1][1], bridging


def gen_case(rng, force_circular=None) -> dict:
    circular = rng.random() < 0.75 if force_circular is None else force_circular
    n_genes = rng.choice([6, 8, 8, 10, 12])
    off = rng.choice([0, 10])
    length = n_genes * STEP
    genes = []
    for i in range(n_genes):
        s = i * STEP + off
        parts = [[s, s + GLEN]]
        if rng.random() < 0.15:
            parts = [[s, s + 20], [s + 30, s + GLEN]]
        genes.append({"name": f"g{i}", "loc": {"parts": parts, "strand": rng.choice([1, -1])}, "core": []})
    order = list(range(n_genes))   # cyclic genome order of gene indices
    if circular and rng.random() < 0.6:
        shape = rng.choice(["two", "two", "three", "intron-over-origin", "long-tail"])
        if shape == "two":
            parts = [[length - rng.choice([10, 25]), length], [0, rng.choice([5, 8])]]
        elif shape == "three":
            parts = [[length - 35, length - 25], [length - 15, length], [0, 8]]
        elif shape == "intron-over-origin":
            parts = [[length - 30, length - 8], [3, 9]]
        else:
            parts = [[length - 20, length], [0, off + GLEN]]
        genes.append({"name": "gx", "loc": {"parts": parts, "strand": rng.choice([1, -1])}, "core": []})
        order.append(n_genes)
    count = len(order)

    def run_span(first, ngenes):
        idxs = [order[(first + k) % count] for k in range(ngenes)]
        start = genes[idxs[0]]["loc"]["parts"][0][0]
        end = genes[idxs[-1]]["loc"]["parts"][-1][1]
        # bridging when the run passes the origin: through gx or from the last grid gene to the first
        passes = first + ngenes > count or any(_span(genes[i]["loc"]["parts"])[2] for i in idxs)
        return idxs, start, end, passes

    def arc(start, arc_len):
        return [list(iv) for iv in ring.arc_to_intervals(start % length, arc_len, length)]

    # style "sparse": many small areas tied into one region by a long connector, so that several areas share a row
    sparse = rng.random() < 0.35
    protos: list[dict] = []
    # style "tail-row": small areas beyond the middle of the record, chained A-B-C so that A and C share a row, and an
    # area crossing the origin whose long post-origin side reaches back to A only (it is packed after them)
    tail_row = []
    if circular and off == 0 and n_genes >= 8 and count == n_genes and rng.random() < 0.12:
        a_start = (n_genes - 4) * STEP
        reach = a_start + rng.choice([20, 50, 90]) + (length - ((n_genes - 1) * STEP + GLEN))
        tail_row = [{"first": n_genes - 4, "ncore": 1, "nl": 0, "nr": 0, "padl": 0, "padr": 40, "sideloaded": False},
                    {"first": n_genes - 3, "ncore": 1, "nl": 0, "nr": 1, "padl": 10, "padr": 0, "sideloaded": False},
                    {"first": n_genes - 2, "ncore": 1, "nl": 0, "nr": 0, "padl": 0, "padr": 0, "sideloaded": False},
                    {"first": n_genes - 1, "ncore": 1, "nl": 0, "nr": reach // STEP, "padl": 0, "padr": reach % STEP,
                     "sideloaded": rng.random() < 0.3}]
    for j in range(len(tail_row) or (rng.randrange(3, 7) if sparse else rng.randrange(1, 7))):
        product = rng.choice(["alpha", "beta", "gamma"]) + str(j)
        if tail_row:
            spec = tail_row[j]
        elif sparse and rng.random() < 0.75:
            ncore = rng.choice([1, 1, 2])
            first = rng.randrange(0, count) if circular else rng.randrange(0, n_genes - ncore + 1)
            nl = rng.choice([0, 0, 1])
            nr = rng.choice([nl, nl, 0, 1, 2])
            spec = {"first": first, "ncore": ncore, "nl": nl, "nr": nr, "padl": rng.choice([0, 10]),
                    "padr": rng.choice([0, 10]), "sideloaded": rng.random() < 0.3}
        elif protos and rng.random() < 0.2:
            base = rng.choice(protos)
            spec = dict(base["spec"])
            if rng.random() < 0.5:
                spec["nl"] = max(0, spec["nl"] - rng.randrange(0, 2))
                spec["nr"] = max(0, spec["nr"] - rng.randrange(0, 2))
        else:
            ncore = rng.randrange(1, 5)
            first = rng.randrange(0, count) if circular else rng.randrange(0, n_genes - ncore + 1)
            nl = rng.choice([0, 1, 1, 2, 3])
            pads = [0, off, 40 - off, 40]
            if rng.random() < 0.55:
                nr, padl = nl, rng.choice(pads)
                padr = padl
            else:
                nr, padl, padr = rng.choice([0, 1, 2, 3, 5]), rng.choice(pads), rng.choice(pads)
                if rng.random() < 0.3:
                    nl = rng.choice([3, 4, 5])
            spec = {"first": first, "ncore": ncore, "nl": nl, "nr": nr, "padl": padl, "padr": padr,
                    "sideloaded": rng.random() < 0.3}
        idxs, cs, ce, bridging = run_span(spec["first"], spec["ncore"])
        if not circular and bridging:
            continue
        left = spec["nl"] * STEP + spec["padl"]
        right = spec["nr"] * STEP + spec["padr"]
        sideloaded = spec["sideloaded"]
        if circular:
            core_len = (ce - cs) % length if bridging else ce - cs
            if core_len <= 0 or core_len >= length:
                continue
            core = arc(cs, core_len)
            total = core_len + left + right
            if total >= length:
                if rng.random() < 0.4 or sideloaded:
                    continue
                if bridging:
                    # what cluster_prediction does: the two neighbourhoods (almost) meet in the middle
                    free = length - core_len
                    left = free // 2
                    right = free - left - 1
                    extent = arc(cs - left, core_len + left + right)
                    if (cs + core_len) % 4 == 0:
                        # ... or, as Record.extend_location gives it once the two extensions meet, the whole
                        # record in one piece (the Protocluster constructor refuses that around such a core)
                        extent = [[0, length]]
                else:
                    extent = [[0, length]]
            else:
                extent = arc(cs - left, total)
        else:
            core = [[cs, ce]]
            left = min(left, cs)
            right = min(right, length - ce)
            extent = [[cs - left, ce + right]]
        if sideloaded and circular and ((ce + right) % length == 0 or (cs - left) % length == 0 and len(extent) > 1):
            sideloaded = False
        if not sideloaded:
            defs = sorted(set(rng.choice(idxs) for _ in range(rng.randrange(1, 3))))
            for d in defs:
                genes[d]["core"].append(product)
        protos.append({"product": product, "core": core, "extent": extent, "sideloaded": sideloaded,
                       "left": left, "right": right, "spec": spec})
    # the same stretch found by a rule and handed in from outside under the same product name: two protoclusters with
    # one extent, core and product
    originals = [p for p in protos if not p["sideloaded"]]
    if originals and (length // STEP + len(protos)) % 4 == 0:
        twin = dict(originals[0], sideloaded=True, twin=True)
        if not (circular and ((twin["core"][-1][1] + twin["right"]) % length == 0
                              or (twin["core"][0][0] - twin["left"]) % length == 0 and len(twin["extent"]) > 1)):
            protos.append(twin)
    for p in protos:
        p.pop("spec")

    subs = []
    for j in range(rng.choice([1, 1, 2, 3]) if sparse else rng.choice([0, 0, 0, 1, 1, 2, 3])):
        ngenes = rng.randrange(1, 5)
        if sparse and j == 0:
            ngenes = rng.randrange(3, max(4, n_genes - 2))   # the connector
        first = rng.randrange(0, count) if circular else rng.randrange(0, n_genes - ngenes + 1)
        _idxs, start, end, bridging = run_span(first, ngenes)
        if not circular and bridging:
            continue
        padl = rng.choice([0, off, 10, 40])
        padr = rng.choice([0, 40 - off, 10, 40])
        if circular:
            span_len = (end - start) % length if bridging else end - start
            total = span_len + padl + padr
            if span_len <= 0 or total >= length:
                continue
            extent = arc(start - padl, total)
        else:
            extent = [[max(0, start - padl), min(length, end + padr)]]
        subs.append({"label": f"sub{j}", "extent": extent, "sideloaded": rng.random() < 0.4})
    # one area running all the way round from a start other than the origin: the region is the whole record as a
    # two-part location
    if circular and (len(protos) + len(subs) + n_genes) % 6 == 0:
        start = STEP * (1 + (length // STEP) % max(1, n_genes - 1))
        ring_extent = [[start, length], [0, start]]
        if (len(protos) + n_genes // 2) % 2:
            subs = [{"label": "ring", "extent": ring_extent, "sideloaded": False}]
            protos = []
        else:
            subs = []
            core_gene = genes[0]["loc"]["parts"]
            if len(core_gene) == 1:
                genes[0]["core"].append("ring0")
                protos = [{"product": "ring0", "core": [list(core_gene[0])], "extent": ring_extent, "sideloaded": False,
                           "left": 0, "right": 0}]
        for gene in genes:
            gene["core"] = [c for c in gene["core"] if any(p["product"] == c for p in protos)]
    late_genes = []
    if rng.random() < 0.3:
        late_genes = [g["name"] for g in genes if not g["core"] and rng.random() < 0.4]
    return {"L": length, "circular": circular, "genes": genes, "protoclusters": protos, "subregions": subs,
            "late_genes": late_genes}


def _location(ivs, strand=1):
    if len(ivs) == 1:
        return FeatureLocation(ivs[0][0], ivs[0][1], strand)
    return CompoundLocation([FeatureLocation(s, e, strand) for s, e in ivs])


def make_protocluster(spec: dict, length: int, circular: bool):
    if spec["sideloaded"]:
        cs, ce = spec["core"][0][0], spec["core"][-1][1]
        anno = ProtoclusterAnnotation(cs, ce, spec["product"], TOOL, {}, spec["left"], spec["right"],
                                      circular_origin=length if circular else None)
        proto = anno.to_secmet()
        got = ring.forward_parts(proto.location)
        if [list(p) for p in got] != [list(p) for p in spec["extent"]]:
            raise ValueError(f"sideloader built {got} where the harness planned {spec['extent']}")
        return proto
    proto = W.make_protocluster(spec["core"], spec["extent"], spec["product"], cutoff=10,
                                neighbourhood=max(spec["left"], spec["right"]))
    if zlib.crc32(spec["product"].encode() + str(spec["core"]).encode()) % 6 == 0:
        # a core on the reverse strand (parts in reading order), as files and the API may hand it over
        parts = [FeatureLocation(s, e, -1) for s, e in spec["core"]]
        parts.reverse()
        core = parts[0] if len(parts) == 1 else CompoundLocation(parts)
        proto = Protocluster(core, proto.location, proto.tool, proto.product, proto.cutoff, proto.neighbourhood_range,
                             proto.detection_rule, product_category=proto.product_category)
    return proto


def make_subregion(spec: dict, length: int, circular: bool):
    if spec["sideloaded"]:
        start, end = spec["extent"][0][0], spec["extent"][-1][1]
        return SubRegionAnnotation(start, end, spec["label"], TOOL, {},
                                   circular_origin=length if circular else None).to_secmet()
    return SubRegion(_location(spec["extent"]), tool="verif", label=spec["label"])


def build(case: dict):
    """ the record with genes and areas added, candidates and regions formed by the real code """
    record = W.make_record(case["L"], case["circular"])
    record.record_index = 1
    record.id = "verif_rec"
    # genes that only arrive once the regions exist (as the RiPP modules add the precursors they find): they carry no
    # defining function, so that the areas formed are those of the genes-first build
    late = [g for g in case["genes"] if g["name"] in case.get("late_genes", []) and not g["core"]]
    for g in case["genes"]:
        if g not in late:
            record.add_cds_feature(W.make_cds(g["name"], g["loc"], g["core"]))
    for p in case["protoclusters"]:
        record.add_protocluster(make_protocluster(p, case["L"], case["circular"]))
    for s in case["subregions"]:
        record.add_subregion(make_subregion(s, case["L"], case["circular"]))
    record.create_candidate_clusters()
    record.create_regions()
    for g in late:
        record.add_cds_feature(W.make_cds(g["name"], g["loc"], g["core"]))
    return record
