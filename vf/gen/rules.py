"""Generators for rule ASTs, rule texts (rendered with varying layout) and hit layouts."""
from __future__ import annotations

import zlib

from vf.models import rules_ref as R

PROFILES = ["a", "b", "c", "d", "e", "f-1", "g_2"]


def gen_ast(rng, profiles, depth: int, in_cds: bool = False, allow_score: bool = True):
    r = rng.random()
    if depth <= 0 or r < 0.3:
        k = rng.random()
        if not in_cds and k < 0.15:
            opts = rng.sample(profiles, rng.randrange(1, min(4, len(profiles)) + 1))
            return ["min", rng.randrange(1, 4), opts]
        if not in_cds and allow_score and k < 0.3:
            return ["score", rng.choice(profiles), rng.choice([1, 10, 20, 30])]
        return ["id", rng.choice(profiles)]
    if r < 0.45:
        return ["not", gen_ast(rng, profiles, depth - 1, in_cds, allow_score)]
    if r < 0.9:
        kind = "and" if r < 0.7 else "or"
        ops = []
        for _ in range(rng.randrange(2, 4)):
            child = gen_ast(rng, profiles, depth - 1, in_cds, allow_score)
            if R.canonical(child) not in [R.canonical(o) for o in ops]:
                ops.append(child)
        if len(ops) == 1:
            return ops[0]
        return [kind, ops]
    if not in_cds:
        inner = gen_ast(rng, profiles, max(1, depth - 1), True, allow_score)
        tries = 0
        while inner[0] in ("id", "not") and (inner[0] == "id" or inner[1][0] == "id") and tries < 5:
            other = rng.choice(profiles)
            base = inner
            if ["id", other] != base and not (base[0] == "not" and base[1] == ["id", other]):
                inner = [rng.choice(["and", "or"]), [base, ["id", other]]]
            tries += 1
        if inner[0] == "id" or (inner[0] == "not" and inner[1][0] == "id"):
            return ["id", rng.choice(profiles)]
        if inner[0] == "not":
            # a negated group inside cds is fine: cds(not (a and b)) but the group needs content
            pass
        return ["cds", inner]
    return ["id", rng.choice(profiles)]


def render(ast, rng=None, extra_parens: float = 0.0, parent: str = "top") -> str:
    """ minimal parentheses by precedence (not > and > or); with rng, redundant parentheses are
        added around sub-expressions with probability extra_parens """
    kind = ast[0]
    if kind == "id":
        text = ast[1]
        # redundant parentheses around a lone identifier (never as the whole content of cds(...): that is a single
        # identifier, which the grammar refuses there)
        if rng is not None and extra_parens and parent not in ("cds", "not") and rng.random() < extra_parens / 3:
            text = "(" * rng.choice([1, 1, 2]) + text
            text += ")" * text.count("(")
    elif kind == "min":
        text = f"minimum({ast[1]}, [{', '.join(ast[2])}])"
    elif kind == "score":
        text = f"minscore({ast[1]}, {ast[2]})"
    elif kind == "cds":
        return "cds(" + render(ast[1], rng, extra_parens, "cds") + ")"
    elif kind == "not":
        inner = ast[1]
        if inner[0] in ("id", "cds", "min", "score"):
            text = "not " + render(inner, rng, 0.0, "not")
            if rng is not None and extra_parens and parent != "cds" and rng.random() < extra_parens / 3:
                text = "(" + text + ")"        # redundant parentheses around a negation, e.g. not ((not c))
            return text
        text = render(inner, rng, extra_parens, "group")
        if rng is not None and extra_parens and rng.random() < extra_parens / 3:
            text = "(" + text + ")"            # doubled parentheses of a negated group
        return "not (" + text + ")"
    elif kind == "and":
        parts = []
        for x in ast[1]:
            sub = render(x, rng, extra_parens, "and")
            if x[0] in ("or", "and"):
                sub = "(" + sub + ")"
            parts.append(sub)
        text = " and ".join(parts)
    elif kind == "or":
        parts = []
        for x in ast[1]:
            sub = render(x, rng, extra_parens, "or")
            if x[0] == "or":
                sub = "(" + sub + ")"
            parts.append(sub)
        text = " or ".join(parts)
    else:
        raise ValueError(kind)
    if rng is not None and extra_parens and kind in ("and", "or") and parent != "cds-top" and rng.random() < extra_parens:
        text = "(" + text + ")"
    return text


def render_flat_equivalent(ast):
    """ the AST the documented grammar assigns to render(ast): and-in-and / or-in-or written with
        parentheses stay separate nodes only until canonicalisation, so the canonical AST is it """
    return R.canonical(ast)


def jitter_layout(text: str, rng) -> str:
    """ whitespace, newlines, tabs and comment lines between tokens: all irrelevant by the docs """
    out = []
    tokens = text.split(" ")
    for tok in tokens:
        out.append(tok)
        r = rng.random()
        if r < 0.1:
            out.append("\n")
        elif r < 0.15:
            # every character of string.whitespace separates symbols, DOS and old Mac line ends and page breaks too;
            # which one is taken from the token so that no further draw is made
            out.append(("\t", "\r\n", "\x0c", "\x0b", "\r")[zlib.crc32(tok.encode()) % 5])
        elif r < 0.2:
            out.append(" # a comment with RULE and ( tokens " + rng.choice(["x", "CONDITIONS", "a and"]) + "\n")
        elif r < 0.25:
            out.append("   ")
        else:
            out.append(" ")
    return "".join(out)


def gen_hit_layout(rng, profiles, cutoffs, circular=None):
    """ genes on a coarse grid so that distances of exactly cutoff, cutoff+-1 are frequent """
    cutoff = rng.choice(cutoffs)
    length = rng.choice([cutoff * 3, cutoff * 4 + 500, cutoff * 6, 12000, 8000])
    length = max(length, 3000)
    if circular is None:
        circular = rng.random() < 0.5
    genes = {}
    count = rng.randrange(1, 8)
    prev_end = None
    for i in range(count):
        glen = rng.choice([300, 500, 900])
        if prev_end is not None and rng.random() < 0.55:
            # place relative to the previous gene at a boundary distance
            gap = rng.choice([0, cutoff - 1, cutoff, cutoff + 1, cutoff // 2, 1])
            start = prev_end + gap
        else:
            start = rng.randrange(0, max(1, (length - glen) // 100)) * 100
        if circular and rng.random() < 0.12:
            # origin-spanning gene
            pre = rng.choice([100, 200, glen - 100])
            loc = {"parts": [[length - pre, length], [0, glen - pre]], "strand": rng.choice([1, -1])}
            end = glen - pre
        else:
            if start + glen > length:
                if not circular:
                    continue
                start = start % length
                if start + glen > length:
                    continue
            loc = {"parts": [[start, start + glen]], "strand": rng.choice([1, -1])}
            end = start + glen
        if any(g["loc"]["parts"] == loc["parts"] for g in genes.values()):
            continue
        genes[f"g{i}"] = {"loc": loc}
        prev_end = end
    # a pair in range only across the origin
    if circular and rng.random() < 0.3 and len(genes) < 7:
        gap = rng.choice([cutoff - 1, cutoff, cutoff + 1, cutoff // 3])
        a = max(0, gap // 2)
        b = length - (gap - a)
        for name, (s, e) in (("w0", (a, a + 300)), ("w1", (b - 300, b))):
            if 0 <= s < e <= length and not any(g["loc"]["parts"] == [[s, e]] for g in genes.values()):
                genes[name] = {"loc": {"parts": [[s, e]], "strand": 1}}
    # a gene of three or four exons with long introns, and a gene inside one of its introns at a boundary distance
    # from an inner exon (far from the outer exons): distances are measured to the nearest exon
    if rng.random() < 0.3 and len(genes) < 6:
        n_exons = rng.choice([3, 3, 4])
        introns = [rng.choice([cutoff + 700, 2 * cutoff + 400, 3 * cutoff]) for _ in range(n_exons - 1)]
        span = 300 * n_exons + sum(introns)
        if span + 200 <= length:
            start = rng.randrange(0, (length - span) // 100 + 1) * 100
            parts, pos = [], start
            for k in range(n_exons):
                parts.append([pos, pos + 300])
                pos += 300 + (introns[k] if k < n_exons - 1 else 0)
            genes["m0"] = {"loc": {"parts": parts, "strand": rng.choice([1, -1])}}
            inner = rng.randrange(1, n_exons - 1) if n_exons > 3 else 1
            gap = rng.choice([0, 1, cutoff - 1, cutoff, cutoff + 1, 100])
            if rng.random() < 0.5:      # after the inner exon
                s = parts[inner][1] + gap
                fits = s + 200 <= parts[inner + 1][0]
            else:                       # before it
                s = parts[inner][0] - gap - 200
                fits = s >= parts[inner - 1][1]
            if fits and not any(g["loc"]["parts"] == [[s, s + 200]] for g in genes.values()):
                genes["m1"] = {"loc": {"parts": [[s, s + 200]], "strand": rng.choice([1, -1])}}
    hits = {}
    for name in genes:
        hs = {p: rng.choice([5, 15, 25, 35, 10, 20, 30]) for p in profiles if rng.random() < 0.3}
        hits[name] = hs
    return {"L": length, "circular": circular, "genes": genes, "hits": hits}
