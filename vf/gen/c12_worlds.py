"""World generator for C12: annotated records whose regions are written to per-region GenBank files.

A world is plain JSON-able data (nothing of antiSMASH is imported here):
  {"L", "circular", "seq", "rot", "mode",
   "genes": [{"name", "parts" (forward-travel order, pre-origin part first), "strand", "planted" (bool),
              "core_products": [..], "prepeptide": [a, b] | None, "motifs": [[s, e], ..],
              "domains": [[s, e, "as"|"pfam"], ..], "gene_feature": bool}],
   "protoclusters": [{"core": [[s, e], ..], "extent": [[s, e], ..], "product", "rule", "nb", "cutoff",
                      "sideloaded": bool}],
   "subregions": [{"extent": [[s, e], ..], "label", "sideloaded": bool}],   (size "plasmid": small ring, wide areas)
   "generics": [{"type", "parts", "strand"}]}

Everything is laid out on a ring of slots in unrotated coordinates and, for circular records, rotated so
that the origin falls where the generator wants it (inside an exon, an intron, a core, a neighbourhood, a
subregion, or between genes). On linear records extents are clipped at the record ends, and clumps of
protoclusters are anchored at the first/last gene on purpose so that regions touch either end.
"""
from __future__ import annotations

SLOT = 200
STOPS = {"TAA", "TAG", "TGA"}
SENSE = [a + b + c for a in "ACGT" for b in "ACGT" for c in "ACGT" if a + b + c not in STOPS]
COMPLEMENT = {"A": "T", "C": "G", "G": "C", "T": "A"}
PRODUCTS = ["alpha", "beta", "gamma", "delta"]


def arc_intervals(start: int, arc_len: int, length: int, circular: bool, rot: int) -> list[list[int]]:
    """ [start, start+arc_len) in unrotated coordinates as intervals of the record, travel order """
    if not circular:
        s, e = max(0, start), min(length, start + arc_len)
        return [[s, e]] if e > s else []
    assert 0 < arc_len < length
    s = (start + rot) % length
    e = s + arc_len
    if e <= length:
        return [[s, e]]
    return [[s, length], [0, e - length]]


def positions_in_reading_order(parts_travel, strand: int) -> list[int]:
    pos = [p for s, e in parts_travel for p in range(s, e)]
    if strand == -1:
        pos.reverse()
    return pos


def _coding(rng, n_codons: int) -> str:
    codons = [rng.choice(["ATG", "ATG", "GTG", "TTG"])]
    codons += [rng.choice(SENSE) for _ in range(n_codons - 2)]
    codons.append(rng.choice(sorted(STOPS)))
    return "".join(codons)


def _split_codons(rng, total_nt: int, exons: int) -> list[int]:
    if exons == 1:
        return [total_nt]
    cuts = sorted(rng.sample(range(4, total_nt - 3), exons - 1))
    bounds = [0] + cuts + [total_nt]
    return [bounds[i + 1] - bounds[i] for i in range(exons)]


def gen_world(rng, size: str = "normal") -> dict:
    circular = rng.random() < 0.6 or size == "plasmid"
    n_slots = rng.choice({"normal": [10, 14, 18, 24, 30], "large": [30, 40, 60], "plasmid": [5, 6, 8]}[size])
    lead = rng.choice([0, 0, 0, 35, 120])
    trail = rng.choice([0, 0, 0, 35, 120])
    length = lead + n_slots * SLOT + trail

    # ---- genes on the slot grid (unrotated coordinates) ----------------------------------
    genes = []
    by_slot: dict[int, dict] = {}
    for i in range(n_slots):
        if rng.random() < 0.07:
            continue
        exons = rng.choice([1, 1, 1, 1, 1, 1, 2, 2, 3])
        n_codons = rng.randrange(12, 50)
        introns = [rng.choice([3, 4, 7, 12, 20]) for _ in range(exons - 1)]
        while 3 * n_codons + sum(introns) > SLOT - 8:
            n_codons -= 3
        lengths = _split_codons(rng, 3 * n_codons, exons)
        span = 3 * n_codons + sum(introns)
        where = rng.random()
        if where < 0.2:
            offset = 0
        elif where < 0.4:
            offset = SLOT - span
        else:
            offset = rng.randrange(0, SLOT - span + 1)
        start = lead + i * SLOT + offset
        exon_arcs = []
        pos = start
        for k, exon in enumerate(lengths):
            exon_arcs.append((pos, exon))
            pos += exon + (introns[k] if k < len(introns) else 0)
        gene = {"name": f"g{i:02d}", "slot": i, "arcs": exon_arcs, "start": start, "end": start + span,
                "strand": rng.choice([1, -1]), "n_codons": n_codons, "planted": True, "core_products": [],
                "prepeptide": None, "motifs": [], "domains": [], "gene_feature": rng.random() < 0.5}
        genes.append(gene)
        by_slot[i] = gene
    if len(genes) < 3:
        return gen_world(rng, size)
    # a few genes nested in / overlapping a planted gene (translation read off the DNA by the builder)
    extra = []
    for gene in genes:
        if rng.random() < 0.06 and gene["end"] - gene["start"] > 60 and len(gene["arcs"]) == 1:
            kind = rng.choice(["nested", "overlap-start"])
            if kind == "nested":
                s = gene["start"] + 3 * rng.randrange(1, 5) + rng.randrange(0, 3)
                ln = 3 * rng.randrange(4, 9)
            else:
                s = max(lead + gene["slot"] * SLOT, gene["start"] - 12)
                ln = 3 * rng.randrange(5, 10)
            if s + ln > gene["end"] or s < 0:
                continue
            extra.append({"name": f"x{gene['slot']:02d}", "slot": gene["slot"], "arcs": [(s, ln)], "start": s,
                          "end": s + ln, "strand": -gene["strand"], "n_codons": ln // 3, "planted": False,
                          "core_products": [], "prepeptide": None, "motifs": [], "domains": [],
                          "gene_feature": False})

    # ---- protocluster clumps -------------------------------------------------------------------
    slots_with_genes = sorted(by_slot)
    n_clumps = rng.choice([1, 2, 2, 3, 3, 4]) if size != "plasmid" else rng.choice([2, 3, 4])
    n_clumps = min(n_clumps, len(slots_with_genes))
    anchors = set()
    if not circular:
        if rng.random() < 0.4:
            anchors.add(slots_with_genes[0])
        if rng.random() < 0.4:
            anchors.add(slots_with_genes[-1])
    while len(anchors) < n_clumps:
        anchors.add(rng.choice(slots_with_genes))
    protos = []
    areas = []     # (start, length) in unrotated coordinates, for choosing the origin
    for anchor in sorted(anchors):
        previous = None
        for _ in range(rng.choice([1, 1, 2, 2, 3, 4])):
            if previous is not None and rng.random() < 0.3:
                first, ncore = previous          # same core: a chemical hybrid through a shared gene
            else:
                first = anchor + rng.choice([0, 0, 0, 1, 1, 2, 3])
                ncore = rng.choice([1, 1, 2, 3])
            slots = [first + k for k in range(ncore)]
            if circular:
                members = [by_slot[s % n_slots] for s in slots if s % n_slots in by_slot]
                wraps = [s // n_slots for s in slots if s % n_slots in by_slot]
            else:
                members = [by_slot[s] for s in slots if s in by_slot]
                wraps = [0] * len(members)
            if not members:
                continue
            core_start = members[0]["start"] + wraps[0] * length
            core_end = members[-1]["end"] + wraps[-1] * length
            if core_end <= core_start:
                continue
            nb = rng.choice([0, 40, 100, 200, 250, 400, 600] if size != "plasmid" else [200, 250, 400, 600])
            ext_start, ext_len = core_start - nb, core_end - core_start + 2 * nb
            if circular and ext_len >= length - 1:
                continue
            product = rng.choice(PRODUCTS)
            sideloaded = rng.random() < 0.08
            if not sideloaded:
                definers = rng.sample(members, rng.randrange(1, len(members) + 1))
                for g in definers:
                    if product not in g["core_products"]:
                        g["core_products"].append(product)
            protos.append({"core_arc": (core_start, core_end - core_start), "ext_arc": (ext_start, ext_len),
                           "product": product, "rule": f"rule{len(protos)}", "nb": nb,
                           "cutoff": rng.choice([0, 200, 400]), "sideloaded": sideloaded})
            areas.append((ext_start, ext_len))
            previous = (first, ncore)

    ring_only = False
    # a pair of protoclusters that together go once round a small ring, meeting away from the origin
    if size == "plasmid" and rng.random() < 0.5 and len(slots_with_genes) >= 2:
        k = rng.randrange(1, len(slots_with_genes))
        g2, g1 = by_slot[slots_with_genes[k - 1]], by_slot[slots_with_genes[k]]
        seam = g2["end"]
        overlap = rng.choice([1, 50, 100])
        short = rng.choice([250, 300, 400])
        if g2["start"] >= seam - short and g1["end"] <= seam + length - short + overlap and g1["start"] >= seam:
            if rng.random() < 0.7:      # nothing else on the ring
                ring_only = True
                protos, areas = [], []
                for gene in genes:
                    gene["core_products"] = []
            for gene, arc in ((g1, (seam, length - short + overlap)), (g2, (seam - short, short))):
                product = rng.choice(PRODUCTS)
                if product not in gene["core_products"]:
                    gene["core_products"].append(product)
                protos.append({"core_arc": (gene["start"], gene["end"] - gene["start"]), "ext_arc": arc,
                               "product": product, "rule": f"rule{len(protos)}", "nb": 100, "cutoff": 200,
                               "sideloaded": False})
                areas.append(arc)

    # ---- subregions ----------------------------------------------------------------------------
    subs = []
    for _ in range(0 if ring_only else rng.choice([0, 0, 1, 1, 2, 3])):
        if areas and rng.random() < 0.55:
            base_start, base_len = rng.choice(areas)
            start = base_start + rng.randrange(-150, max(1, base_len))
        else:
            start = rng.randrange(0, length)
        sub_len = rng.choice([150, 260, 410, 650, 900])
        if not circular:
            start = max(0, min(start, length - 1))
            if rng.random() < 0.15:
                start = 0
            elif rng.random() < 0.15:
                start = max(0, length - sub_len)
        if circular and sub_len >= length - 1:
            continue
        subs.append({"arc": (start, sub_len), "label": f"sub{len(subs)}", "sideloaded": rng.random() < 0.25})
        areas.append((start, sub_len))
    if not protos and not subs:
        return gen_world(rng, size)

    # ---- annotations inside genes ----------------------------------------------------------------
    for gene in genes:
        n_aa = gene["n_codons"] - 1  # the stop codon is not translated
        if n_aa >= 8 and rng.random() < 0.2:
            a = rng.choice([0, rng.randrange(1, n_aa - 2)])
            b = rng.choice([n_aa, rng.randrange(a + 1, n_aa)])
            gene["prepeptide"] = [a, b]
        if rng.random() < 0.2:
            for _ in range(rng.choice([1, 2])):
                s = rng.randrange(0, n_aa - 2)
                gene["motifs"].append([s, rng.randrange(s + 1, n_aa + 1)])
        if rng.random() < 0.2:
            for _ in range(rng.choice([1, 2])):
                s = rng.randrange(0, n_aa - 2)
                gene["domains"].append([s, rng.randrange(s + 1, n_aa + 1), rng.choice(["as", "pfam"])])

    # ---- where the origin falls (circular only) ------------------------------------------------------
    rot = 0
    origin_kind = "none"
    if circular:
        kind = rng.random()
        if kind < 0.40 and areas:
            a_start, a_len = rng.choice(areas)
            x = a_start + rng.randrange(0, a_len)
            origin_kind = "in-area"
            inside = [g for g in genes if a_start <= g["start"] and g["end"] <= a_start + a_len]
            if inside and rng.random() < 0.6:
                g = rng.choice(inside)
                x = rng.randrange(g["start"] + 1, g["end"])
                origin_kind = "in-area-gene"
        elif kind < 0.53 and areas:
            # a gene cut by the border of an area, the origin inside the part of the gene that is inside the area
            a_start, a_len = rng.choice(areas)
            a_end = a_start + a_len
            cut = [(max(g["start"], a_start), min(g["end"], a_end)) for g in genes
                   if (g["start"] < a_start < g["end"] or g["start"] < a_end < g["end"])]
            cut = [(s, e) for s, e in cut if e - s >= 2]
            if cut:
                s, e = rng.choice(cut)
                x = rng.randrange(s + 1, e)
                origin_kind = "in-gene-cut-by-area-border"
            else:
                x = rng.randrange(0, length)
                origin_kind = "anywhere"
        elif kind < 0.6:
            g = rng.choice(genes)
            x = rng.randrange(g["start"] + 1, g["end"])
            origin_kind = "in-gene"
        elif kind < 0.7 and areas:
            a_start, a_len = rng.choice(areas)
            x = rng.choice([a_start, a_start + a_len, a_start + 1, a_start + a_len - 1])
            origin_kind = "area-edge"
        else:
            x = rng.randrange(0, length)
            origin_kind = "anywhere"
        rot = (-x) % length

    # ---- sequence with the planted genes ---------------------------------------------------------------
    seq = [rng.choice("ACGT") for _ in range(length)]
    out_genes = []
    for gene in genes + extra:
        parts = []
        for s, ln in gene["arcs"]:
            parts.extend(arc_intervals(s, ln, length, circular, rot))
        if gene["planted"]:
            coding = _coding(rng, gene["n_codons"])
            for base, pos in zip(coding, positions_in_reading_order(parts, gene["strand"])):
                seq[pos] = base if gene["strand"] == 1 else COMPLEMENT[base]
        out_genes.append({"name": gene["name"], "parts": parts, "strand": gene["strand"], "planted": gene["planted"],
                          "core_products": gene["core_products"], "prepeptide": gene["prepeptide"],
                          "motifs": gene["motifs"], "domains": gene["domains"], "gene_feature": gene["gene_feature"]})

    out_protos = []
    for p in protos:
        core = arc_intervals(*p["core_arc"], length, circular, rot)
        extent = arc_intervals(*p["ext_arc"], length, circular, rot)
        if not core or not extent:
            continue
        out_protos.append({"core": core, "extent": extent, "product": p["product"], "rule": p["rule"], "nb": p["nb"],
                           "cutoff": p["cutoff"], "sideloaded": p["sideloaded"]})
    out_subs = []
    for s in subs:
        extent = arc_intervals(*s["arc"], length, circular, rot)
        if extent:
            out_subs.append({"extent": extent, "label": s["label"], "sideloaded": s["sideloaded"]})

    generics = []
    for _ in range(rng.choice([0, 1, 2, 3])):
        s = rng.randrange(0, length - 30)
        generics.append({"type": rng.choice(["misc_feature", "repeat_region", "regulatory"]),
                         "parts": [[s, s + rng.randrange(1, 30)]], "strand": rng.choice([1, -1, 0])})
    if circular and rng.random() < 0.3:
        cut = rng.randrange(5, 40)
        generics.append({"type": "misc_feature", "parts": [[length - cut, length], [0, rng.randrange(5, 40)]],
                         "strand": 1})

    return {"L": length, "circular": circular, "rot": rot, "origin_kind": origin_kind,
            "mode": rng.choice(["shared", "shared", "shared", "per-call"]),
            "seq": "".join(seq), "genes": out_genes, "protoclusters": out_protos, "subregions": out_subs,
            "generics": generics}


def world_key(world: dict) -> dict:
    """ the layout without the letters: distinctness of cases is counted on this """
    return {k: v for k, v in world.items() if k != "seq"}
