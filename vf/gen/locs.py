"""Location generators (real antiSMASH location classes, coordinates chosen by the harness)."""
from __future__ import annotations

from antismash.common.secmet.locations import CompoundLocation, FeatureLocation


def mk(parts, strand=1):
    """ parts: [(s, e), ...] in forward-travel order (pre-origin parts first when bridging);
        stored in biological order for the strand, as GenBank/antiSMASH do """
    locs = [FeatureLocation(s, e, strand) for s, e in parts]
    if len(locs) == 1:
        return locs[0]
    if strand == -1:
        locs.reverse()
    return CompoundLocation(locs)


def to_case(loc) -> dict:
    from vf.models import ring
    return {"parts": ring.forward_parts(loc), "strand": loc.strand}


def from_case(data: dict):
    return mk([tuple(p) for p in data["parts"]], data["strand"])


def all_simple(length: int):
    for s in range(length):
        for e in range(s + 1, length + 1):
            yield [(s, e)]


def all_bridging(length: int):
    """ [s:L) + [0:e) with e < s: two-part, not self-overlapping, not the full ring """
    for s in range(1, length):
        for e in range(1, s):
            yield [(s, length), (0, e)]


def all_gapped(length: int):
    """ two parts in the order of a location over the origin, [s:s2) + [e1:e) with e < s, at least one of them short of
        the record's edge: the origin lies in the gap between them """
    for s in range(1, length):
        for s2 in range(s + 1, length + 1):
            for e in range(1, s):
                for e1 in range(0, e):
                    if s2 < length or e1 > 0:
                        yield [(s, s2), (e1, e)]


def rand_exons(rng, lo: int, hi: int, count: int, min_exon: int = 1):
    """ count disjoint, ordered, non-adjacent-or-adjacent exons inside [lo, hi) or None """
    room = hi - lo
    if room < count * min_exon:
        return None
    cuts = sorted(rng.sample(range(lo, hi + 1), 2 * count)) if room + 1 >= 2 * count else None
    if cuts is None:
        return None
    parts = [(cuts[2 * i], cuts[2 * i + 1]) for i in range(count)]
    if any(e - s < min_exon for s, e in parts):
        return None
    # exons that touch (an intron of length 0, as frameshift annotations produce)
    if count > 1 and rng.random() < 0.25:
        i = rng.randrange(count - 1)
        parts[i + 1] = (parts[i][1], parts[i + 1][1])
    return parts


def rand_location(rng, length: int, circular: bool, max_exons: int = 3, bridge_p: float = 0.2,
                  max_span: int | None = None, strand=None):
    """ a well-formed location on a record of the given length """
    if strand is None:
        strand = rng.choice([1, -1])
    max_span = min(max_span or length, length)
    for _ in range(50):
        exons = rng.choice([1] * 3 + list(range(1, max_exons + 1)))
        if circular and length >= 4 and rng.random() < bridge_p:
            # pre-origin stretch [a, L) and post-origin stretch [0, b), b < a
            span = rng.randrange(2, max(3, min(max_span, length - 1) + 1))
            pre = rng.randrange(1, span)
            post = span - pre
            a = length - pre
            b = post
            if b >= a:
                continue
            n_pre = rng.randrange(1, exons + 1) if exons > 1 else 1
            n_post = max(1, exons - n_pre) if exons > 1 else 1
            up = rand_exons(rng, a, length, n_pre) if n_pre > 1 else [(a, length)]
            low = rand_exons(rng, 0, b, n_post) if n_post > 1 else [(0, b)]
            if up is None or low is None:
                continue
            # origin inside an exon (parts touch the origin) or inside an intron
            if rng.random() < 0.6:
                up[-1] = (up[-1][0], length)
                low[0] = (0, low[0][1])
            return mk(up + low, strand)
        s = rng.randrange(0, length)
        e = rng.randrange(s + 1, min(length, s + max_span) + 1)
        parts = rand_exons(rng, s, e, exons) if exons > 1 else [(s, e)]
        if parts is None:
            continue
        return mk(parts, strand)
    return mk([(0, min(length, 1))], strand)
