"""Annotated-world builder: real antiSMASH records on real DNA, annotated through the real API.

API (kept small on purpose; used by C10, C11, C12):

    spec   = gen_spec(rng, circular=None, length=None, max_genes=14, rich=True)   -> JSON-able dict
    record = build_from_spec(spec)                                               -> antismash Record
    record = build(rng, **same keywords as gen_spec)                              -> Record (spec kept in LAST_SPEC)
    facts(record)                                                                 -> dict of structural facts

`spec` is the replayable input: lengths, topology, gene layout, every annotation. The DNA itself is not
stored: it is regenerated from spec["seq_seed"] and then overwritten, gene by gene, with sense codons, a
start codon and (usually) a stop codon, so translations are real.

How a record is made (all steps are real antiSMASH / Biopython code, nothing is mocked):
  1. a Biopython SeqRecord with complete header annotations (molecule_type, topology, source, organism,
     taxonomy, date, accessions, version, keywords, optionally a reference), a `source` feature, `gene` and
     `CDS` features (1-3 exons, both strands, codon_start 1/2/3, trailing bases, locus_tag / protein_id /
     gene naming variants, origin-spanning genes on circular records), misc features with notes, now and then
     a foreign CDS_motif (no aSTool);
  2. written as GenBank text and parsed again (that is what antiSMASH reads; it pins Biopython's own
     representation of headers and valueless qualifiers) -> Record.from_biopython(bio, "bacteria");
  3. annotations through the real API: gene functions, sec_met domains, NRPS_PKS qualifier domains,
     PFAMDomain (with GO terms), AntismashDomain / ModularDomain (ASF hits, subtypes, specificity),
     CDSMotif, Prepeptide (leader/core/tail), Module (single and multi CDS, monomers),
     Protocluster (cores from real gene spans via Record.connect_locations, neighbourhoods via
     Record.extend_location, T2PKS qualifier, notes), SideloadedProtocluster, SubRegion,
     SideloadedSubRegion (strandless locations unless origin-spanning, as the sideloader builds them),
     then Record.create_candidate_clusters() and Record.create_regions().

Protocluster layouts are derived from each other (same core / core inside core / adjacent genes / far away)
so that chemical hybrids, interleaved, neighbouring and single candidates all occur, incl. protoclusters
with identical coordinates (hybrid rules with the same neighbourhood).
"""
from __future__ import annotations

import io
import logging
import random

from Bio import SeqIO
from Bio.Seq import Seq
from Bio.SeqFeature import Reference, SeqFeature
from Bio.SeqRecord import SeqRecord

from antismash.common.secmet import Record
from antismash.common.secmet.features import (
    AntismashDomain,
    CDSFeature,
    CDSMotif,
    Module,
    PFAMDomain,
    Prepeptide,
    Protocluster,
    SubRegion,
)
from antismash.common.secmet.features.module import ModuleType
from antismash.common.secmet.features.protocluster import SideloadedProtocluster
from antismash.common.secmet.features.subregion import SideloadedSubRegion
from antismash.common.secmet.locations import CompoundLocation, FeatureLocation
from antismash.common.secmet.qualifiers import GOQualifier, SecMetQualifier
from antismash.common.secmet.qualifiers.gene_functions import GeneFunction
from antismash.common.secmet.qualifiers.t2pks import T2PKSQualifier
from antismash.detection.nrps_pks_domains.modular_domain import ModularDomain

LAST_SPEC: dict | None = None

SENSE = [a + b + c for a in "ACGT" for b in "ACGT" for c in "ACGT" if a + b + c not in ("TAA", "TAG", "TGA")]
STOPS = ["TAA", "TAG", "TGA"]
COMP = {"A": "T", "C": "G", "G": "C", "T": "A"}
PRODUCTS = ["T1PKS", "NRPS", "terpene", "lanthipeptide-class-i", "RiPP-like", "T2PKS", "hglE-KS", "NRP-metallophore"]
CATEGORIES = {"T1PKS": "PKS", "T2PKS": "PKS", "hglE-KS": "PKS", "NRPS": "NRPS", "NRP-metallophore": "NRPS",
              "terpene": "terpene", "lanthipeptide-class-i": "RiPP", "RiPP-like": "RiPP"}
NRPS_HITS = ["PKS_KS", "PKS_AT", "PKS_KR", "AMP-binding", "Condensation", "PCP", "ACP", "Thioesterase", "CAL_domain"]
FUNCTIONS = ["OTHER", "ADDITIONAL", "TRANSPORT", "REGULATORY", "RESISTANCE"]


def quiet():
    logging.disable(logging.CRITICAL)


# ----------------------------------------------------------------------------------------------
# spec generation (pure data, no antiSMASH objects)
# ----------------------------------------------------------------------------------------------

def _gene_parts(rng, start: int, codons: int, exons: int, extra: int):
    """ forward-travel parts of a gene starting at `start` with the given coding length """
    total = codons * 3 + extra
    if exons == 1:
        return [[start, start + total]]
    cuts = sorted(rng.sample(range(4, total - 4), exons - 1))    # end exons keep >= 4 bases (codon_start shifts)
    sizes = [b - a for a, b in zip([0] + cuts, cuts + [total])]
    parts = []
    pos = start
    for size in sizes:
        parts.append([pos, pos + size])
        pos += size + rng.choice([0, 7, 30, 61])     # 0: adjacent exons
    # merge nothing: adjacent parts are legal in GenBank
    return parts


def _wrap_parts(parts, length):
    """ split forward-travel parts that run past `length` into pre- and post-origin parts """
    out = []
    for s, e in parts:
        if e <= length:
            out.append([s, e])
        elif s >= length:
            out.append([s - length, e - length])
        else:
            out.append([s, length])
            out.append([0, e - length])
    return out


def gen_spec(rng: random.Random, circular=None, length=None, max_genes: int = 14, rich: bool = True) -> dict:
    if circular is None:
        circular = rng.random() < 0.5
    length = length or rng.choice([4000, 6000, 9000, 12000, 16000])
    spec = {"L": length, "circular": circular, "seq_seed": rng.getrandbits(48)}
    accession = "VF" + "".join(rng.choice("0123456789") for _ in range(6))
    spec["header"] = {
        "accession": accession, "version": rng.choice([1, 2, 7]),
        "description": rng.choice(["Streptomyces verificans strain VF1 chromosome, complete genome",
                                   "Synthetic construct plasmid pVF, complete sequence",
                                   "generated record with a rather long description line that has to be wrapped "
                                   "by the GenBank writer because it exceeds the line width by quite a bit"]),
        "organism": rng.choice(["Streptomyces verificans", "Escherichia coli K-12"]),
        "date": rng.choice(["01-JAN-1980", "26-SEP-2026", "09-FEB-2004"]),
        "division": rng.choice(["BCT", "SYN", "UNK"]),
        "keywords": rng.choice([[""], ["WGS"], ["complete genome", "secondary metabolism"]]),
        "reference": rng.random() < 0.4, "comment": rng.random() < 0.3,
    }
    # ---- genes
    genes = []
    count = rng.randrange(3, max_genes + 1)
    pos = rng.choice([0, 1, 30, 150, 400])
    bridging_wanted = circular and rng.random() < 0.7
    if bridging_wanted:
        # first gene starts before the origin and ends after it
        codons = rng.randrange(30, 120)
        exons = rng.choice([1, 1, 2, 3])
        extra = rng.choice([0, 0, 0, 1, 2])
        before = rng.randrange(1, codons * 3 - 1)
        parts = _gene_parts(rng, length - before, codons, exons, extra)
        wrapped = _wrap_parts(parts, length)
        if any(e > length for _, e in parts) and all(e <= length for _, e in wrapped):
            lead = rng.choice([0, 0, 1, 2]) if wrapped[0][0] >= length // 2 else 0
            genes.append({"parts": wrapped, "strand": rng.choice([1, -1]), "codon_start": 1 + lead,
                          "stop": rng.random() < 0.85, "bridging": True})
            pos = max(e for s, e in wrapped if s < length // 2) + rng.choice([0, 40, 300])
    limit = (min(s for s, e in genes[0]["parts"] if s >= length // 2) if genes else length)
    for _ in range(count):
        codons = rng.choice([20, 35, 60, 90, 140, 200])
        exons = rng.choice([1, 1, 1, 1, 2, 3])
        extra = rng.choice([0, 0, 0, 0, 1, 2])
        lead = rng.choice([0, 0, 0, 0, 0, 1, 2])
        gap = rng.choice([-30, -4, 0, 1, 20, 90, 250, 800, 2000])
        start = max(0, pos + gap)
        parts = _gene_parts(rng, start + 0, codons, exons, extra + lead)
        if parts[-1][1] > limit:
            break
        genes.append({"parts": parts, "strand": rng.choice([1, -1]), "codon_start": 1 + lead,
                      "stop": rng.random() < 0.85, "bridging": False})
        pos = parts[-1][1]
        if rng.random() < 0.08 and codons >= 60:      # a nested gene inside the previous one
            ns = parts[0][0] + 9
            inner = _gene_parts(rng, ns, 12, 1, 0)
            if inner[-1][1] < parts[0][1]:
                genes.append({"parts": inner, "strand": rng.choice([1, -1]), "codon_start": 1, "stop": False,
                              "bridging": False})
    # a twin: the same span on the other strand (the two sort equally)
    singles = [g for g in genes if len(g["parts"]) == 1 and not g["bridging"]]
    if singles and rng.random() < 0.2:
        base = rng.choice(singles)
        genes.insert(genes.index(base) + rng.choice([0, 1]),
                     {"parts": [list(p) for p in base["parts"]], "strand": -base["strand"], "codon_start": 1,
                      "stop": False, "bridging": False})
    for gene in genes:
        # the frame offset is taken off the first exon in reading order: that exon has to be longer than the offset
        # (a gene whose first exon is swallowed by /codon_start is not a record the reader can represent)
        first_read = gene["parts"][0] if gene["strand"] == 1 else gene["parts"][-1]
        if gene["codon_start"] > 1 and first_read[1] - first_read[0] <= gene["codon_start"] - 1:
            gene["codon_start"] = 1
    seen = set()
    unique = []
    for gene in genes:
        key = (str(gene["parts"]), gene["strand"])
        if key not in seen:
            seen.add(key)
            unique.append(gene)
    genes = unique
    naming = rng.choice(["locus", "locus", "mixed", "all"])
    for i, gene in enumerate(genes):
        style = naming if naming != "mixed" else rng.choice(["locus", "protein", "gene", "all"])
        ids = {}
        if style in ("locus", "all"):
            ids["locus_tag"] = f"VF_{i:04d}"
        if style in ("protein", "all"):
            ids["protein_id"] = f"VFP{i:05d}.1"
        if style in ("gene", "all"):
            ids["gene"] = f"vfg{chr(65 + i % 26)}{i}"
        gene["ids"] = ids
        gene["name"] = ids.get("locus_tag") or ids.get("gene") or ids.get("protein_id")
        gene["product"] = rng.choice(["", "hypothetical protein", "polyketide synthase, type I (modular)",
                                      "ABC transporter ATP-binding protein/permease with a long product name here"])
        gene["gene_feature"] = rng.random() < 0.5
        gene["pseudo"] = rng.random() < 0.05
        gene["note"] = rng.choice([[], [], ["manually curated"], ["b note", "a note"], ["same remark", "same remark"],
                                   ["checked", "a note", "checked"]])
        gene["start_codon"] = rng.choice(["ATG", "ATG", "ATG", "GTG", "TTG"])
    spec["genes"] = genes
    spec["misc"] = []
    if rich:
        for _ in range(rng.randrange(0, 3)):
            s = rng.randrange(0, length - 50)
            spec["misc"].append({"type": rng.choice(["misc_feature", "tRNA", "regulatory", "repeat_region"]),
                                 "parts": [[s, s + rng.randrange(10, 50)]], "strand": rng.choice([1, -1, 1]),
                                 "quals": rng.choice([{"note": ["something of interest"]}, {"product": ["tRNA-Ala"]},
                                                      {"note": ["z", "y"], "standard_name": ["thing"]},
                                                      {"note": ["twice", "twice"]}])})
        if rng.random() < 0.15:
            # a CDS_motif that is not antiSMASH's (no aSTool): kept as ExternalCDSMotif
            s = rng.randrange(0, length - 50)
            spec["misc"].append({"type": "CDS_motif", "parts": [[s, s + 30]], "strand": rng.choice([1, -1]),
                                 "quals": rng.choice([{"note": ["external motif"]},
                                                      {"note": ["external motif"], "label": ["ext_label"]}])})
    _gen_annotations(rng, spec, rich)
    # (a prediction for a candidate without modules is the empty string, as gen_smiles_from_pksnrps([]) returns)
    structures = [["NC(C)C(=O)NC(CO)C(=O)O", "(ala) + (ser)"], ["CC(=O)CC(O)CC(=O)O", "(mal - ohmal)"], ["C1CC1", None],
                  ["", ""], ["", None]]
    spec["candidate_structures"] = [rng.choice(structures) if rich and rng.random() < 0.4 else None for _ in range(12)]
    return spec


def _coding_len(gene) -> int:
    total = sum(e - s for s, e in gene["parts"]) - (gene["codon_start"] - 1)
    return total // 3


def _gen_annotations(rng, spec, rich):
    genes = spec["genes"]
    n = len(genes)
    # ---- protoclusters: (core gene index range, product, nb, cutoff)
    protos = []
    k = rng.choice([0, 1, 2, 2, 3, 3, 4, 5]) if n >= 2 else rng.choice([0, 1])
    nb_choices = [0, 100, 300, 1000, 2500, 20000]
    split_layout = spec["circular"] and n >= 5 and rng.random() < 0.2
    if split_layout:
        # an origin-crossing region holding the lowest and the highest area numbers of the record, and another
        # region in between: a core over the origin, one just before the origin, one in the middle of the record
        k = 0
        for core, nb in (([n - 1, 0], 0), ([n - 2, n - 2], rng.choice([600, 1000, 2500])), ([n // 2, n // 2], 0)):
            product = PRODUCTS[len(protos) % len(PRODUCTS)]
            protos.append({"core_genes": core, "product": product, "category": CATEGORIES[product], "nb": nb,
                           "cutoff": 0, "rule": "(a and b)", "tool": "rule-based-clusters", "sideloaded": False,
                           "notes": [], "core_marks": "ends", "t2pks": None, "extra": {}})
    for _ in range(k):
        derived = protos and rng.random() < 0.65
        if derived:
            base = rng.choice(protos)
            lo, hi = base["core_genes"][0], base["core_genes"][-1]
            how = rng.choice(["same-core", "same-core-same-nb", "inside", "adjacent", "shared-end"])
            if how in ("same-core", "same-core-same-nb"):
                core = [lo, hi]
            elif how == "inside" and hi - lo >= 2:
                core = [lo + 1, lo + 1]
            elif how == "shared-end":
                core = [hi, min(n - 1, hi + rng.choice([0, 1]))]
            else:
                a = min(n - 1, hi + 1)
                core = [a, min(n - 1, a + rng.choice([0, 1]))]
            nb = base["nb"] if how == "same-core-same-nb" else rng.choice(nb_choices)
            products = [p for p in PRODUCTS if p != base["product"]]
        else:
            a = rng.randrange(n)
            core = [a, min(n - 1, a + rng.choice([0, 0, 1, 2]))]
            nb = rng.choice(nb_choices)
            products = PRODUCTS
        if spec["circular"] and rng.random() < 0.25 and n >= 3:
            # a core running over the origin: last gene(s) ... first gene(s)
            core = [n - 1, 0] if rng.random() < 0.6 else [n - 1, 1]
        # one rule gives one protocluster per core: never the same product on the same core twice
        products = [prod for prod in products
                    if not any(prod == other["product"] and core == other["core_genes"] for other in protos)]
        if not products:
            continue
        product = rng.choice(products)
        proto = {"core_genes": core, "product": product, "category": CATEGORIES[product], "nb": nb,
                 "cutoff": rng.choice([0, 100, 1000, 20000]), "rule": rng.choice(
                     ["(a and b)", "cds(PKS_KS and PKS_AT)", "minimum(2, [A, B, C]) and not D",
                      "(Condensation and AMP-binding) or (cds(Condensation and AMP-binding) and PP-binding "
                      "and minscore(Thioesterase, 30)) or a_rather_long_profile_name_to_force_wrapping"]),
                 "tool": "rule-based-clusters", "sideloaded": False, "notes": [],   # the pipeline never puts notes on areas
                 "core_marks": rng.choice(["ends", "ends", "first", "all"]), "t2pks": None, "extra": {}}
        if product == "T2PKS" and rng.random() < 0.7:
            elong = rng.random() < 0.6
            proto["t2pks"] = {"starters": rng.choice([["acetyl-CoA"], ["malonamyl-CoA", "acetyl-CoA"]]),
                              "elongations": ["7", "8|9"] if elong else [],
                              "classes": rng.choice([[], ["angucycline"], ["anthracycline", "tetracycline"]]),
                              "weights": {"acetyl-CoA_7": 342.125, "acetyl-CoA_8|9": 1204.5} if elong else {}}
        if rich and rng.random() < 0.15:
            proto["sideloaded"] = True
            proto["tool"] = rng.choice(["extool", "other-tool v2", "RODEO: heuristic scoring"])
            proto["extra"] = rng.choice([{}, {"ext_score": ["12.5"]}, {"ext_a": ["x", "y"], "ext_b": ["z"]}])
        protos.append(proto)
    spec["protoclusters"] = protos
    # ---- subregions
    subs = []
    for _ in range(rng.choice([0, 0, 1, 1, 2]) if rich and not split_layout else 0):
        sub = {"tool": rng.choice(["cassis", "clusterfinder"]), "label": rng.choice(["", "VF_0001", "anchor"]),
               "sideloaded": rng.random() < 0.4, "extra": {}}
        if rng.random() < 0.6 and n:
            a = rng.randrange(n)
            sub["genes"] = [a, min(n - 1, a + rng.choice([0, 1, 3]))]
        else:
            s = rng.randrange(0, spec["L"] - 200)
            sub["range"] = [s, min(spec["L"], s + rng.choice([150, 900, 3000]))]
            if spec["circular"] and rng.random() < 0.3:
                sub["range"] = [spec["L"] - rng.choice([100, 700]), rng.choice([50, 600])]
        if sub["sideloaded"]:
            sub["tool"] = rng.choice(["extool", "other-tool v2", "RODEO: heuristic scoring", "a: b: c"])
            sub["extra"] = rng.choice([{}, {"ext_score": ["0.5"]}, {"ext_a": ["x", "y"]}])
        subs.append(sub)
    if rich and not split_layout and rng.random() < 0.06 and spec["L"] > 3000:
        # ten or twelve subregions in pairs of identical coordinates (two tools marking the same stretch): the numbers
        # run into two digits and the ninth and tenth share their coordinates
        subs = []
        pairs = rng.choice([5, 6])
        width = (spec["L"] - 200) // pairs
        for k in range(pairs):
            s = k * width + rng.randrange(0, width // 3)
            e = min(spec["L"], s + rng.randrange(150, max(151, width // 2)))
            for label in ("first", "second"):
                subs.append({"tool": rng.choice(["cassis", "clusterfinder"]), "label": f"{label}{k}", "sideloaded": False,
                             "extra": {}, "range": [s, e]})
        rng.shuffle(subs)
        spec["many_subregions"] = True
    spec["subregions"] = subs
    # ---- per gene annotations
    ann = {}
    pfam_no = 0
    for gi, gene in enumerate(genes):
        aa = _coding_len(gene) - (1 if gene["stop"] else 0)
        entry = {"functions": [], "secmet": [], "nrps_type": None, "pfams": [], "asdomains": [], "motifs": [],
                 "prepeptide": None}
        if aa < 12 or not rich and rng.random() < 0.5:
            ann[gene["name"]] = entry
            continue
        if rng.random() < 0.5:
            for _ in range(rng.randrange(1, 3)):
                entry["functions"].append([rng.choice(FUNCTIONS), rng.choice(["smcogs", "resist", "rule-based-clusters"]),
                                           rng.choice(["SMCOG1001: short-chain dehydrogenase (Score: 120.5; E-value: 1e-30)",
                                                       "predicted lanthipeptide", "PKS_AT", "Cation efflux family (x)",
                                                       "TIGR00001: ribosomal protein bL35"]), None])
        if rng.random() < 0.4:
            for name in rng.sample(["PKS_KS", "PKS_AT", "AMP-binding", "Condensation", "terpene_synth"],
                                   rng.randrange(1, 3)):
                entry["secmet"].append([name, rng.choice([1e-30, 2.5e-12, 0.001]), rng.choice([30.5, 250.0, 1011.7]),
                                        rng.randrange(1, 400), "rule-based-clusters"])
        if rng.random() < 0.5:
            for _ in range(rng.randrange(1, 4)):
                s = rng.randrange(0, aa - 5)
                e = rng.randrange(s + 3, min(aa, s + 60) + 1)
                pfam_no += 1
                go = rng.choice([{}, {}, {"GO:0016491": "oxidoreductase activity"},
                                 {"GO:0055114": "oxidation-reduction process", "GO:0004497": "monooxygenase activity"}])
                entry["pfams"].append({"s": s, "e": e, "id": rng.choice(["PF00067", "PF00067.14", "PF13714.3"]),
                                       "desc": rng.choice(["Cytochrome P450", "Type III restriction enzyme, res subunit"]),
                                       "domain": rng.choice([None, "p450"]), "go": go,
                                       "evalue": rng.choice([1.5e-20, 3e-05, 0.0]), "score": rng.choice([55.5, 101.0, 0.0]),
                                       "domain_id": f"fullhmmer_{gene['name']}_{pfam_no:04d}"})
        if rng.random() < 0.45:
            count = rng.randrange(1, 5)
            cursor = 0
            for _ in range(count):
                if cursor >= aa - 4:
                    break
                s = rng.randrange(cursor, min(aa - 4, cursor + 10) + 1)
                e = rng.randrange(s + 3, min(aa, s + 40) + 1)
                cursor = e
                hit = rng.choice(NRPS_HITS)
                subtypes = rng.choice([[], [], ["Trans-AT-KS"], ["Trans-AT-KS", "Clade_7"]]) if hit == "PKS_KS" else (
                    rng.choice([[], ["Condensation_LCL"]]) if hit == "Condensation" else [])
                entry["asdomains"].append({"s": s, "e": e, "kind": "modular", "hit": hit, "subtypes": subtypes,
                                           "specificity": rng.choice([[], ["consensus: mal"], ["a: b", "c: d"]]),
                                           "asf": rng.choice([[], [], ["active site cysteine present"]]),
                                           "evalue": rng.choice([1.2e-40, 7e-10, 0.0]), "score": rng.choice([88.8, 300.1, 0.0])})
            entry["nrps_type"] = rng.choice([None, "Type I Modular PKS", "NRPS", "other"])
        if rich and rng.random() < 0.2:
            s = rng.randrange(0, aa - 5)
            entry["asdomains"].append({"s": s, "e": min(aa, s + 20), "kind": "generic", "tool": "verif_tool",
                                       "domain": rng.choice([None, "RRE"]), "asf": [], "label": "generic_lbl",
                                       "evalue": rng.choice([1e-9, 0.0]), "score": rng.choice([20.0, 0.0])})
        if rich and rng.random() < 0.3:
            for mi in range(rng.randrange(1, 3)):
                s = rng.randrange(0, aa - 4)
                entry["motifs"].append({"s": s, "e": min(aa, s + rng.randrange(3, 12)), "label": f"C1_{mi}",
                                        "evalue": rng.choice([4.4e-07, 0.0]), "score": rng.choice([15.5, 0.0, -3.5])})
        if rich and rng.random() < 0.2 and aa >= 12:
            lead = rng.choice([0, rng.randrange(1, aa - 6)])
            tail = rng.choice([0, 0, rng.randrange(1, 4)])
            entry["prepeptide"] = {"leader": lead, "tail": tail, "class": rng.choice(["lanthipeptide", "thiopeptide"]),
                                   "subclass": rng.choice(["Class I", "Type-II", ""]), "score": rng.choice([12.25, 0.0]),
                                   "mono": 2203.1, "weight": 2204.7, "alt": rng.choice([[], [2222.8, 2240.8]])}
        ann[gene["name"]] = entry
    spec["cds"] = ann
    # ---- modules over consecutive modular domains (1 CDS) or over two same-strand neighbouring CDS
    modules = []
    if rich:
        names = [g["name"] for g in genes]
        for gi, gene in enumerate(genes):
            doms = [i for i, d in enumerate(ann[gene["name"]]["asdomains"]) if d["kind"] == "modular"]
            if len(doms) >= 2 and rng.random() < 0.7:
                take = doms[:rng.randrange(2, len(doms) + 1)]
                members = [[gene["name"], i] for i in take]
                rest = doms[len(take):]
                if gi + 1 < len(genes) and genes[gi + 1]["strand"] == gene["strand"] and rng.random() < 0.5 \
                        and not genes[gi + 1]["bridging"] and not gene["bridging"]:
                    other = [i for i, d in enumerate(ann[names[gi + 1]]["asdomains"]) if d["kind"] == "modular"]
                    if other and not rest:
                        members.append([names[gi + 1], other[0]])
                        if gene["strand"] == -1:
                            members = members[-1:] + members[:-1]
                modules.append({"members": members, "type": rng.choice(["nrps", "pks", "cal", "unknown"]),
                                "complete": rng.random() < 0.6, "starter": rng.random() < 0.3,
                                "final": rng.random() < 0.3, "iterative": rng.random() < 0.2,
                                "monomers": rng.choice([[], [["mal", "ccmal"]], [["ala", "D-ala"], ["gly", "gly"]]])})
    spec["modules"] = modules


# ----------------------------------------------------------------------------------------------
# building the real objects
# ----------------------------------------------------------------------------------------------

def _location(parts, strand):
    locs = [FeatureLocation(s, e, strand) for s, e in parts]
    if len(locs) == 1:
        return locs[0]
    if strand == -1:
        locs.reverse()
    return CompoundLocation(locs)


def _reading_positions(parts, strand):
    """ record positions of a forward-travel part list in reading order """
    if strand == 1:
        return [p for s, e in parts for p in range(s, e)]
    return [p for s, e in reversed(parts) for p in range(e - 1, s - 1, -1)]


def make_sequence(spec) -> str:
    rng = random.Random(spec["seq_seed"])
    seq = [rng.choice("ACGT") for _ in range(spec["L"])]
    for gene in spec["genes"]:
        positions = _reading_positions(gene["parts"], gene["strand"])[gene["codon_start"] - 1:]
        codons = len(positions) // 3
        text = []
        for c in range(codons):
            if c == 0:
                text.append(gene["start_codon"])
            elif c == codons - 1 and gene["stop"]:
                text.append(rng.choice(STOPS))
            else:
                text.append(rng.choice(SENSE))
        flat = "".join(text)
        for pos, base in zip(positions, flat):
            seq[pos] = base if gene["strand"] == 1 else COMP[base]
    return "".join(seq)


def make_input(spec) -> SeqRecord:
    """ the input as antiSMASH would read it: a GenBank text parsed by Biopython """
    head = spec["header"]
    annotations = {
        "molecule_type": "DNA", "topology": "circular" if spec["circular"] else "linear",
        "data_file_division": head["division"], "date": head["date"],
        "accessions": [head["accession"]], "sequence_version": head["version"],
        "keywords": list(head["keywords"]), "source": head["organism"], "organism": head["organism"],
        "taxonomy": ["Bacteria", "Actinomycetota", "Actinomycetes"],
    }
    if head["reference"]:
        ref = Reference()
        ref.authors = "Verif,A. and Check,B."
        ref.title = "Direct Submission"
        ref.journal = "Submitted (01-JAN-2020) Somewhere"
        ref.location = [FeatureLocation(0, spec["L"])]
        annotations["references"] = [ref]
    if head["comment"]:
        annotations["comment"] = "A comment line.\nAnd a second one."
    bio = SeqRecord(Seq(make_sequence(spec)), id=f"{head['accession']}.{head['version']}", name=head["accession"],
                    description=head["description"], annotations=annotations)
    bio.features.append(SeqFeature(FeatureLocation(0, spec["L"], 1), type="source",
                                   qualifiers={"organism": [head["organism"]], "mol_type": ["genomic DNA"],
                                               "db_xref": ["taxon:1234"]}))
    features = []
    for gene in spec["genes"]:
        loc = _location(gene["parts"], gene["strand"])
        quals = {key: [val] for key, val in gene["ids"].items()}
        if gene["gene_feature"] and ("locus_tag" in quals or "gene" in quals):
            gquals = {k: v for k, v in quals.items() if k in ("locus_tag", "gene")}
            if gene["pseudo"]:
                gquals["pseudo"] = None
            features.append(SeqFeature(loc, type="gene", qualifiers=gquals))
        cquals = dict(quals)
        if gene["product"]:
            cquals["product"] = [gene["product"]]
        if gene["codon_start"] != 1:
            cquals["codon_start"] = [str(gene["codon_start"])]
        cquals["transl_table"] = ["11"]
        if gene["note"]:
            cquals["note"] = list(gene["note"])
        features.append(SeqFeature(loc, type="CDS", qualifiers=cquals))
    for misc in spec["misc"]:
        features.append(SeqFeature(_location(misc["parts"], misc["strand"]), type=misc["type"],
                                   qualifiers={k: list(v) for k, v in misc["quals"].items()}))
    bio.features.extend(features)
    handle = io.StringIO()
    SeqIO.write([bio], handle, "genbank")
    return list(SeqIO.parse(io.StringIO(handle.getvalue()), "genbank"))[0]


class _Hit:
    """ HMMResult-like (the shape NRPSPKSQualifier.add_domain expects) """
    def __init__(self, hit_id, start, end, evalue, bitscore, subtypes):
        self.hit_id = hit_id
        self.query_start = start
        self.query_end = end
        self.evalue = evalue
        self.bitscore = bitscore
        self.detailed_names = [hit_id] + list(subtypes)


def _annotate_cds(record, cds, entry, domain_features):
    for function, tool, description, product in entry["functions"]:
        cds.gene_functions.add(GeneFunction[function], tool, description, product)
    if entry["secmet"]:
        cds.sec_met.add_domains([SecMetQualifier.Domain(*vals) for vals in entry["secmet"]])
    aa = len(cds.translation)
    for pf in entry["pfams"]:
        s, e = pf["s"], min(pf["e"], aa)
        if e - s < 1:
            continue
        pfam = PFAMDomain(cds.get_sub_location_from_protein_coordinates(s, e), pf["desc"], FeatureLocation(s, e),
                          identifier=pf["id"], tool="fullhmmer", locus_tag=cds.get_name(), domain=pf["domain"])
        pfam.domain_id = pf["domain_id"]
        pfam.database = "Pfam-A 35.0"
        pfam.detection = "hmmscan"
        pfam.evalue = pf["evalue"]
        pfam.score = pf["score"]
        pfam.translation = cds.translation[s:e]
        if pf["go"]:
            pfam.gene_ontologies = GOQualifier(dict(pf["go"]))
        record.add_pfam_domain(pfam)
    counts: dict = {}
    for index, dom in enumerate(entry["asdomains"]):
        s, e = dom["s"], min(dom["e"], aa)
        if e - s < 1:
            continue
        loc = cds.get_sub_location_from_protein_coordinates(s, e)
        if dom["kind"] == "modular":
            feature = ModularDomain(loc, protein_location=FeatureLocation(s, e), locus_tag=cds.get_name())
            feature.domain = dom["hit"]
            feature.subtypes = list(dom["subtypes"])
            feature.specificity = list(dom["specificity"])
            feature.detection = "hmmscan"
            feature.database = "nrpspksdomains.hmm"
            counts[dom["hit"]] = counts.get(dom["hit"], 0) + 1
            name = f"{cds.get_name()}_{dom['hit']}.{counts[dom['hit']]}"
            feature.domain_id = "nrpspksdomains_" + name
            feature.label = name
            cds.nrps_pks.add_domain(_Hit(dom["hit"], s, e, dom["evalue"], dom["score"], dom["subtypes"]),
                                    feature.domain_id)
        else:
            feature = AntismashDomain(loc, dom["tool"], FeatureLocation(s, e), cds.get_name(), domain=dom["domain"])
            feature.domain_id = f"{dom['tool']}_{cds.get_name()}_{index:04d}"
            feature.label = dom["label"]
        feature.evalue = dom["evalue"]
        feature.score = dom["score"]
        feature.translation = cds.translation[s:e]
        for hit in dom["asf"]:
            feature.asf.add(hit)
        record.add_antismash_domain(feature)
        domain_features[(cds.get_name(), index)] = feature
    if entry["nrps_type"] and cds.nrps_pks:
        cds.nrps_pks.type = entry["nrps_type"]
    for index, mot in enumerate(entry["motifs"]):
        s, e = mot["s"], min(mot["e"], aa)
        if e - s < 1:
            continue
        motif = CDSMotif(cds.get_sub_location_from_protein_coordinates(s, e), cds.get_name(),
                         FeatureLocation(s, e), tool="nrps_pks_domains")
        motif.label = mot["label"]
        motif.domain_id = f"nrpspksmotif_{cds.get_name()}_{index + 1:04d}"
        motif.evalue = mot["evalue"]
        motif.score = mot["score"]
        motif.detection = "hmmscan"
        motif.database = "abmotifs"
        motif.translation = cds.translation[s:e]
        record.add_cds_motif(motif)
        cds.motifs.append(motif)
    pre = entry["prepeptide"]
    if pre and aa >= pre["leader"] + pre["tail"] + 1:
        text = cds.translation
        leader = text[:pre["leader"]]
        tail = text[aa - pre["tail"]:] if pre["tail"] else ""
        core = text[pre["leader"]:aa - pre["tail"]]
        record.add_cds_motif(Prepeptide(cds.location, pre["class"], core, cds.get_name(), "verif_ripp",
                                        peptide_subclass=pre["subclass"], score=pre["score"],
                                        monoisotopic_mass=pre["mono"], molecular_weight=pre["weight"],
                                        alternative_weights=pre["alt"], leader=leader, tail=tail))


PENDING_MODULES: list = []


def build_from_spec(spec: dict) -> Record:
    del PENDING_MODULES[:]
    quiet()
    record = Record.from_biopython(make_input(spec), taxon="bacteria")
    record.record_index = 1
    return annotate(record, spec)


def reannotation_spec(spec: dict) -> dict:
    """ the same input record with another run's annotations (other protoclusters, functions, domains ...) """
    import copy
    other = copy.deepcopy(spec)
    other.pop("_hold_modules", None)
    rng = random.Random(spec["seq_seed"] * 7 + 3)
    _gen_annotations(rng, other, True)
    other["candidate_structures"] = list(reversed(spec.get("candidate_structures", [])))
    return other


ONE_CODON_GENE = "VF_onecodon"


def _add_one_codon_gene(record: Record, spec: dict) -> None:
    """ every fourth record gets a gene of a single codon, as a gene finder leaves at the very edge of a contig
        (`CDS 598..>600`): the smallest gene the record accepts. Placed by the sequence seed, without a draw. """
    if spec["seq_seed"] % 4 or spec["L"] < 30:
        return
    try:
        record.get_cds_by_name(ONE_CODON_GENE)
        return      # (a record read from an earlier output has it already)
    except KeyError:
        pass
    start = spec["L"] - 3 if not spec["circular"] else (spec["seq_seed"] // 4) % (spec["L"] - 3)
    location = FeatureLocation(start, start + 3, 1)
    amino = str(location.extract(record.seq).translate(table=11))
    if amino in ("*", "X", ""):
        return
    record.add_cds_feature(CDSFeature(location, locus_tag=ONE_CODON_GENE, translation=amino))


def annotate(record: Record, spec: dict) -> Record:
    """ adds the annotations of the spec to a record that holds the spec's genes and nothing of antiSMASH's """
    _add_one_codon_gene(record, spec)
    by_name = {}
    for gene in spec["genes"]:
        by_name[gene["name"]] = record.get_cds_by_name(gene["name"])
    ordered = [by_name[g["name"]] for g in spec["genes"]]
    # protocluster definitions need CORE gene functions before the protocluster exists
    for proto in spec["protoclusters"]:
        lo, hi = proto["core_genes"]
        idx = list(range(lo, hi + 1)) if lo <= hi else list(range(lo, len(ordered))) + list(range(0, hi + 1))
        proto["_idx"] = idx
        if proto["sideloaded"]:
            continue
        marks = {"ends": {idx[0], idx[-1]}, "first": {idx[0]}, "all": set(idx)}[proto["core_marks"]]
        for i in sorted(marks):
            ordered[i].gene_functions.add(GeneFunction.CORE, "rule-based-clusters",
                                          f"{proto['product']}: {proto['rule'][:20]}", proto["product"])
    domain_features: dict = {}
    for gene in spec["genes"]:
        _annotate_cds(record, by_name[gene["name"]], spec["cds"][gene["name"]], domain_features)
    for mod in spec["modules"]:
        domains = [domain_features[(name, i)] for name, i in mod["members"] if (name, i) in domain_features]
        if len(domains) < 1 or len({d.location.strand for d in domains}) != 1:
            continue
        location = record.connect_locations([dom.location for dom in domains])
        module = Module(location, domains, module_type=ModuleType.from_string(mod["type"]), complete=mod["complete"],
                        starter=mod["starter"], final=mod["final"], iterative=mod["iterative"])
        for substrate, monomer in mod["monomers"]:
            module.add_monomer(substrate, monomer)
        if spec.get("_hold_modules"):
            PENDING_MODULES.append(module)      # the caller adds them later (after a first conversion of the record)
        else:
            record.add_module(module)
    for proto in spec["protoclusters"]:
        core = record.connect_locations([ordered[i].location for i in proto["_idx"]])
        core = _forward(core)
        extent = _forward(record.extend_location(core, proto["nb"]))
        if len(core.parts) > len(extent.parts):
            extent = core        # the neighbourhood closed the ring: antiSMASH rejects such a protocluster
        if proto["sideloaded"]:
            if len(core.parts) == 1:
                core = FeatureLocation(int(core.start), int(core.end))
            if len(extent.parts) == 1:
                extent = FeatureLocation(int(extent.start), int(extent.end))
            feature = SideloadedProtocluster(core, extent, proto["tool"], proto["product"],
                                             neighbourhood_range=proto["nb"],
                                             extra_qualifiers={k: list(v) for k, v in proto["extra"].items()})
        else:
            feature = Protocluster(core, extent, proto["tool"], proto["product"], proto["cutoff"],
                                   proto["nb"], proto["rule"], product_category=proto["category"])
            if proto["t2pks"]:
                t2 = proto["t2pks"]
                feature.t2pks = T2PKSQualifier(list(t2["starters"]), list(t2["elongations"]), list(t2["classes"]),
                                               dict(t2["weights"]))
            feature.notes.extend(proto["notes"])
        if any(other.product == feature.product and str(other.location) == str(feature.location)
               and str(other.core_location) == str(feature.core_location) for other in record.get_protoclusters()):
            continue        # different gene ranges, same hull: one rule never gives the same protocluster twice
        record.add_protocluster(feature)
    for proto in spec["protoclusters"]:
        proto.pop("_idx", None)
    for sub in spec["subregions"]:
        if "genes" in sub:
            lo, hi = sub["genes"]
            loc = _forward(record.connect_locations([ordered[i].location for i in range(lo, hi + 1)]))
        elif sub["range"][0] < sub["range"][1]:
            loc = FeatureLocation(sub["range"][0], sub["range"][1], 1)
        else:
            loc = CompoundLocation([FeatureLocation(sub["range"][0], spec["L"], 1), FeatureLocation(0, sub["range"][1], 1)])
        label = sub["label"]
        if any(int(other.location.start) == int(loc.start) and int(other.location.end) == int(loc.end)
               and other.label == label for other in record.get_subregions()):
            label = f"{label}_{len(record.get_subregions())}"       # same place, same label: keep them tellable apart
        sub = dict(sub, label=label)
        if sub["sideloaded"]:
            if len(loc.parts) == 1:
                loc = FeatureLocation(int(loc.start), int(loc.end))     # strandless, as the sideloader builds it
            feature = SideloadedSubRegion(loc, sub["tool"], label=sub["label"],
                                          extra_qualifiers={k: list(v) for k, v in sub["extra"].items()})
        else:
            feature = SubRegion(loc, sub["tool"], label=sub["label"])
        record.add_subregion(feature)
    record.create_candidate_clusters()
    # structure predictions (as the nrps_pks module attaches them): some candidates have them, others do not, and
    # one without follows one with
    for candidate, structure in zip(record.get_candidate_clusters(), spec.get("candidate_structures", [])):
        if structure is not None:
            candidate.smiles_structure, candidate.polymer = structure
    record.create_regions()
    return record


def _forward(location):
    """ forward-strand copy of a hull (area features are always forward; origin-spanning: pre-origin part first) """
    parts = [FeatureLocation(int(p.start), int(p.end), 1) for p in location.parts]
    if len(parts) == 1:
        return parts[0]
    assert len(parts) == 2, location
    parts.sort(key=lambda p: -p.start)
    return CompoundLocation(parts)


def build(rng: random.Random, **kwargs) -> Record:
    global LAST_SPEC
    LAST_SPEC = gen_spec(rng, **kwargs)
    return build_from_spec(LAST_SPEC)


def _structure_then_none(record) -> bool:
    seen = False
    for cand in record.get_candidate_clusters():
        if cand.smiles_structure:
            seen = True
        elif seen:
            return True
    return False


def _split_numbering(record) -> bool:
    """ an origin-crossing region whose candidates (or subregions) hold the lowest and the highest numbers of the
        record while another region owns numbers in between """
    if len(record.get_regions()) < 2:
        return False
    for region in record.get_regions():
        if not region.crosses_origin():
            continue
        for numbers in (sorted(c.get_candidate_cluster_number() for c in region.candidate_clusters),
                        sorted(sub.get_subregion_number() for sub in region.subregions)):
            if numbers and numbers != list(range(numbers[0], numbers[-1] + 1)):
                return True
    return False


def facts(record) -> dict:
    """ structural facts of a built record (for counters and violation facts) """
    kinds = sorted({str(c.kind) for c in record.get_candidate_clusters()})
    protos = record.get_protoclusters()
    proto_locs = [str(p.location) for p in protos]
    cand_locs = [str(c.location) for c in record.get_candidate_clusters()]
    return {
        "circular": record.is_circular(),
        "genes": len(record.get_cds_features()),
        "bridging_genes": sum(1 for c in record.get_cds_features() if c.location.crosses_origin()),
        "one_codon_genes": sum(1 for c in record.get_cds_features() if len(c.location) == 3),
        "codon_start_genes": sum(1 for c in record.get_cds_features() if c._original_codon_start not in (None, 0)),
        "multi_exon_genes": sum(1 for c in record.get_cds_features() if len(c.location.parts) > 1),
        "protoclusters": len(protos),
        "sideloaded_protoclusters": sum(1 for p in protos if isinstance(p, SideloadedProtocluster)),
        "identical_protocluster_locations": len(proto_locs) - len(set(proto_locs)),
        "candidates": len(cand_locs), "candidate_kinds": kinds,
        "identical_candidate_locations": len(cand_locs) - len(set(cand_locs)),
        "subregions": len(record.get_subregions()),
        "sideloaded_subregions": sum(1 for s in record.get_subregions() if isinstance(s, SideloadedSubRegion)),
        "regions": len(record.get_regions()),
        "same_span_genes_on_both_strands": len({(int(c.location.start), int(c.location.end)) for c in record.get_cds_features()})
        < len(record.get_cds_features()),
        "candidates_with_structure": sum(1 for c in record.get_candidate_clusters() if c.smiles_structure),
        "candidate_without_structure_after_one_with": _structure_then_none(record),
        "origin_region_with_split_numbering": _split_numbering(record),
        "max_candidates_per_region": max([len(r.candidate_clusters) for r in record.get_regions()] or [0]),
        "bridging_areas": sum(1 for f in list(protos) + list(record.get_candidate_clusters())
                              + list(record.get_subregions()) + list(record.get_regions()) if f.crosses_origin()),
        "pfams": len(record.get_pfam_domains()), "asdomains": len(record.get_antismash_domains()),
        "motifs": sum(1 for m in record.get_cds_motifs() if not isinstance(m, Prepeptide)),
        "external_motifs": sum(1 for m in record.get_cds_motifs() if type(m).__name__ == "ExternalCDSMotif"),
        "prepeptides": sum(1 for m in record.get_cds_motifs() if isinstance(m, Prepeptide)),
        "modules": len(record.get_modules()),
        "multi_cds_modules": sum(1 for m in record.get_modules() if m.is_multigene_module()),
    }
