"""Layout-only worlds: records with genes (DummyCDS: translation checks bypassed) and areas."""
from __future__ import annotations

from antismash.common.secmet.features import SubRegion
from antismash.common.secmet.features.protocluster import Protocluster
from antismash.common.secmet.locations import CompoundLocation, FeatureLocation
from antismash.common.secmet.qualifiers.gene_functions import GeneFunction
from antismash.common.secmet.test.helpers import DummyCDS, DummyRecord

from vf.gen import locs as G
from vf.models import ring


def make_record(length: int, circular: bool):
    rec = DummyRecord(seq="A" * length, circular=circular)
    return rec


def make_cds(name: str, loc_case: dict, core_products=()):
    cds = DummyCDS(location=G.from_case(loc_case), locus_tag=name)
    for product in core_products:
        # the text of the product as a rule run, a results file or a GenBank file hands it over: equal to the
        # protocluster's, not the same object
        cds.gene_functions.add(GeneFunction.CORE, "verif", "core gene", product[:1] + product[1:])
    return cds


def arc(start: int, arc_len: int, length: int, circular: bool):
    """ forward-strand area location starting at start with arc_len bases """
    ivs = ring.arc_to_intervals(start % length, arc_len, length) if circular else [(start, min(length, start + arc_len))]
    if len(ivs) == 1:
        return FeatureLocation(ivs[0][0], ivs[0][1], 1)
    return CompoundLocation([FeatureLocation(s, e, 1) for s, e in ivs])


def loc_from_intervals(ivs):
    if len(ivs) == 1:
        return FeatureLocation(ivs[0][0], ivs[0][1], 1)
    return CompoundLocation([FeatureLocation(s, e, 1) for s, e in ivs])


def make_protocluster(core_ivs, extent_ivs, product: str, cutoff: int = 10, neighbourhood: int = 10,
                      rule: str = "rule", category: str = "cat", sideloaded: bool = False):
    if sideloaded:
        # as the sideloader builds them: no detection rule, never any defining gene
        from antismash.common.secmet.features.protocluster import SideloadedProtocluster
        return SideloadedProtocluster(loc_from_intervals(core_ivs), loc_from_intervals(extent_ivs), "verif-side", product,
                                      neighbourhood_range=neighbourhood)
    return Protocluster(loc_from_intervals(core_ivs), loc_from_intervals(extent_ivs), "verif", product,
                        cutoff, neighbourhood, rule, product_category=category)


def make_subregion(extent_ivs, label: str = "sub"):
    return SubRegion(loc_from_intervals(extent_ivs), tool="verif", label=label)


def rand_gene_layout(rng, length: int, circular: bool, count: int, max_gene: int, dense: bool = False,
                     max_exons: int = 2, bridge_p: float = 0.15) -> list[dict]:
    """ distinct well-formed gene locations, incl. nested, identical start, overlapping """
    seen = set()
    genes = []
    anchors = []
    for _ in range(count * 3):
        if len(genes) >= count:
            break
        if anchors and dense and rng.random() < 0.5:
            # derive from an existing gene: same start, nested, or overlapping its end
            s, e = rng.choice(anchors)
            kind = rng.choice(["same-start", "nested", "overlap-end", "touch"])
            if kind == "same-start":
                ns, ne = s, min(length, s + rng.randrange(1, max_gene + 1))
            elif kind == "nested" and e - s >= 3:
                ns = rng.randrange(s, e - 1)
                ne = rng.randrange(ns + 1, e + 1)
            elif kind == "overlap-end":
                ns = rng.randrange(s, e)
                ne = min(length, e + rng.randrange(0, max_gene))
            else:
                ns, ne = e, min(length, e + rng.randrange(1, max_gene + 1))
            if ne <= ns:
                continue
            loc = G.mk([(ns, ne)], rng.choice([1, -1]))
        else:
            loc = G.rand_location(rng, length, circular, max_exons=max_exons, bridge_p=bridge_p, max_span=max_gene)
        key = str(loc)
        if key in seen:
            continue
        seen.add(key)
        case = G.to_case(loc)
        genes.append(case)
        if len(case["parts"]) == 1:
            anchors.append(tuple(case["parts"][0]))
    return genes
