"""World generator for pipeline workloads: record + genes + profile hits + rules, driven through the real
detect_protoclusters_and_signatures with DynamicProfile callables (no HMMER binary needed).

A world is a JSON-able dict:
  L, circular, genes {name: {"loc": {parts, strand}}}, hits {gene: {profile: score}},
  rules [{"name","cutoff_kb","nb_kb","ast","superiors":[..],"extenders": ast|None}], multipliers [c, n]
"""
from __future__ import annotations

import json
import logging
import zlib

from antismash.common.hmm_rule_parser import cluster_prediction as CP
from antismash.common.hmm_rule_parser import rule_parser as RP
from antismash.common.hmm_rule_parser.structures import DynamicHit, DynamicProfile, Multipliers
from antismash.common.secmet.test.helpers import DummyCDS, DummyRecord

from vf.gen import locs as G
from vf.gen import rules as RG
from vf.models import rules_ref as R

PROFILES = ["a", "b", "c", "d", "e"]
SIMPLE_CONDITIONS = [["id", "a"], ["id", "b"], ["id", "c"], ["and", [["id", "a"], ["id", "b"]]],
                     ["or", [["id", "a"], ["id", "c"]]], ["and", [["id", "b"], ["not", ["id", "c"]]]],
                     ["cds", ["and", [["id", "a"], ["id", "b"]]]], ["min", 2, ["a", "b", "c"]],
                     ["score", "d", 20], ["or", [["id", "d"], ["id", "e"]]],
                     # three genes have to cooperate: the gene in the middle has helpers on both sides
                     ["and", [["id", "a"], ["id", "b"], ["id", "c"]]], ["min", 3, ["a", "b", "c", "d"]]]


def gen_world(rng, circular=None, simple_rules: float = 0.6, max_genes: int = 12, allow_extenders: bool = True,
              allow_superiors: bool = True, allow_multipliers: bool = True, lengths=None, nb_choices=None):
    cut_choices = rng.choice([[1, 2, 3], [2, 20], [1, 5], [3], [1, 2], [2, 10, 3]])
    length = rng.choice(lengths or [1500, 3000, 4000, 6000, 8000, 10000, 12000, 20000, 60000])
    if circular is None:
        circular = rng.random() < 0.6
    # rules
    rules = []
    n_rules = rng.randrange(1, 6)
    for j in range(n_rules):
        if rng.random() < simple_rules:
            ast = rng.choice(SIMPLE_CONDITIONS)
        else:
            ast = RG.gen_ast(rng, PROFILES, rng.choice([1, 2, 3]))
            for _ in range(10):
                if R.has_positive(ast):
                    break
                ast = RG.gen_ast(rng, PROFILES, rng.choice([1, 2]))
            if not R.has_positive(ast):
                ast = ["id", "a"]
        rule = {"name": f"r{j}", "cutoff_kb": rng.choice(cut_choices), "ast": ast,
                "nb_kb": rng.choice(nb_choices or [1, 1, 2, 5, 20, 100]), "superiors": [], "extenders": None}
        if allow_superiors and rules and rng.random() < 0.3:
            sup = rng.choice(rules)
            rule["superiors"] = sorted({sup["name"], *sup["superiors"]})  # the parser closes transitively
            rule["superiors_listed"] = [sup["name"]]
        if allow_extenders and rng.random() < 0.2:
            if rng.random() < 0.5:
                rule["extenders"] = ["id", rng.choice(PROFILES)]
            else:
                x, y = rng.sample(PROFILES, 2)
                rule["extenders"] = ["cds", [rng.choice(["and", "or"]), [["id", x], ["id", y]]]]
        rules.append(rule)
    # the stale-flag shape: same cutoff first and last with another in between
    if len(rules) >= 3 and rng.random() < 0.3:
        rules[-1]["cutoff_kb"] = rules[0]["cutoff_kb"]
    cutoffs = sorted({r["cutoff_kb"] * 1000 for r in rules})
    # genes on a coarse grid, gaps at boundary distances
    genes = {}
    count = rng.randrange(2, max_genes + 1)
    prev_end = None
    used = set()
    for i in range(count):
        glen = rng.choice([200, 300, 500, 900])
        cutoff = rng.choice(cutoffs)
        if prev_end is not None and rng.random() < 0.6:
            gap = rng.choice([0, 1, cutoff - 1, cutoff, cutoff + 1, cutoff // 2, 100, -50])
            start = prev_end + gap
        else:
            start = rng.randrange(0, max(1, (length - glen) // 100)) * 100
        strand = rng.choice([1, -1])
        if circular and rng.random() < 0.1 and length > 2 * glen:
            pre = rng.choice([100, glen - 100])
            parts = [[length - pre, length], [0, glen - pre]]
            end = glen - pre
        else:
            if circular:
                start %= length
            if start < 0 or start + glen > length:
                if circular and 0 <= start < length and length > 2 * glen:
                    parts = [[start, length], [0, start + glen - length]]
                    end = start + glen - length
                else:
                    continue
            else:
                parts = [[start, start + glen]]
                end = start + glen
                if glen >= 300 and rng.random() < 0.12:
                    # exons with an intron (the span stays the same): two or three parts, not crossing the origin
                    parts = [[start, start + 90], [start + glen - 120, start + glen]]
                    if glen >= 500 and rng.random() < 0.5:
                        parts.insert(1, [start + 150, start + 240])
        key = str(parts)
        if key in used:
            continue
        used.add(key)
        genes[f"g{i}"] = {"loc": {"parts": parts, "strand": strand}}
        prev_end = end
    if circular and rng.random() < 0.35:
        cutoff = rng.choice(cutoffs)
        gap = rng.choice([cutoff - 1, cutoff, cutoff + 1, cutoff // 3, 200])
        a = gap // 2
        b = length - (gap - a)
        for name, (s, e) in (("w0", (a, a + 300)), ("w1", (b - 300, b))):
            if 0 <= s < e <= length and str([[s, e]]) not in used:
                used.add(str([[s, e]]))
                genes[name] = {"loc": {"parts": [[s, e]], "strand": 1}}
    density = rng.choice([0.25, 0.4, 0.6])
    hits = {}
    for name in genes:
        hs = {p: rng.choice([10, 20, 30, 50]) for p in PROFILES if rng.random() < density}
        if hs:
            hits[name] = hs
    # a second gene over the origin with the hits of the first (both anchor whatever either anchors): genes over the
    # origin all overlap there. Added to every other world that has one, chosen from the world itself (no draw).
    crossers = [name for name, gene in genes.items() if len(gene["loc"]["parts"]) == 2 and gene["loc"]["parts"][0][1] == length
                and gene["loc"]["parts"][1][0] == 0 and name in hits]
    if circular and crossers and zlib.crc32(json.dumps(genes, sort_keys=True).encode()) % 2 == 0:
        first = genes[crossers[0]]["loc"]["parts"]
        pre = (length - first[0][0]) // 2 + 50
        post = first[1][1] + 150
        parts = [[length - pre, length], [0, post]]
        if str(parts) not in used and post < length - pre:
            genes["x0"] = {"loc": {"parts": parts, "strand": -genes[crossers[0]]["loc"]["strand"]}}
            hits["x0"] = dict(hits[crossers[0]])
    mult = [1.0, 1.0]
    if allow_multipliers and rng.random() < 0.15:
        mult = [rng.choice([0.5, 1.5, 1.0]), rng.choice([0.1, 0.5, 2.0])]
    return {"L": length, "circular": circular, "genes": genes, "hits": hits, "rules": rules, "multipliers": mult}


def rule_text(rule) -> str:
    parts = [f"RULE {rule['name']} CATEGORY cat"]
    listed = rule.get("superiors_listed") or rule.get("superiors")
    if listed:
        parts.append("SUPERIORS " + ", ".join(listed))
    parts.append(f"CUTOFF {rule['cutoff_kb']} NEIGHBOURHOOD {rule['nb_kb']}")
    parts.append("CONDITIONS " + RG.render(rule["ast"]))
    if rule.get("extenders"):
        parts.append("EXTENDERS " + RG.render(rule["extenders"]))
    return " ".join(parts)


def parse_rules(world):
    text = "\n".join(rule_text(r) for r in world["rules"])
    return RP.Parser(text, set(PROFILES), {"cat"}).rules


def build_record(world):
    record = DummyRecord(seq="A" * world["L"], circular=world["circular"])
    for name, gene in world["genes"].items():
        location = G.from_case(gene["loc"])
        if name.isidentifier():
            record.add_cds_feature(DummyCDS(location=location, locus_tag=name))
        else:
            # a name that the feature has to clean: the real class does that (the test double insists on clean names)
            from antismash.common.secmet.features import CDSFeature
            record.add_cds_feature(CDSFeature(location, locus_tag=name, translation="M" * max(1, len(location) // 3)))
    return record


def hmmer_hits_of(world, hmm_names):
    """ what find_hmmer_hits would return for the profiles played by HMMs """
    from antismash.common.hmm_rule_parser.structures import HMMerHit
    return {g: [HMMerHit(g, p, 0, 30, 10, 1e-5, float(score)) for p, score in hs.items() if p in hmm_names]
            for g, hs in world["hits"].items() if any(p in hmm_names for p in hs)}


def build_ruleset(world, rules=None, order=None, hmm_names=()):
    """ hmm_names: profiles that are HMM signatures instead of dynamic profiles (the caller supplies their hits by
        standing in for find_hmmer_hits, see hmmer_hits_of) """
    rules = list(rules if rules is not None else parse_rules(world))
    if order is not None:
        by_name = {r.name: r for r in rules}
        rules = [by_name[n] for n in order]
    hits = world["hits"]

    def make(profile):
        def detect(_record, _hmmer_hits, profile=profile):
            return {g: [DynamicHit(g, profile, bitscore=float(hs[profile]), evalue=1e-5)]
                    for g, hs in hits.items() if profile in hs}
        return DynamicProfile(profile, "generated", detect)
    mult = world.get("multipliers", [1.0, 1.0])
    signatures = {}
    if hmm_names:
        from antismash.common.signature import HmmSignature
        signatures = {p: HmmSignature(p, "generated", 0, "generated.hmm") for p in PROFILES if p in hmm_names}
    return CP.Ruleset(tuple(rules), signatures, "", {"cat"}, "verif-tool",
                      multipliers=Multipliers(cutoff=mult[0], neighbourhood=mult[1]),
                      dynamic_profiles={p: make(p) for p in PROFILES if p not in hmm_names}, equivalence_groups=[])


def quiet():
    logging.disable(logging.CRITICAL)
