"""Generators of hostile profile-hit multisets for C13 (plain JSON-able data, no antiSMASH imports).

Coordinates come from a coarse grid plus shapes built relative to an earlier hit, so that equal
starts, equal scores, nesting, chains with rising scores, overlaps exactly at / one beside the
margin and same-profile fragments around the 1.5 x model merge limit are frequent, not accidental.
"""
from __future__ import annotations

import itertools

MODEL_POOL = [("A20", 20), ("B50", 50), ("C100", 100), ("D20", 20), ("E50", 50), ("R_regulator", 100)]
LENGTH_CHOICES = [5, 10, 15, 25, 40, 60, 100]
SCORES = [10.0, 20.0, 30.0, 40.0]

EXH_GRID = [0, 5, 10, 20, 30, 50]


def evalue_of(score: float) -> float:
    return 10.0 ** (-score)


def _new_hit(rng, profiles, lengths, existing):
    """ -> [profile, start, end] """
    shape = rng.choice(["grid", "grid", "tie", "nest", "chain", "fragment", "edge"]) if existing else "grid"
    prof = rng.choice(profiles)
    if shape == "grid":
        start = rng.randrange(0, 20) * 5
        return [prof, start, start + rng.choice(LENGTH_CHOICES)]
    ref = rng.choice(existing)
    rprof, rstart, rend = ref[0], ref[1], ref[2]
    if shape == "tie":
        return [prof, rstart, rstart + rng.choice(LENGTH_CHOICES)]
    if shape == "nest":
        if rend - rstart < 2:
            return [prof, rstart, rend]
        start = rng.randrange(rstart, rend - 1)
        return [prof, start, rng.randrange(start + 1, rend + 1)]
    if shape == "chain":
        # start so that the overlap with ref is margin-1, margin, margin+1 (margin of either model) or coarse
        margins = [int(0.2 * lengths[prof]), int(0.2 * lengths[rprof]), 5, 10, 0]
        overlap = max(0, rng.choice(margins) + rng.choice([-1, 0, 1]))
        start = max(rstart, rend - overlap)
        return [prof, start, start + rng.choice(LENGTH_CHOICES)]
    if shape == "fragment":
        # same profile, span to ref's start around the merge limit, or a small gap behind it
        limit = int(1.5 * lengths[rprof])
        if rng.random() < 0.5:
            end = rstart + limit + rng.choice([-6, -1, 0, 1, 5])
            start = max(rstart, min(end - 1, rend + rng.choice([-5, 0, 5, 10])))
            if end <= start:
                end = start + 5
        else:
            start = rend + rng.choice([-5, -1, 0, 1, 5, 10])
            start = max(rstart, start)
            end = start + rng.choice([5, 10, 15, 25])
        return [rprof, start, end]
    # edge: completeness boundary (0.5 and 1/3 of the model)
    start = rng.randrange(0, 20) * 5
    size = rng.choice([lengths[prof] // 2 - 1, lengths[prof] // 2, lengths[prof] // 2 + 1,
                       lengths[prof] // 3, lengths[prof] // 3 + 1])
    return [prof, start, start + max(1, size)]


def refine_case(rng):
    """ {"fn": "refine", "mode": bool, "lengths": {...}, "hsps": [[gene, profile, start, end, score, evalue]...],
         "split": [...sizes of the QueryResult objects...], "perm_seed": int, "real": bool} """
    count = rng.randrange(2, 5)
    pool = MODEL_POOL[:-1] if rng.random() < 0.93 else MODEL_POOL
    chosen = rng.sample(pool, count)
    lengths = dict(chosen)
    profiles = [name for name, _ in chosen]
    genes = ["g1"] if rng.random() < 0.85 else ["g1", "g2"]
    score_style = rng.choice(["few", "few", "rising", "distinct"])
    hsps = []
    for gene in genes:
        placed = []
        for idx in range(rng.choice([1, 2, 2, 3, 3, 4, 4, 5, 5, 6, 7, 8])):
            hit = _new_hit(rng, profiles, lengths, placed)
            if score_style == "few":
                score = rng.choice(SCORES)
            elif score_style == "rising":
                score = 10.0 + 5 * idx
            else:
                score = float(rng.randrange(5, 200))
            evalue = evalue_of(score) if rng.random() < 0.9 else evalue_of(rng.choice(SCORES))
            placed.append(hit + [score, evalue])
        if score_style == "rising" and rng.random() < 0.5:
            placed.sort(key=lambda h: h[1])
            for idx, hit in enumerate(placed):
                hit[3] = 10.0 + 5 * idx
                hit[4] = evalue_of(hit[3])
        hsps.extend([gene] + hit for hit in placed)
    # exact duplicates are legal input (the code gathers into a set)
    if rng.random() < 0.05:
        hsps.append(list(rng.choice(hsps)))
    rng.shuffle(hsps)
    split, left = [], len(hsps)
    while left:
        size = rng.randrange(1, left + 1) if rng.random() < 0.6 else left
        split.append(size)
        left -= size
    return {"fn": "refine", "mode": rng.random() < 0.5, "lengths": lengths, "hsps": hsps, "split": split,
            "perm_seed": rng.randrange(1 << 30), "real": rng.random() < 0.08}


def restart_then_merge_case(rng):
    """ one profile with an early hit too far from the rest to be the same domain, followed by two (or three)
        fragments that are one domain; the later fragments score no higher than the first of them (or do) """
    name, length = rng.choice([m for m in MODEL_POOL if m[1] >= 50])
    gap = int(1.5 * length) + rng.choice([0, 5, 60])
    early_len = rng.choice([int(0.4 * length), int(0.7 * length)])
    first = gap + early_len
    piece = int(rng.choice([0.45, 0.6]) * length)      # each fragment on its own incomplete, or complete
    fragments = [[name, 0, early_len, float(rng.choice([20, 30, 60]))]]
    scores = [float(rng.choice([50, 40])), float(rng.choice([20, 50, 60]))]
    fragments.append([name, first, first + piece, scores[0]])
    fragments.append([name, first + piece + rng.choice([0, 5]), first + 2 * piece + rng.choice([0, 5]), scores[1]])
    if rng.random() < 0.3:
        fragments.append([name, first + 2 * piece + 8, first + 2 * piece + 8 + int(0.2 * length), float(rng.choice([10, 50]))])
    lengths = {name: length}
    hsps = [["g1"] + frag + [evalue_of(frag[3])] for frag in fragments]
    if rng.random() < 0.4:
        other, other_len = rng.choice([m for m in MODEL_POOL if m[0] != name])
        lengths[other] = other_len
        start = rng.choice([first - 10, first + piece, 10])
        hsps.append(["g1", other, start, start + int(0.8 * other_len), float(rng.choice([30, 55])), evalue_of(30.0)])
    rng.shuffle(hsps)
    return {"fn": "refine", "mode": rng.random() < 0.3, "lengths": lengths, "hsps": hsps, "split": [len(hsps)],
            "perm_seed": rng.randrange(1 << 30), "real": False}


def exhaustive_refine_universe(profiles, scores):
    """ every hit on the 6-point grid for the given (name, model length) profiles and scores """
    universe = []
    for (name, _), (i, j), score in itertools.product(profiles, itertools.combinations(range(len(EXH_GRID)), 2),
                                                      scores):
        universe.append(["g1", name, EXH_GRID[i], EXH_GRID[j], score, evalue_of(score)])
    return universe


def hmmer_case(rng):
    count = rng.randrange(2, 5)
    idents = ["PF%05d" % i for i in rng.sample(range(1, 9), count)]
    cutoffs = {ident: rng.choice([10.0, 20.0, 25.0]) for ident in idents}
    limit = rng.choice([1, 5, 10, 10, 10, 20])
    hits = []
    for _ in range(rng.choice([1, 2, 3, 3, 4, 4, 5, 5, 6, 7, 8])):
        shape = rng.choice(["grid", "grid", "tie", "nest", "chain", "long"]) if hits else "grid"
        ident = rng.choice(idents)
        if shape == "grid":
            start = rng.randrange(0, 20) * 5
            end = start + rng.choice(LENGTH_CHOICES)
        elif shape == "long":
            start = rng.randrange(0, 6) * 5
            end = start + rng.choice([100, 150, 200])
        else:
            ref = rng.choice(hits)
            if shape == "tie":
                start = ref[1]
                end = start + rng.choice(LENGTH_CHOICES)
            elif shape == "nest" and ref[2] - ref[1] >= 2:
                start = rng.randrange(ref[1], ref[2] - 1)
                end = rng.randrange(start + 1, ref[2] + 1)
            else:
                overlap = max(0, limit + rng.choice([-1, 0, 1, 5]))
                start = max(ref[1], ref[2] - overlap)
                end = start + rng.choice(LENGTH_CHOICES)
        hits.append([ident, start, end, rng.choice(SCORES)])
    if rng.random() < 0.05:
        hits.append(list(rng.choice(hits)))
    rng.shuffle(hits)
    return {"fn": "hmmer", "hits": hits, "cutoffs": cutoffs, "limit": limit, "perm_seed": rng.randrange(1 << 30)}


def filter_case(rng):
    """ profile hits per gene as hmmsearch reports them: [gene, profile, hit_start, hit_end, bitscore] """
    profiles = ["P1", "P2", "P3", "P4", "P5"][:rng.randrange(2, 6)]
    groups = rng.choice([[["P1", "P2"]], [["P1", "P2", "P3"]], [["P1", "P2"], ["P3", "P4"]],
                         [["P1", "P2"], ["P2", "P3"]], []])
    score_style = rng.choice(["few", "distinct", "distinct"])
    hits = []
    for gene in ["g1", "g2", "g3"][:rng.choice([1, 1, 2, 3])]:
        placed = []
        if rng.random() < 0.12:
            # a chain a-x-y-b in which only neighbours overlap by more than 20 (groups that get bridged)
            base = rng.randrange(0, 10) * 10
            for start, end in ((0, 40), (15, 70), (45, 110), (85, 130)):
                score = rng.choice([10.0, 20.0, 30.0]) if score_style == "few" else float(rng.randrange(5, 500))
                placed.append([rng.choice(profiles), base + start, base + end, score])
        for _ in range(rng.choice([1, 2, 2, 3, 3, 4, 5, 6])):
            shape = rng.choice(["grid", "grid", "chain", "nest", "same"]) if placed else "grid"
            if shape == "grid":
                start = rng.randrange(0, 15) * 10
                end = start + rng.choice([10, 20, 21, 30, 40, 60, 120])
            else:
                ref = rng.choice(placed)
                if shape == "chain":
                    start = max(ref[1], ref[2] - rng.choice([19, 20, 21, 25, 40]))
                    end = start + rng.choice([21, 30, 40, 60])
                elif shape == "nest" and ref[2] - ref[1] > 25:
                    start = rng.randrange(ref[1], ref[2] - 22)
                    end = rng.randrange(start + 21, ref[2] + 1)
                else:
                    start, end = ref[1], ref[2]
            score = rng.choice([10.0, 20.0, 30.0]) if score_style == "few" else float(rng.randrange(5, 500))
            hit = [rng.choice(profiles), start, end, score]
            if hit not in placed:
                placed.append(hit)
        hits.extend([gene] + hit for hit in placed)
    rng.shuffle(hits)
    return {"fn": "filter", "hits": hits, "groups": groups, "perm_seed": rng.randrange(1 << 30)}


def docking_case(rng):
    names = ["NRPS-COM_Nterm", "NRPS-COM_Cterm", "PKS_Docking_Cterm", "PKS_Docking_Nterm", "PKS_KS", "AMP-binding"]
    genes = {}
    for gene in ["g1", "g2", "g3"][:rng.randrange(1, 4)]:
        length = rng.choice([40, 60, 99, 100, 101, 150, 400])
        domains = []
        for _ in range(rng.randrange(1, 6)):
            size = rng.choice([5, 10, 30])
            anchor = rng.choice(["start", "end", "any"])
            if anchor == "start":
                start = rng.choice([0, 48, 49, 50, 51])
            elif anchor == "end":
                start = length - size - rng.choice([0, 48, 49, 50, 51])
            else:
                start = rng.randrange(0, max(1, length - size))
            start = max(0, min(start, length - 1))
            end = max(start + 1, min(length, start + size))
            domains.append([rng.choice(names), start, end])
        genes[gene] = {"length": length, "domains": domains}
    return {"fn": "docking", "genes": genes}
