"""Tie-rich inputs for C17 (plain JSON-able data; generation happens in the parent, replay in children).

Kinds:
  refine   hits of one or two genes with equal starts / equal scores / duplicates   (vf/gen/hits.refine_case)
  filter   per-gene profile hits with overlapping groups and score ties             (vf/gen/hits.filter_case)
  hmmer    Pfam-like hits with equal starts and equal normalised scores             (vf/gen/hits.hmmer_case)
  world    record + genes + profile hits + rules for the real detection pipeline    (vf/gen/worlds.gen_world),
           post-processed so that several rules anchor on the same gene with the same cutoff and neighbourhood
           (identical-coordinate protoclusters with different products) and neighbourhoods clip at both record ends
  layout   protocluster layouts on a gene grid with identical cores/extents and different products
"""
from __future__ import annotations

import copy
import itertools
import os
import random
import re

from vf.gen import hits as H
from vf.gen import worlds as W
from vf.models import ring

PRODUCTS = ["alpha", "beta", "gamma", "delta", "epsilon", "zeta", "eta", "theta"]


_WORLD_VARIANTS = itertools.count()


def tie_world(rng):
    small = rng.random() < 0.6
    world = W.gen_world(rng, lengths=[1500, 3000, 4000, 6000, 8000] if small else [8000, 12000, 20000],
                        nb_choices=[1, 2, 20, 100] if small else [1, 1, 2, 5, 20], max_genes=10)
    rules = world["rules"]
    # twins: same condition, cutoff and neighbourhood under another name -> identical protocluster coordinates
    for rule in list(rules):
        if len(rules) < 7 and rng.random() < 0.45:
            twin = copy.deepcopy(rule)
            twin["name"] = rule["name"] + "b"
            twin["superiors"] = []
            twin.pop("superiors_listed", None)
            if rng.random() < 0.3:
                twin["ast"] = rng.choice(W.SIMPLE_CONDITIONS)      # same distances, maybe another anchor set
            rules.insert(rng.randrange(len(rules) + 1), twin)
    # superiors must be defined before they are named: keep the text parseable
    seen = set()
    for rule in rules:
        listed = [s for s in (rule.get("superiors_listed") or []) if s in seen]
        if listed != (rule.get("superiors_listed") or []):
            rule["superiors"] = []
            rule.pop("superiors_listed", None)
        seen.add(rule["name"])
    if rng.random() < 0.4:
        nb = rng.choice([r["nb_kb"] for r in rules])
        for rule in rules:
            rule["nb_kb"] = nb
    # equal scores and multi-profile genes: conditions like cds(a and b) then define a gene by two domains
    for gene in list(world["hits"]):
        if rng.random() < 0.4:
            for prof in rng.sample(W.PROFILES, rng.randrange(2, 5)):
                world["hits"][gene].setdefault(prof, rng.choice([20, 30]))
    # two genes on one stretch, one on each strand (equal start and length: the record's order does not separate them),
    # carrying different profiles
    plain = [name for name, gene in world["genes"].items() if len(gene["loc"]["parts"]) == 1]
    variant = next(_WORLD_VARIANTS)      # the extras below come round in turn, so that every run holds each of them
    if plain and variant % 2 == 1:
        base = rng.choice(sorted(plain))
        twin = base + "t"
        spot = dict(world["genes"][base]["loc"])
        world["genes"][twin] = {"loc": {"parts": [list(p) for p in spot["parts"]], "strand": -spot["strand"]}}
        world["hits"][twin] = {prof: rng.choice([20, 30]) for prof in rng.sample(W.PROFILES, rng.randrange(1, 4))}
        world["hits"].setdefault(base, {rng.choice(W.PROFILES): 30})
    # a gene whose identifier holds a run of characters that are not allowed in names (they become underscores,
    # one for each): its hits are filed under the name it has after that
    if world["genes"] and variant % 3 == 0:
        old = rng.choice(sorted(world["genes"]))
        raw = old + rng.choice(["(+)x", " [:]y", "=>?z", "(;)"])
        clean = "".join("_" if ch in ILLEGAL_IN_NAMES else ch for ch in raw)
        world["genes"] = {(raw if name == old else name): gene for name, gene in world["genes"].items()}
        if old in world["hits"]:
            world["hits"] = {(clean if name == old else name): hs for name, hs in world["hits"].items()}
    case = {"kind": "world", "world": world, "perm_seed": rng.randrange(1 << 30)}
    if variant % 2 == 0 and not world["circular"]:
        # three genes beyond the reach of every rule, hit by a profile no rule asks for: their hits are reported only
        # through the earlier subregion below
        from vf.models import rules_ref as R
        used = set()
        for rule in world["rules"]:
            used |= R.profiles(rule["ast"])
            if rule.get("extenders"):
                used |= R.profiles(rule["extenders"])
            rule["nb_kb"] = min(rule["nb_kb"], 2)
        spare = sorted(set(W.PROFILES) - used)
        if spare:
            begin = world["L"] + 3000
            for k in range(3):
                world["genes"][f"t{k}"] = {"loc": {"parts": [[begin + 400 * k, begin + 400 * k + 200]], "strand": rng.choice([1, -1])}}
                world["hits"][f"t{k}"] = {spare[0]: rng.choice([20, 30, 50])}
            world["L"] = begin + 1500
    if variant % 2 == 0:
        # a subregion that is in the record before rule detection runs (as CASSIS or a sideloaded area is): the hits of
        # its genes are reported even where no protocluster forms
        case["earlier_subregion"] = [0, world["L"]]
    return case


ILLEGAL_IN_NAMES = set("!\"#$%&()*+,:; \r\n\t=>?@[]^`'{|}/ ")


def wrap_merge_layout(rng):
    """ a circular record whose last stretch of areas (two or three neighbouring protoclusters) reaches the area lying
        over the origin, with an unrelated area in between: region creation joins the last stretch to the first """
    n_genes, glen, step = 12, 60, 100
    length = n_genes * step
    genes = [{"name": f"g{i}", "loc": {"parts": [[i * step + 10, i * step + 10 + glen]], "strand": rng.choice([1, -1])},
              "core": []} for i in range(n_genes)]
    products = list(PRODUCTS)
    rng.shuffle(products)
    plan = [(11, 2, 0), (rng.choice([4, 5]), 1, 0), (9, 1, 1), (10, 1, 1)]
    if rng.random() < 0.5:
        plan.append((8, 1, 1))
    rng.shuffle(plan)
    protos = []
    for first, ncore, nb in plan:
        core_start, core_len, nb_len = first * step + 10, (ncore - 1) * step + glen, nb * step
        core = ring.arc_to_intervals(core_start, core_len, length)
        extent = ring.arc_to_intervals((core_start - nb_len) % length, core_len + 2 * nb_len, length)
        product = products.pop()
        genes[first % n_genes]["core"].append(product)
        protos.append({"first": first, "ncore": ncore, "nb": nb, "product": product,
                       "core": [list(c) for c in core], "extent": [list(e) for e in extent]})
    return {"kind": "layout", "L": length, "circular": True, "genes": genes, "protoclusters": protos,
            "perm_seed": rng.randrange(1 << 30), "shape": "last-stretch-joins-the-area-over-the-origin"}


_LAYOUT_TURNS = itertools.count()


def promotion_extras_layout(turn):
    """ a chemical hybrid (two protoclusters defined by one gene) and two further protoclusters with identical
        coordinates, other cores and other defining genes, whose cores overlap the hybrid's: the interleaved group of
        all four spans exactly the hybrid's coordinates, so the two become its extras and each gets a single
        candidate - two candidates with identical coordinates. Built from the turn number (no draw from the stream). """
    rng = random.Random(turn * 7919 + 17)
    n_genes, glen, step = 12, 60, 100
    length = n_genes * step
    at = rng.choice([3, 4, 5, 6, 7])
    genes = [{"name": f"g{i}", "loc": {"parts": [[i * step + 10, i * step + 10 + glen]], "strand": rng.choice([1, -1])},
              "core": []} for i in range(n_genes)]
    products = list(PRODUCTS)
    rng.shuffle(products)
    mid = at * step + 10
    hybrid_extent = [[mid - 2 * step, mid + glen + 2 * step]]
    extra_extent = [[mid - 2 * step, mid + glen + step]]
    plan = [(at, 1, [[mid, mid + glen]], hybrid_extent, at), (at, 1, [[mid, mid + glen]], hybrid_extent, at),
            (at - 1, 2, [[mid - step, mid + glen]], extra_extent, at - 1), (at, 2, [[mid, mid + glen + step]], extra_extent, at + 1)]
    rng.shuffle(plan)
    protos = []
    for first, ncore, core, extent, definer in plan:
        product = products.pop()
        genes[definer]["core"].append(product)
        protos.append({"first": first, "ncore": ncore, "nb": 2, "product": product, "core": core, "extent": extent})
    return {"kind": "layout", "L": length, "circular": rng.random() < 0.5, "genes": genes, "protoclusters": protos,
            "perm_seed": rng.randrange(1 << 30), "shape": "two-extras-of-a-promotion-with-identical-coordinates"}


def tie_layout(rng):
    """ every fifth layout is the directed one; the layout drawn in its place is drawn all the same, so that the
        stream of the others stays as it was """
    drawn = _drawn_layout(rng)
    turn = next(_LAYOUT_TURNS)
    return promotion_extras_layout(turn) if turn % 5 == 2 else drawn


def _drawn_layout(rng):
    if rng.random() < 0.2:
        return wrap_merge_layout(rng)
    circular = rng.random() < 0.5
    n_genes = rng.choice([6, 8, 10, 12])
    glen, gap = 60, 40
    step = glen + gap
    length = n_genes * step
    genes = [{"name": f"g{i}", "loc": {"parts": [[i * step + 10, i * step + 10 + glen]], "strand": rng.choice([1, -1])},
              "core": []} for i in range(n_genes)]
    products = list(PRODUCTS)
    rng.shuffle(products)
    protos = []
    wanted = rng.randrange(2, 8)
    for _ in range(wanted * 3):
        if len(protos) >= wanted or not products:
            break
        mode = rng.choice(["fresh", "same", "same", "same-extent", "nested"]) if protos else "fresh"
        if mode == "fresh":
            ncore = rng.randrange(1, 4)
            first = rng.randrange(0, n_genes) if circular else rng.randrange(0, n_genes - ncore + 1)
            nb = rng.choice([0, 1, 2, 3, n_genes])
        else:
            base = rng.choice(protos)
            first, ncore, nb = base["first"], base["ncore"], base["nb"]
            if mode == "nested":
                nb = max(0, nb - 1)
            elif mode == "same-extent":
                # another core, extents equal once both are clipped by the record ends (linear) or equal by symmetry
                nb = n_genes
                ncore = 1
                first = rng.randrange(0, n_genes)
        core_genes = [(first + k) % n_genes for k in range(ncore)]
        if not circular and first + ncore > n_genes:
            continue
        core_start = first * step + 10
        core_len = (ncore - 1) * step + glen
        nb_len = nb * step
        if circular:
            if core_start + core_len > length and ncore == 1:
                continue
            core = ring.arc_to_intervals(core_start, core_len, length)
            if core_len + 2 * nb_len >= length:
                if mode == "fresh":
                    continue
                nb_len = ((length - core_len) // (2 * step)) * step - step
                if nb_len < 0:
                    continue
            extent = ring.arc_to_intervals((core_start - nb_len) % length, core_len + 2 * nb_len, length)
        else:
            core = [(core_start, core_start + core_len)]
            extent = [(max(0, core_start - nb_len), min(length, core_start + core_len + nb_len))]
        product = products.pop()
        for d in sorted(set(rng.choice(core_genes) for _ in range(rng.randrange(1, 3)))):
            genes[d]["core"].append(product)
        protos.append({"first": first, "ncore": ncore, "nb": nb, "product": product,
                       "core": [list(c) for c in core], "extent": [list(e) for e in extent]})
    return {"kind": "layout", "L": length, "circular": circular, "genes": genes, "protoclusters": protos,
            "perm_seed": rng.randrange(1 << 30)}


_SHIPPED: dict = {}


def shipped_rules() -> dict:
    """ {strictness file: [(rule name, category)]} read from the rule files of the tree under test """
    if not _SHIPPED:
        repo = os.environ.get("VERIF_REPO", "/repo")
        for level in ("strict", "relaxed", "loose"):
            path = os.path.join(repo, "antismash", "detection", "hmm_detection", "cluster_rules", level + ".txt")
            with open(path, encoding="utf-8") as handle:
                text = handle.read()
            _SHIPPED[level] = re.findall(r"^RULE\s+(\S+)\s+CATEGORY\s+(\S+)", text, re.M)
    return _SHIPPED


def gen_input(rng, kind):
    if kind == "refine":
        case = H.refine_case(rng)
        case["real"] = False
        case["kind"] = "refine"
        # more ties: copy the start (and sometimes score) of an earlier hit onto a later one
        hsps = case["hsps"]
        for _ in range(rng.randrange(0, 3)):
            if len(hsps) >= 2:
                a, b = rng.sample(range(len(hsps)), 2)
                if hsps[a][0] == hsps[b][0]:
                    width = hsps[b][3] - hsps[b][2]
                    hsps[b][2] = hsps[a][2]
                    hsps[b][3] = hsps[a][2] + max(1, width)
                    if rng.random() < 0.5:
                        hsps[b][4], hsps[b][5] = hsps[a][4], hsps[a][5]
        # twins: another profile over exactly the same span with the same score and e-value (profiles for subtypes
        # of one domain do that): only the profile name is left to decide which of the two is kept
        if rng.random() < 0.4 and len(case["lengths"]) >= 2:
            for _ in range(rng.randrange(1, 3)):
                gene, prof, start, end, score, evalue = rng.choice(hsps)
                others = [p for p in case["lengths"] if p != prof]
                twin = [gene, rng.choice(others), start, end, score, evalue]
                if twin not in hsps:
                    hsps.append(twin)
            case["split"] = [len(hsps)]
        return case
    if kind == "filter":
        case = H.filter_case(rng)
        case["kind"] = "filter"
        if rng.random() < 0.6:          # score ties inside overlap groups
            for hit in case["hits"]:
                hit[4] = rng.choice([10.0, 20.0])
            # hmmsearch never reports the same domain twice: no exact duplicates (as in the C13 generator)
            unique = []
            for hit in case["hits"]:
                if hit not in unique:
                    unique.append(hit)
            case["hits"] = unique
        return case
    if kind == "hmmer":
        case = H.hmmer_case(rng)
        case["kind"] = "hmmer"
        return case
    if kind == "ruleset":
        # the real hmm_detection.get_ruleset on the shipped rule files with the options that limit the rules
        levels = ["strict", "relaxed", "loose"]
        strictness = rng.choice(levels)
        available = [(name, cat) for level in levels[:levels.index(strictness) + 1] for name, cat in shipped_rules()[level]]
        names = [name for name, _ in rng.sample(available, rng.randrange(2, 9))] if rng.random() < 0.8 else []
        cats = sorted({cat for _, cat in rng.sample(available, rng.randrange(1, 3))}) if rng.random() < 0.4 or not names else []
        return {"kind": "ruleset", "strictness": strictness, "names": names, "categories": cats,
                "taxon": rng.choice(["bacteria", "bacteria", "fungi"]), "perm_seed": rng.randrange(1 << 30)}
    if kind == "world":
        return tie_world(rng)
    if kind == "layout":
        return tie_layout(rng)
    if kind == "annotate":
        # analysis modules, in the order they ran, all marking the same stretch of the record
        return {"kind": "annotate", "modules": rng.sample(ANALYSIS_MODULE_NAMES, rng.randrange(3, 8)),
                "perm_seed": rng.randrange(1 << 30)}
    raise ValueError(kind)


ANALYSIS_MODULE_NAMES = ["antismash.modules." + name for name in (
    "lanthipeptides", "thiopeptides", "lassopeptides", "sactipeptides", "tta", "nrps_pks", "t2pks", "smcog_trees",
    "active_site_finder", "pfam2go", "cluster_compare", "clusterblast")]


# ---------------------------------------------------------------------------------------------
# structural tie facts of an input (parent side, no antiSMASH objects needed)
# ---------------------------------------------------------------------------------------------

def input_ties(case) -> dict:
    kind = case["kind"]
    if kind == "refine":
        per_gene = {}
        for gene, prof, start, end, score, _ev in case["hsps"]:
            per_gene.setdefault(gene, []).append((prof, start, end, score))
        start_tie = any(len({h[1] for h in set(hs)}) < len(set(hs)) for hs in per_gene.values())
        full_tie = any(len({(h[1], h[3]) for h in set(hs)}) < len(set(hs)) for hs in per_gene.values())
        twins = any(len({(h[1], h[2], h[3]) for h in set(hs)}) < len(set(hs)) for hs in per_gene.values())
        return {"equal_start_hits": start_tie, "equal_start_and_score_hits": full_tie,
                "different_profiles_with_equal_span_and_score": twins}
    if kind == "filter":
        per_gene = {}
        for gene, prof, start, end, score in case["hits"]:
            per_gene.setdefault(gene, []).append((prof, start, end, score))
        tie = False
        for hs in per_gene.values():
            for i, a in enumerate(hs):
                for b in hs[i + 1:]:
                    if a[3] == b[3] and min(a[2], b[2]) - max(a[1], b[1]) > 20:
                        tie = True
        return {"equal_score_overlapping_hits": tie}
    if kind == "hmmer":
        hits = case["hits"]
        return {"equal_start_hits": len({h[1] for h in hits}) < len(hits),
                "equal_score_hits": len({h[3] for h in hits}) < len(hits)}
    if kind == "world":
        world = case["world"]
        sig = [(r["cutoff_kb"], r["nb_kb"], str(r["ast"])) for r in world["rules"]]
        multi = any(len(hs) >= 2 for hs in world["hits"].values())
        scores = [s for hs in world["hits"].values() for s in hs.values()]
        return {"rules_with_equal_condition_and_distances": len(set(sig)) < len(sig),
                "genes_with_several_profiles": multi, "equal_scores": len(set(scores)) < len(scores),
                "n_rules": len(world["rules"])}
    if kind == "ruleset":
        return {"rules_limited_by_name": len(case["names"]) >= 2, "rules_limited_by_category": bool(case["categories"])}
    if kind == "annotate":
        return {"analysis_modules_marking_the_same_stretch": len(case["modules"])}
    if kind == "layout":
        protos = case["protoclusters"]
        ext = [str(p["extent"]) for p in protos]
        both = [str(p["extent"]) + str(p["core"]) for p in protos]
        return {"protoclusters_with_equal_extent": len(set(ext)) < len(ext),
                "protoclusters_with_equal_core_and_extent": len(set(both)) < len(both)}
    return {}


def has_tie(case) -> bool:
    return any(v is True for v in input_ties(case).values())
