"""C11 workload: one record carrying input for every results class the check drives.

A case is plain data (JSON-able, replayable):
  world     a pipeline world of vf/gen/worlds.py (record length/topology, genes, profile hits, rules, multipliers)
  levels    per rule the strictness level that introduces it (non-decreasing along the rule list, so the rule set
            of a level is a prefix and SUPERIORS always stay inside it)
  dna       {"seed", "gc"}: the record's DNA is random.Random(seed) bases with that GC share; "tta": {gene: [codon
            indices]} are then overwritten in frame with TTA (reverse strand: TAA on the forward strand), including
            the codon cut by an exon border / the origin of two-part genes
  opts      taxon, strictness, tta_threshold (a number, or "gc" = exactly the record's GC content)
  sideload  tool + subregions + protoclusters in the sideloader's JSON schema, optional --sideload-simple range and
            --sideload-by-cds markers with padding
  domains   {gene: {"tokens": [...c14 tokens...], "motifs": [[name, start, end], ...]}} NRPS/PKS hits
  pfam      {gene: [[profile, start, end, score, evalue], ...]} hmmscan hits for full_hmmer / cluster_hmmer
Nothing here decides anything: the builders only turn the case into antiSMASH objects.
"""
from __future__ import annotations

import random

from antismash.common.hmm_rule_parser import cluster_prediction as CP
from antismash.common.hmm_rule_parser.structures import DynamicHit, DynamicProfile, Multipliers
from antismash.common.hmmscan_refinement import HMMResult
from antismash.common.secmet.test.helpers import DummyCDS, DummyRecord

from vf.gen import c14_domains as G14
from vf.gen import locs as G
from vf.gen import worlds as W

RECORD_ID = "c11_record"
AMINOS = "ACDEFGHIKLMNPQRSTVWY"
COMPLEMENT = {"A": "T", "C": "G", "G": "C", "T": "A"}
LEVELS = ["strict", "relaxed", "loose"]

# fake Pfam-A.hmm content: NAME, ACC, trusted cutoff
PFAM_PROFILES = [("p450", "PF00067.20", 20.0), ("ketoacyl-synt", "PF00109.28", 25.0), ("PP-binding", "PF00550.27", 15.0),
                 ("AMP-binding", "PF00501.30", 30.0), ("Condensation", "PF00668.22", 22.0), ("adh_short", "PF00106.27", 18.0)]
PFAM_VERSIONS = ["35.1", "35.10"]      # different releases whose numbers are equal as floats

MOTIFS = ["C1_dual_004-017", "NRPS-A_a3", "PKSI-KR_m1", "NRPS-te1", "PKSI-AT-mM_m3"]

_ALPHABET = sorted(set(G14.CORE) | set(G14.EXHAUSTIVE) | {"PKS_PP", "ACP_beta", "cAT", "Abhydrolase_1", "cMT", "oMT",
                                                        "PKS_DH2", "PKS_DHt", "PKS_ER", "TauD", "Condensation_DCL",
                                                        "Condensation_Starter", "Cglyc", "ECH", "NRPS-COM_Cterm",
                                                        "PKS_Docking_Nterm"})


def pfam_database_text() -> str:
    chunks = []
    for name, acc, cutoff in PFAM_PROFILES:
        chunks.append(f"HMMER3/f [3.1b2 | February 2015]\nNAME  {name}\nACC   {acc}\nDESC  generated {name}\n"
                      f"LENG  100\nGA    {cutoff:.2f} {cutoff:.2f};\nTC    {cutoff:.2f} {cutoff:.2f};\n")
    return "\n//\n".join(chunks) + "\n//\n"


# ---------------------------------------------------------------------------------------------
# generation
# ---------------------------------------------------------------------------------------------

def _gene_len(gene) -> int:
    return sum(e - s for s, e in gene["loc"]["parts"])


def _order_genes(world):
    """ gene names by the start of their first forward part (origin-spanning genes last) """
    def key(name):
        parts = world["genes"][name]["loc"]["parts"]
        return (len(parts) > 1, parts[0][0])
    return sorted(world["genes"], key=key)


def _areas(rng, world, count):
    """ spans [start, end) (start > end: across the origin) that contain at least one whole gene """
    length, circular = world["L"], world["circular"]
    out = []
    names = list(world["genes"])
    for _ in range(count):
        picked = rng.sample(names, min(len(names), rng.choice([1, 1, 2, 3])))
        bridging = [n for n in picked if len(world["genes"][n]["loc"]["parts"]) > 1]
        pad_l = rng.choice([0, 0, 50, 100, 1000, 5000])
        pad_r = rng.choice([0, 0, 50, 100, 1000, 5000])
        if bridging:
            parts = world["genes"][bridging[0]]["loc"]["parts"]
            start, end = parts[0][0] - pad_l, parts[-1][1] + pad_r
            if start <= end or end < 1:
                start, end = parts[0][0], parts[-1][1]
            out.append((start, end))
            continue
        spans = [world["genes"][n]["loc"]["parts"][0] for n in picked]
        lo = min(s for s, _ in spans) - pad_l
        hi = max(e for _, e in spans) + pad_r
        if circular and rng.random() < 0.3 and length > 3000:
            # go the other way round: from the last picked gene over the origin to the first
            first = min(spans)
            last = max(spans)
            if first != last and last[0] > first[1]:
                out.append((last[0] - rng.choice([0, 100]), first[1] + rng.choice([0, 100])))
                continue
        if circular and (lo < 0 or hi > length) and hi - lo < length - 10:
            lo %= length
            hi %= length
            if hi == 0:
                hi = length
            out.append((lo, hi))
            continue
        out.append((max(0, lo), min(length, hi)))
    return out


def _details(rng):
    if rng.random() < 0.4:
        return None
    out = {}
    for key in rng.sample(["score", "note.1", "evidence-code", "ref", "x9"], rng.choice([1, 1, 2])):
        if rng.random() < 0.5:
            out[key] = rng.choice(["high", "0.5", "see paper", "a=b", "7"])
        else:
            out[key] = rng.sample(["alpha", "beta value", "3", "g,h"], rng.choice([1, 2, 3]))
    return out


def gen_sideload(rng, world) -> dict:
    length, circular = world["L"], world["circular"]
    tool = {"name": rng.choice(["ext tool", "my_tool", "finder-x"]), "version": rng.choice(["1.0", "2.3.1-beta"])}
    if rng.random() < 0.5:
        tool["configuration"] = {"mode": rng.choice(["fast", ["a", "b"]]), "cut-off": "0.5"}
    subregions, protoclusters = [], []
    for start, end in _areas(rng, world, rng.choice([0, 1, 1, 2, 3])):
        if not circular and start >= end:
            continue
        entry = {"start": start, "end": end, "label": rng.choice(["sub one", "x", "hotspot_3", "a label of 20 chars."])}
        details = _details(rng)
        if details:
            entry["details"] = details
        subregions.append(entry)
    for start, end in _areas(rng, world, rng.choice([0, 1, 1, 2])):
        if not circular and start >= end:
            continue
        left = rng.choice([0, 0, 100, 1000, 3000])
        right = rng.choice([0, 0, 100, 1000, 3000])
        span = (end - start) % length or length
        if circular:
            if span + left + right >= length:
                left = right = 0
        else:
            left = min(left, start)
            right = min(right, length - end)
        entry = {"core_start": start, "core_end": end, "product": rng.choice(["ext-type", "T1PKS", "weird-product"])}
        if left or rng.random() < 0.5:
            entry["neighbourhood_left"] = left
        if right or rng.random() < 0.5:
            entry["neighbourhood_right"] = right
        details = _details(rng)
        if details:
            entry["details"] = details
        protoclusters.append(entry)
    out = {"tool": tool, "subregions": subregions, "protoclusters": protoclusters, "simple": None, "markers": [],
           "padding": rng.choice([0, 500, 2000, 20000])}
    if rng.random() < 0.15:
        name = rng.choice(list(world["genes"]))
        parts = world["genes"][name]["loc"]["parts"]
        if len(parts) == 1:
            out["simple"] = [max(0, parts[0][0] - 200), min(length, parts[0][1] + rng.choice([200, 10 ** 6]))]
    if rng.random() < 0.2:
        out["markers"] = rng.sample(list(world["genes"]), min(len(world["genes"]), rng.choice([1, 1, 2])))
    return out


def gen_domains(rng, world) -> dict:
    """ tokens per gene; half of the time one word is cut over neighbouring genes (merge candidates) """
    order = _order_genes(world)
    out = {}

    def room(name):
        return max(0, (_gene_len(world["genes"][name]) // 3 - 4) // 12)

    def motifs_for(name):
        plen = _gene_len(world["genes"][name]) // 3
        found = []
        for _ in range(rng.choice([0, 0, 1, 2])):
            start = rng.randrange(0, max(1, plen - 8))
            found.append([rng.choice(MOTIFS), start, min(plen, start + rng.choice([5, 8]))])
        return sorted(found, key=lambda m: m[1])

    if len(order) >= 2 and rng.random() < 0.6:
        count = rng.choice([2, 2, 3])
        first = rng.randrange(0, len(order) - 1)
        run = order[first:first + count]
        word = G14.template_word(rng, _ALPHABET, max_modules=3)
        if rng.random() < 0.35:
            word = rng.choice([["PKS_KS:Trans-AT-KS", "ACP", "ACP", "LPG_synthase_C", "Beta_elim_lyase"],
                               ["AMP-binding", "PCP", "ACP", "LPG_synthase_C", "Beta_elim_lyase", "Thioesterase"],
                               ["PKS_KS", "PKS_AT", "ACP", "PCP", "LPG_synthase_C", "Beta_elim_lyase", "PKS_KR", "ACP"]])
        strands = [world["genes"][n]["loc"]["strand"] for n in run]
        if strands[0] == -1:
            run = run[::-1]     # biological order on the reverse strand: highest coordinate first
        pos = 0
        for k, name in enumerate(run):
            take = room(name)
            if k < len(run) - 1:
                take = min(take, max(1, rng.randrange(1, max(2, len(word) - pos))))
            piece = word[pos:pos + take]
            pos += len(piece)
            if piece:
                out[name] = {"tokens": piece, "motifs": motifs_for(name)}
    for name in order:
        if name in out or rng.random() > 0.3:
            continue
        word = G14.gen_word(rng, _ALPHABET)[:room(name)]
        if word or rng.random() < 0.3:
            out[name] = {"tokens": word, "motifs": motifs_for(name) or [[MOTIFS[0], 1, 6]]}
    return {k: v for k, v in out.items() if v["tokens"] or v["motifs"]}


def gen_pfam(rng, world) -> dict:
    out = {}
    for name, gene in world["genes"].items():
        if rng.random() > 0.5:
            continue
        plen = _gene_len(gene) // 3
        hits = []
        pos = rng.randrange(0, 8)
        while pos + 12 < plen and len(hits) < 5:
            width = rng.choice([10, 15, 25])
            end = min(plen, pos + width)
            profile = rng.choice(PFAM_PROFILES)[0]
            # scores and e-values around the module thresholds (0 and 0.01), including both boundaries
            score = rng.choice([-3.5, 0.0, 0.0, 0.5, 12.0, 31.537219, 88.1, 140.2578125])
            evalue = rng.choice([1.2345678e-30, 3.2170093e-9, 0.0099, 0.01, 0.01, 0.011, 0.5123])
            hits.append([profile, pos, end, score, evalue])
            if rng.random() < 0.25:
                # an overlapping rival
                hits.append([rng.choice(PFAM_PROFILES)[0], pos + 2, min(plen, end + 3), rng.choice([5.0, 60.3, 200.0]),
                             rng.choice([1.00007e-12, 0.003])])
            pos = end + rng.choice([0, 3, 20])
        if hits:
            out[name] = hits
    return out


def gen_case(rng) -> dict:
    world = W.gen_world(rng, max_genes=10, lengths=[3000, 4000, 6000, 8000, 10000, 12000, 20000, 30000])
    # levels: non-decreasing, so the rule set of a level is a prefix of the rule list
    levels = sorted(rng.choice([0, 0, 1, 1, 2]) for _ in world["rules"])
    levels[0] = 0   # every level has at least one rule, as the real rule files do
    taxon = "fungi" if rng.random() < 0.4 else "bacteria"
    if taxon == "bacteria":
        world["multipliers"] = [1.0, 1.0]
    elif world["multipliers"] == [1.0, 1.0] and rng.random() < 0.7:
        world["multipliers"] = [rng.choice([1.0, 0.5, 1.5]), rng.choice([1.5, 0.5, 2.0])]
    gc = rng.choice([0.3, 0.5, 0.7])
    tta = {}
    for name, gene in world["genes"].items():
        codons = _gene_len(gene) // 3
        picks = set()
        if rng.random() < 0.7:
            picks.update(rng.randrange(0, codons) for _ in range(rng.choice([1, 2, 4])))
        parts = gene["loc"]["parts"]
        if len(parts) > 1:
            # the codon containing the exon border, in reading order
            first = parts[0] if gene["loc"]["strand"] == 1 else parts[-1]
            picks.add(min(codons - 1, (first[1] - first[0]) // 3))
        if picks:
            tta[name] = sorted(picks)
    strictness = rng.choice(LEVELS)
    threshold = rng.choice([0.0, 0.25, 0.45, "gc", "gc", 0.55, 0.65, 0.75, 1.0])
    return {"world": world, "levels": levels, "dna": {"seed": rng.randrange(1 << 30), "gc": gc}, "tta": tta,
            "opts": {"taxon": taxon, "strictness": strictness, "tta_threshold": threshold},
            "sideload": gen_sideload(rng, world), "domains": gen_domains(rng, world), "pfam": gen_pfam(rng, world)}


# ---------------------------------------------------------------------------------------------
# builders
# ---------------------------------------------------------------------------------------------

_DNA_CACHE: dict = {}


def reading_positions(gene) -> list:
    pos = [p for s, e in gene["loc"]["parts"] for p in range(s, e)]
    if gene["loc"]["strand"] == -1:
        pos.reverse()
    return pos


def build_dna(case) -> str:
    key = (case["dna"]["seed"], case["dna"]["gc"], case["world"]["L"], repr(sorted(case["tta"].items())))
    hit = _DNA_CACHE.get(key)
    if hit is not None:
        return hit
    rng = random.Random(case["dna"]["seed"])
    gc = case["dna"]["gc"]
    seq = rng.choices("ACGT", weights=[(1 - gc) / 2, gc / 2, gc / 2, (1 - gc) / 2], k=case["world"]["L"])
    for name, codons in case["tta"].items():
        gene = case["world"]["genes"][name]
        read = reading_positions(gene)
        for k in codons:
            for base, pos in zip("TTA", read[3 * k:3 * k + 3]):
                seq[pos] = base if gene["loc"]["strand"] == 1 else COMPLEMENT[base]
    text = "".join(seq)
    _DNA_CACHE.clear()
    _DNA_CACHE[key] = text
    return text


def build_record(case, record_id: str = RECORD_ID):
    world = case["world"]
    record = DummyRecord(seq=build_dna(case), circular=world["circular"], record_id=record_id,
                         taxon=case["opts"]["taxon"])
    rng = random.Random(case["dna"]["seed"] + 1)
    for name, gene in world["genes"].items():
        translation = "".join(rng.choices(AMINOS, k=max(1, _gene_len(gene) // 3)))
        record.add_cds_feature(DummyCDS(location=G.from_case(gene["loc"]), locus_tag=name, translation=translation))
    return record


def level_rules(case, strictness: str) -> list:
    top = LEVELS.index(strictness)
    return [rule for rule, level in zip(case["world"]["rules"], case["levels"]) if level <= top]


def build_ruleset(case, strictness: str, multipliers=None):
    """ the rule set of one strictness level, or None when the level has no rules / the parser refuses them """
    rules = level_rules(case, strictness)
    if not rules:
        return None
    world = dict(case["world"], rules=rules)
    parsed = W.parse_rules(world)
    hits = world["hits"]

    def make(profile):
        def detect(_record, _hmmer_hits, profile=profile):
            # scores and e-values with many significant digits: a save that rounds or truncates shows
            return {g: [DynamicHit(g, profile, bitscore=hs[profile] + 0.123456789,
                                   evalue=1.2345678912e-5 / (1 + hs[profile]))]
                    for g, hs in hits.items() if profile in hs}
        return DynamicProfile(profile, "generated", detect)
    mult = multipliers if multipliers is not None else world.get("multipliers", [1.0, 1.0])
    return CP.Ruleset(tuple(parsed), {}, "", {"cat"}, "verif-tool",
                      multipliers=Multipliers(cutoff=mult[0], neighbourhood=mult[1]),
                      dynamic_profiles={p: make(p) for p in W.PROFILES}, equivalence_groups=[])


def sideload_document(case) -> dict:
    side = case["sideload"]
    record = {"name": RECORD_ID}
    if side["subregions"]:
        record["subregions"] = [dict(x) for x in side["subregions"]]
    if side["protoclusters"]:
        record["protoclusters"] = [dict(x) for x in side["protoclusters"]]
    return {"tool": dict(side["tool"]), "records": [record, {"name": "some_other_record", "subregions": [
        {"start": 1, "end": 2, "label": "elsewhere"}]}]}


def make_domain(token: str, index: int, count: int, plen: int) -> HMMResult:
    name, structure = G14.parse_token(token)
    step = max(12, (plen - 4) // max(1, count))
    start = 2 + step * index
    end = start + step - 2
    internal = None
    if isinstance(structure, tuple):
        internal = [HMMResult(sub, start + 1 + k, end - 1, 1.0301e-5, 50.0625 + k) for k, sub in enumerate(structure[1])]
    elif structure:
        inner = None
        for depth, sub in reversed(list(enumerate(structure))):
            inner = HMMResult(sub, start + 1 + depth, end - 1 - depth, 1.0301e-5 * (depth + 1), 50.0625 - depth,
                              internal_hits=[inner] if inner is not None else None)
        internal = [inner]
    return HMMResult(name, start, end, 1.2345678e-10 / (index + 1), 100.517 + index, internal_hits=internal)


def domain_hits(case) -> tuple[dict, dict]:
    """ ({gene: [HMMResult]}, {gene: [HMMResult]}) for find_domains / find_ab_motifs """
    domains, motifs = {}, {}
    for name, info in case["domains"].items():
        plen = _gene_len(case["world"]["genes"][name]) // 3
        if info["tokens"]:
            domains[name] = [make_domain(t, i, len(info["tokens"]), plen) for i, t in enumerate(info["tokens"])]
        if info["motifs"]:
            motifs[name] = [HMMResult(m, s, e, 0.0123456 * (k + 1), 7.2519 + k) for k, (m, s, e) in enumerate(info["motifs"])]
    return domains, motifs
