"""C17 child process: replays serialised inputs through the real antiSMASH code and emits canonical stage dumps.

    python -m vf.c17_child <plan.json> <out.json>

The parent (vf/checks/c17.py) starts one child per PYTHONHASHSEED value with subprocess.run(timeout=...).
Every input is replayed in `orders` insertion orders (order 0 = as serialised; the permutation depends only
on the input, never on the child, so (input, order) is one fixed input for all children). Before every replay the
heap is fragmented with a child-specific random pattern: blocks of every small-object size class are allocated and
a random half is freed in random order, so objects created afterwards (id()-hashed HSPs, protoclusters, CDS
features) land on different addresses in different children. Nothing here judges: the child only dumps.

Dump conventions: a stage value is either a string (bytes exactly as antiSMASH produced them: JSON text,
GenBank text) or a JSON structure in which lists carry order that matters and sets were sorted.
"""
from __future__ import annotations

import faulthandler
import hashlib
import io
import json
import logging
import os
import random
import zlib
import re
import sys
import tempfile
import time
import traceback
from types import SimpleNamespace

KEEP_ALIVE: list = []


def fragment_heap(rng, per_class: int = 48) -> None:
    """ leaves randomly placed holes in every pymalloc size class (48..512 bytes) """
    KEEP_ALIVE.clear()
    for size in range(48, 513, 16):
        blocks = [bytes(size - 33) for _ in range(per_class + rng.randrange(0, 9))]
        idx = list(range(len(blocks)))
        rng.shuffle(idx)
        for i in idx[:len(idx) // 2]:
            blocks[i] = None
        KEEP_ALIVE.append(blocks)
    # objects with a GC header and __slots__/dicts: lists, dicts and small instances
    junk = [SimpleNamespace(a=i) for i in range(rng.randrange(10, 200))]
    rng.shuffle(junk)
    del junk[:len(junk) // 2]
    KEEP_ALIVE.append(junk)


def crash_dump(err) -> dict:
    tb = traceback.extract_tb(err.__traceback__)
    return {"crash": type(err).__name__, "message": str(err)[:200],
            "where": [f"{os.path.basename(f.filename)}:{f.name}" for f in tb[-3:]]}


def permute_dict(d: dict, rng) -> dict:
    keys = list(d)
    rng.shuffle(keys)
    return {k: d[k] for k in keys}


# ---------------------------------------------------------------------------------------------
# hit-level stages
# ---------------------------------------------------------------------------------------------

class StubHSP:  # identity equality and hash, like Bio's HSP
    __slots__ = ("hit_id", "query_id", "query_start", "query_end", "hit_start", "hit_end", "evalue", "bitscore",
                 "__weakref__")

    def __init__(self, hit_id, query_id, query_start=0, query_end=1, hit_start=0, hit_end=1, evalue=1.0, bitscore=0.0):
        self.hit_id = hit_id
        self.query_id = query_id
        self.query_start = query_start
        self.query_end = query_end
        self.hit_start = hit_start
        self.hit_end = hit_end
        self.evalue = evalue
        self.bitscore = bitscore


class StubQueryResult:
    __slots__ = ("hsps",)

    def __init__(self, hsps):
        self.hsps = list(hsps)


def run_refine(case, order, prng):
    from antismash.common import hmmscan_refinement as refinement
    hsps = list(case["hsps"])
    split = list(case["split"])
    if order:
        prng.shuffle(hsps)
        if order == 2:
            split = [1] * len(hsps)
    chunks, pos = [], 0
    for size in split:
        chunks.append(hsps[pos:pos + size])
        pos += size
    if pos < len(hsps):
        chunks.append(hsps[pos:])
    query_results = [StubQueryResult(StubHSP(p, g, query_start=s, query_end=e, evalue=ev, bitscore=sc)
                                     for g, p, s, e, sc, ev in chunk) for chunk in chunks if chunk]
    stages = {}
    for mode in (False, True):
        raw = refinement.refine_hmmscan_results(query_results, dict(case["lengths"]), neighbour_mode=mode)
        name = "refined_hits:neighbour" if mode else "refined_hits:normal"
        # gene order of the returned dict is not an output anybody numbers by: compare per gene
        stages[name] = {gene: [[r.hit_id, r.query_start, r.query_end, r.evalue, r.bitscore] for r in res]
                        for gene, res in sorted(raw.items())}
        stages[name + ":json"] = json.dumps({gene: [r.to_json() for r in res] for gene, res in sorted(raw.items())})
    return stages


def run_filter(case, order, prng):
    from antismash.common.hmm_rule_parser import cluster_prediction as CP
    hits = list(case["hits"])
    if order:
        prng.shuffle(hits)
    stages = {}

    def build():
        results, by_id = [], {}
        for gene, profile, start, end, score in hits:
            hsp = StubHSP(gene, profile, hit_start=start, hit_end=end, bitscore=score, evalue=10.0 ** (-score))
            results.append(hsp)
            by_id.setdefault(gene, []).append(hsp)
        return results, by_id

    def view(results, by_id):
        return {"flat": [[h.hit_id, h.query_id, h.hit_start, h.hit_end, h.bitscore] for h in results],
                "by_gene": {gene: [[h.query_id, h.hit_start, h.hit_end, h.bitscore] for h in members]
                            for gene, members in sorted(by_id.items())}}
    results, by_id = build()
    try:
        res1, by1 = CP.filter_results(results, by_id, [set(g) for g in case["groups"]])
        stages["filter_results"] = view(res1, by1)
        res2, by2 = CP.filter_result_multiple(res1, by1)
        stages["filter_result_multiple"] = view(res2, by2)
    except Exception as err:  # pylint: disable=broad-except
        stages["filter_results"] = crash_dump(err)
    results, by_id = build()
    try:
        res3, by3 = CP.filter_result_multiple(results, by_id)
        stages["filter_result_multiple:alone"] = view(res3, by3)
    except Exception as err:  # pylint: disable=broad-except
        stages["filter_result_multiple:alone"] = crash_dump(err)
    return stages


def run_hmmer(case, order, prng):
    from antismash.common import hmmer as hmmer_module
    hits = list(case["hits"])
    if order:
        prng.shuffle(hits)
    objs = [hmmer_module.HmmerHit(location=f"[{s * 3}:{e * 3}](+)", label=i, locus_tag="gene", domain=i,
                                  evalue=10.0 ** (-sc), score=sc, identifier=i, description="d",
                                  protein_start=s, protein_end=e, translation="A" * (e - s))
            for i, s, e, sc in hits]
    try:
        res = hmmer_module.remove_overlapping(objs, dict(case["cutoffs"]), overlap_limit=case["limit"])
        return {"hmmer_remove_overlapping": [[r.identifier, r.protein_start, r.protein_end, r.score] for r in res]}
    except Exception as err:  # pylint: disable=broad-except
        return {"hmmer_remove_overlapping": crash_dump(err)}


# ---------------------------------------------------------------------------------------------
# record-level stages (shared by world and layout inputs)
# ---------------------------------------------------------------------------------------------

DATE = re.compile(r"\b\d{2}-[A-Z]{3}-\d{4}\b")
TIMESTAMP = re.compile(r"\d{4}-\d{2}-\d{2}[ T]\d{2}:\d{2}:\d{2}(\.\d+)?")


def normalise_time(text: str) -> str:
    return TIMESTAMP.sub("<TIMESTAMP>", DATE.sub("<DATE>", text))


def area_stages(record, stages) -> None:
    """ candidate clusters and regions with numbering and product order """
    try:
        stages["protocluster_numbering"] = [
            {"number": p.get_protocluster_number(), "product": p.product, "core": str(p.core_location),
             "location": str(p.location)} for p in record.get_protoclusters()]
        record.create_candidate_clusters()
        stages["candidate_clusters"] = [
            {"number": c.get_candidate_cluster_number(), "kind": str(c.kind),
             "protocluster_numbers": [p.get_protocluster_number() for p in c.protoclusters],
             "products": list(c.products), "core": str(c.core_location), "location": str(c.location)}
            for c in record.get_candidate_clusters()]
        record.create_regions()
        stages["regions"] = [
            {"number": r.get_region_number(), "products": list(r.products), "product_string": r.get_product_string(),
             "candidate_numbers": [c.get_candidate_cluster_number() for c in r.candidate_clusters],
             "unique_protoclusters": [{"number": p.get_protocluster_number(), "product": p.product}
                                      for p in r.get_unique_protoclusters()],
             "detection_rules": list(r.detection_rules), "location": str(r.location)}
            for r in record.get_regions()]
    except Exception as err:  # pylint: disable=broad-except
        stages["area_crash"] = crash_dump(err)


def output_stages(record, module_results, stages) -> None:
    """ the bytes antiSMASH writes: results JSON (record_to_json + areas + module results) and GenBank """
    from antismash.common import json as as_json
    from antismash.common import serialiser
    from Bio import SeqIO
    try:
        stages["areas_json"] = as_json.dumps(serialiser.gather_record_areas(record))
    except Exception as err:  # pylint: disable=broad-except
        stages["areas_json"] = crash_dump(err)
    try:
        results = serialiser.AntismashResults("input.gbk", [record], [module_results], "c17-version",
                                              timings={}, taxon="bacteria")
        data = results.to_json()
        for rec in data["records"]:
            seq = rec["seq"]["data"]
            rec["seq"]["data"] = f"<{len(seq)} bases sha1 {hashlib.sha1(seq.encode()).hexdigest()[:12]}>"
        stages["results_json"] = normalise_time(as_json.dumps(data))
    except Exception as err:  # pylint: disable=broad-except
        stages["results_json"] = crash_dump(err)
    try:
        bio = record.to_biopython()
        handle = io.StringIO()
        SeqIO.write([bio], handle, "genbank")
        text = handle.getvalue()
        # the sequence block is input, not result: keep its digest only
        head, sep, tail = text.partition("\nORIGIN")
        stages["genbank"] = normalise_time(head) + sep + (f" <sha1 {hashlib.sha1(tail.encode()).hexdigest()[:12]}>"
                                                          if sep else "")
    except Exception as err:  # pylint: disable=broad-except
        stages["genbank"] = crash_dump(err)
    try:
        texts = []
        with tempfile.TemporaryDirectory(prefix="c17-", dir="/tmp") as tmp:
            bio = record.to_biopython()
            for region in record.get_regions():
                region.write_to_genbank(directory=tmp, record=bio)
            for name in sorted(os.listdir(tmp)):
                with open(os.path.join(tmp, name), encoding="utf-8") as handle:
                    head, sep, tail = handle.read().partition("\nORIGIN")
                texts.append([name, normalise_time(head)])
        stages["region_genbank"] = texts
    except Exception as err:  # pylint: disable=broad-except
        stages["region_genbank"] = crash_dump(err)


def cds_stage(record, stages) -> None:
    out = []
    for cds in record.get_cds_features():
        functions = [str(f) for f in cds.gene_functions]
        domains = [d.name for d in cds.sec_met.domains] if cds.sec_met else []
        if functions or domains:
            out.append({"cds": cds.get_name(), "gene_functions": functions, "sec_met_domains": domains})
    stages["cds_annotations"] = out


def add_notes(record, order, prng) -> None:
    """ several notes per feature, so that their (sorted) order reaches the output """
    for i, cds in enumerate(record.get_cds_features()):
        if i % 2 == 0:
            notes = ["note beta", "note alpha", "note gamma", "another note"]
            if order:
                prng.shuffle(notes)
            cds.notes.extend(notes)


def name_record(record) -> None:
    record.id = "c17rec"
    record.name = "c17rec"
    record.description = "generated"
    record.annotations["source"] = "generated"
    record.annotations["organism"] = "generated"
    record.annotations["molecule_type"] = "DNA"
    record.annotations.setdefault("topology", "linear")


# ---------------------------------------------------------------------------------------------
# world: the real detection pipeline
# ---------------------------------------------------------------------------------------------

def run_world(case, order, prng):
    stages = _run_world_once(case, order, random.Random(prng.random()))
    if case.get("earlier_subregion") and "detection_results_json" in stages:
        # the same replay again in this process on a heap fragmented otherwise: what is reported must not move with
        # the addresses the objects happen to get
        repeats = []
        for extra in range(3):
            fragment_heap(random.Random(f"repeat/{os.environ.get('PYTHONHASHSEED', '')}/{order}/{extra}"), per_class=16)
            again = _run_world_once(case, order, random.Random(prng.random()))
            text = again.get("detection_results_json")
            repeats.append(hashlib.sha1(text.encode()).hexdigest()[:12] if isinstance(text, str) else "crash")
        first = hashlib.sha1(stages["detection_results_json"].encode()).hexdigest()[:12] \
            if isinstance(stages["detection_results_json"], str) else "crash"
        stages["detection_results_repeated_in_process"] = ["same" if digest == first else digest for digest in repeats]
    return stages


def _run_world_once(case, order, prng):
    from antismash.common.hmm_rule_parser import cluster_prediction as CP
    from antismash.detection import hmm_detection as HD
    from vf.gen import worlds as W
    world = dict(case["world"])
    rule_order = None
    if order:
        world["genes"] = permute_dict(world["genes"], prng)
        world["hits"] = permute_dict({g: permute_dict(hs, prng) for g, hs in world["hits"].items()}, prng)
        if order == 2:
            rule_order = [r["name"] for r in world["rules"]]
            prng.shuffle(rule_order)
    stages = {}
    record = W.build_record(world)
    if case.get("earlier_subregion"):
        from antismash.common.secmet.features import SubRegion
        from antismash.common.secmet.locations import FeatureLocation
        start, end = case["earlier_subregion"]
        record.add_subregion(SubRegion(FeatureLocation(start, end, 1), tool="earlier-tool", label="earlier"))
    name_record(record)
    add_notes(record, order, prng)
    # in half of the worlds every other profile is an HMM signature whose hits come from a stand-in for find_hmmer_hits
    # (no HMMER here), so genes carry HMMer hits and dynamic hits in one run; the stand-in answers in the order of the
    # input, which is the same in every child for one (input, order)
    hmm_names = set()
    if zlib.crc32(repr(sorted(case["world"]["genes"])).encode()) % 2 == 0:
        hmm_names = set(sorted(W.PROFILES)[::2])
    ruleset = W.build_ruleset(world, order=rule_order, hmm_names=hmm_names)
    captured = {}
    original = CP.apply_cluster_rules
    original_get = HD.get_ruleset
    original_find = CP.find_hmmer_hits
    if hmm_names:
        CP.find_hmmer_hits = lambda *_args, **_kwargs: W.hmmer_hits_of(world, hmm_names)
        stages["mixed_hit_kinds"] = sum(1 for hs in world["hits"].values()
                                        if set(hs) & hmm_names and len(set(hs) - hmm_names) >= 2)

    def recording(*args, **kwargs):
        result = original(*args, **kwargs)
        captured["domains"] = {cds: {rule: sorted(v) for rule, v in sorted(d.items())}
                               for cds, d in sorted(result[0].items())}
        captured["anchors"] = {rule: sorted(v) for rule, v in sorted(result[1].items())}
        return result
    CP.apply_cluster_rules = recording
    HD.get_ruleset = lambda _options: ruleset
    options = SimpleNamespace(hmmdetection_strictness="relaxed", hmmdetection_limit_to_rules=[],
                              hmmdetection_limit_to_categories=[], taxon="bacteria")
    try:
        results = HD.run_on_record(record, None, options)
    except Exception as err:  # pylint: disable=broad-except
        stages["detection_crash"] = crash_dump(err)
        return stages
    finally:
        CP.apply_cluster_rules = original
        HD.get_ruleset = original_get
        CP.find_hmmer_hits = original_find
    from antismash.common import json as as_json
    stages["anchor_sets"] = captured.get("anchors")
    stages["definition_domains"] = captured.get("domains")
    protoclusters = results.get_predicted_protoclusters()
    stages["protoclusters"] = [{"product": p.product, "core": str(p.core_location), "location": str(p.location),
                                "cutoff": p.cutoff, "neighbourhood": p.neighbourhood_range,
                                "rule": p.detection_rule} for p in protoclusters]
    try:
        stages["detection_results_json"] = as_json.dumps(results.to_json())
    except Exception as err:  # pylint: disable=broad-except
        stages["detection_results_json"] = crash_dump(err)
    try:
        for proto in protoclusters:
            record.add_protocluster(proto)
    except Exception as err:  # pylint: disable=broad-except
        stages["area_crash"] = crash_dump(err)
        return stages
    area_stages(record, stages)
    cds_stage(record, stages)
    output_stages(record, {"antismash.detection.hmm_detection": results}, stages)
    return stages


# ---------------------------------------------------------------------------------------------
# layout: protoclusters given, formation and regions are the code under test
# ---------------------------------------------------------------------------------------------

def run_layout(case, order, prng):
    from vf.gen import layout as LW
    genes = list(case["genes"])
    protos = list(case["protoclusters"])
    if order:
        prng.shuffle(protos)
        if order == 2:
            prng.shuffle(genes)
    stages = {}
    record = LW.make_record(case["L"], case["circular"])
    name_record(record)
    for g in genes:
        record.add_cds_feature(LW.make_cds(g["name"], g["loc"], g["core"]))
    add_notes(record, order, prng)
    try:
        for p in protos:
            record.add_protocluster(LW.make_protocluster(p["core"], p["extent"], p["product"], cutoff=10,
                                                         neighbourhood=p["nb"] * 100, rule="rule-" + p["product"]))
    except Exception as err:  # pylint: disable=broad-except
        stages["area_crash"] = crash_dump(err)
        return stages
    area_stages(record, stages)
    output_stages(record, {}, stages)
    return stages


def run_ruleset(case, order, prng):
    """ the real get_ruleset on the shipped rule files; the limiting names arrive in another order per replay """
    from antismash.detection import hmm_detection as HD
    names = list(case["names"])
    cats = list(case["categories"])
    if order:
        prng.shuffle(names)
        prng.shuffle(cats)
    options = SimpleNamespace(hmmdetection_strictness=case["strictness"], hmmdetection_limit_to_rules=names,
                              hmmdetection_limit_to_categories=cats, taxon=case["taxon"],
                              hmmdetection_fungal_cutoff_multiplier=1.5,
                              hmmdetection_fungal_neighbourhood_multiplier=0.5)
    HD._RULESETS.clear()        # pylint: disable=protected-access
    try:
        ruleset = HD.get_ruleset(options)
    except Exception as err:  # pylint: disable=broad-except
        return {"ruleset_crash": crash_dump(err)}
    return {"ruleset_rules": [[rule.name, rule.category, rule.cutoff, rule.neighbourhood, sorted(rule.superiors or [])]
                              for rule in ruleset.rules]}


def run_annotate(case, _order, _prng):
    """ the real main.annotate_records: the results of the analysis modules are added to the record in the order the
        modules ran (the order of the results dictionary), each marking the same stretch """
    import antismash.main as main_module
    from antismash.common import serialiser
    from antismash.common.module_results import ModuleResults
    from antismash.common.secmet.features import Feature
    from antismash.common.secmet.locations import FeatureLocation
    from antismash.common.secmet.test.helpers import DummyRecord

    class Marking(ModuleResults):
        def __init__(self, record_id, label):
            super().__init__(record_id)
            self.label = label

        def to_json(self):
            return {"record_id": self.record_id, "label": self.label}

        def add_to_record(self, record):
            feature = Feature(FeatureLocation(10, 40, 1), feature_type="misc_feature", created_by_antismash=True)
            feature.notes.append(self.label)
            record.add_feature(feature)

    record = DummyRecord(seq="A" * 100, record_id="annotated")
    record.record_index = 1
    results = {name: Marking(record.id, name.rsplit(".", 1)[-1]) for name in case["modules"]}
    main_module.annotate_records(serialiser.AntismashResults("in.gbk", [record], [results], "verif"))
    return {"annotation_order": [feature.notes[0] for feature in record.get_generics()],
            "genbank_order": [f.qualifiers.get("note", [""])[0] for f in record.to_biopython().features
                              if f.type == "misc_feature"]}


RUNNERS = {"annotate": run_annotate, "ruleset": run_ruleset, "refine": run_refine, "filter": run_filter, "hmmer": run_hmmer, "world": run_world, "layout": run_layout}


def code_fingerprint() -> str:
    """ digest of the source of every loaded antismash module: the parent refuses to compare children that
        ran different code (the tree under test may change while a batch is running) """
    digest = hashlib.sha1()
    for name in sorted(sys.modules):
        if name == "antismash" or name.startswith("antismash."):
            path = getattr(sys.modules[name], "__file__", None)
            if path and path.endswith(".py") and os.path.exists(path):
                with open(path, "rb") as handle:
                    digest.update(name.encode() + b"\0" + handle.read())
    return digest.hexdigest()[:16]


def main() -> int:
    faulthandler.enable()
    logging.disable(logging.CRITICAL)
    t_start = time.monotonic()
    import antismash.detection.hmm_detection  # noqa: F401  pylint: disable=unused-import,import-outside-toplevel
    import antismash.common.serialiser  # noqa: F401  pylint: disable=unused-import,import-outside-toplevel
    import antismash.common.hmmer  # noqa: F401  pylint: disable=unused-import,import-outside-toplevel
    import vf.gen.layout  # noqa: F401  pylint: disable=unused-import,import-outside-toplevel
    import vf.gen.worlds  # noqa: F401  pylint: disable=unused-import,import-outside-toplevel
    t_imported = time.monotonic()
    with open(sys.argv[1], encoding="utf-8") as handle:
        plan = json.load(handle)
    layout_key = int(plan.get("layout_key", 0))
    seed_env = os.environ.get("PYTHONHASHSEED", "")
    dumps = {}
    for idx, case in enumerate(plan["cases"]):
        runner = RUNNERS[case["kind"]]
        for order in range(int(plan.get("orders", 3))):
            prng = random.Random(case.get("perm_seed", 0) * 7 + order)
            fragment_heap(random.Random(f"{seed_env}/{layout_key}/{idx}/{order}"))
            try:
                stages = runner(case, order, prng)
            except Exception as err:  # pylint: disable=broad-except
                stages = {"harness_crash": crash_dump(err)}
            dumps[f"{idx}/{order}"] = stages
    meta = {"hashseed_env": seed_env, "hash_randomization": sys.flags.hash_randomization,
            "hash_probe": hash("c17-probe") & 0xFFFFFFFF, "layout_key": layout_key,
            "code_fingerprint": code_fingerprint(), "import_s": round(t_imported - t_start, 2), "work_s": round(time.monotonic() - t_imported, 2),
            "repo": os.path.dirname(os.path.dirname(sys.modules["antismash"].__file__))
            if "antismash" in sys.modules else None}
    with open(sys.argv[2], "w", encoding="utf-8") as handle:
        json.dump({"meta": meta, "dumps": dumps}, handle)
    return 0


if __name__ == "__main__":
    sys.exit(main())
