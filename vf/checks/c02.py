"""C02 Rule text is parsed by the documented grammar, precedence and aliases.

Differential monitor: every generated rule file is parsed by the real parser and by an independent
recursive-descent parser of the documented grammar (vf.models.rules_ref.RefParser). Denotations are
compared structurally (canonical trees) and behaviourally (real detect vs reference evaluation on
random hit layouts, through the C01 oracle). Round trip through reconstruct_rule_text, the listed
ill-formed classes and single-token corruptions are executed against the real parser as well.
"""
from __future__ import annotations

import os
import tempfile
import zlib

from antismash.common.hmm_rule_parser import rule_parser as RP
from antismash.common.hmm_rule_parser.structures import Multipliers

from vf.checks import c01
from vf.gen import rules as RG
from vf.models import rules_ref as R

PROPERTY = "C02"
LEVEL = "exploration"
PARALLEL = True
RULE = ("rule files of 1-6 rules and 0-3 DEFINE aliases (spliced in for random sub-expressions, as first token "
        "after CONDITIONS, inside minimum lists, nested in later alias definitions), redundant parentheses, "
        "tabs/newlines/comment lines between tokens, optional DESCRIPTION/EXAMPLE/RELATED/SUPERIORS/EXTENDERS, "
        "files split over 1-3 texts parsed with existing_rules/existing_aliases, random multipliers; the three "
        "shipped rule files; every listed ill-formed class; every single-token deletion/duplication/swap of "
        "sampled files. Non-trivial: >= 2 different binary operators, or an alias use, or a comment inside the "
        "conditions; distinct by file text.")
ASSUMPTIONS = [
    "The reference parser implements the grammar block and prose of the rule_parser docstring; texts on which "
    "the documentation is silent (minimum(0,..), leading zeros, minscore inside cds, cds((a))) are counted as "
    "unspecified, never as violations.",
    "Meaning equality is decided on 6 random hit layouts per rule in addition to the canonical tree comparison.",
]
REQUIRED = ["history:parse-on-shared-base", "op:parse-compare", "op:tree-compare", "op:eval-compare", "op:roundtrip", "op:reject-class",
            "op:corruption", "feature:alias-use", "feature:comment", "feature:separator-cr-ff-vt", "feature:multi-text", "feature:multiplier",
            "feature:superiors-transitive", "feature:extenders", "shipped:rules-compared", "op:create_rules-on-files",
            "corruption:both-reject", "corruption:both-accept"]

CATEGORIES = {"catA", "catB"}
ERRORS = (ValueError, SyntaxError)


def real_to_ast(cond):
    if isinstance(cond, RP.SingleCondition):
        node = ["id", cond.name]
    elif isinstance(cond, RP.MinimumCondition):
        node = ["min", cond.count, sorted(cond.options)]
    elif isinstance(cond, RP.ScoreCondition):
        node = ["score", cond.name, cond.score]
    elif isinstance(cond, RP.AndCondition):
        node = ["and", [real_to_ast(op) for op in cond.operands]]
    else:
        ops = [real_to_ast(op) for op in cond.operands]
        assert all(o == RP.TokenTypes.OR for o in cond.operators), "mixed operators in one Conditions"
        inner = ops[0] if len(ops) == 1 else ["or", ops]
        node = ["cds", inner] if isinstance(cond, RP.CDSCondition) else inner
    return ["not", node] if cond.negated else node


def rule_dict(rule) -> dict:
    return {"name": rule.name, "category": rule.category, "cutoff": rule.cutoff, "neighbourhood": rule.neighbourhood,
            "conditions": R.canonical(real_to_ast(rule.conditions)), "superiors": sorted(rule.superiors or []),
            "related": list(rule.related or []),
            "extenders": R.canonical(real_to_ast(rule.extenders)) if rule.extenders else None}


# ---------------------------------------------------------------------------
# file generator
# ---------------------------------------------------------------------------

def _subtrees(ast, out):
    out.append(ast)
    if ast[0] in ("not", "cds"):
        _subtrees(ast[1], out)
    elif ast[0] in ("and", "or"):
        for x in ast[1]:
            _subtrees(x, out)
    return out


def gen_file(rng):
    """ returns {"texts": [...], "multipliers": (c, n), "features": set} """
    features = set()
    n_rules = rng.randrange(1, 7)
    aliases = {}   # name -> token text
    chunks = []    # list of (kind, text)
    names = []
    for i in range(n_rules):
        # maybe an alias definition before this rule
        if len(aliases) < 3 and rng.random() < 0.35:
            alias = f"al{len(aliases)}"
            kind = rng.random()
            if kind < 0.25:
                body = ", ".join(rng.sample(RG.PROFILES, rng.randrange(2, 4)))  # for lists
                aliases[alias] = ("list", body)
            else:
                sub = RG.gen_ast(rng, RG.PROFILES, rng.choice([0, 1, 2]), in_cds=rng.random() < 0.5)
                body = RG.render(sub, rng, 0.2)
                if aliases and rng.random() < 0.3:
                    other = rng.choice([a for a, (k, _) in aliases.items() if k == "expr"] or [None])
                    if other:
                        body = f"{body} {rng.choice(['and', 'or'])} {other}"
                        features.add("alias-in-alias")
                aliases[alias] = ("expr", body)
            chunks.append(("alias", f"DEFINE {alias} AS {body}"))
        name = f"r{i}"
        ast = RG.gen_ast(rng, RG.PROFILES, rng.choice([1, 2, 3, 4]))
        for _ in range(10):
            if R.has_positive(ast):
                break
            ast = RG.gen_ast(rng, RG.PROFILES, rng.choice([1, 2, 3]))
        text = RG.render(ast, rng, extra_parens=rng.choice([0.0, 0.3, 0.6]))
        # splice aliases in
        expr_aliases = [a for a, (k, _) in aliases.items() if k == "expr"]
        list_aliases = [a for a, (k, _) in aliases.items() if k == "list"]
        if expr_aliases and rng.random() < 0.6:
            alias = rng.choice(expr_aliases)
            mode = rng.random()
            if mode < 0.3:
                text = f"{alias} {rng.choice(['and', 'or'])} {text}"      # first token after CONDITIONS
            elif mode < 0.6:
                text = f"{text} {rng.choice(['and', 'or'])} ({alias})"
            else:
                text = f"{text} {rng.choice(['and', 'or'])} not ({alias})"
            features.add("alias-use")
        if list_aliases and rng.random() < 0.5:
            alias = rng.choice(list_aliases)
            text = f"{text} {rng.choice(['and', 'or'])} minimum({rng.randrange(1, 4)}, [{alias}])"
            features.add("alias-use")
            features.add("alias-in-list")
        parts = [f"RULE {name}", f"CATEGORY {rng.choice(sorted(CATEGORIES))}"]
        if rng.random() < 0.4:
            parts.append("DESCRIPTION " + rng.choice(["makes thing-1 v1.2", "a b c", "x.y (sort of) 12", "some, text [here]"]))
        for _ in range(rng.choice([0, 0, 1, 2])):
            parts.append(f"EXAMPLE NCBI AB{rng.randrange(100, 999)}.{rng.randrange(1, 4)} {rng.randrange(1, 500)}-{rng.randrange(500, 9000)}"
                         + rng.choice(["", " compound-x", " some compound 2"]))
        if rng.random() < 0.3:
            parts.append("RELATED " + ", ".join(rng.sample(RG.PROFILES, rng.randrange(1, 3))))
        if names and rng.random() < 0.45:
            sups = rng.sample(names, rng.randrange(1, min(3, len(names)) + 1))
            parts.append("SUPERIORS " + ", ".join(sups))
            features.add("superiors")
        parts.append(f"CUTOFF {rng.randrange(1, 40)}")
        parts.append(f"NEIGHBOURHOOD {rng.randrange(1, 40)}")
        parts.append(f"CONDITIONS {text}")
        if rng.random() < 0.3:
            if rng.random() < 0.5:
                parts.append(f"EXTENDERS {rng.choice(RG.PROFILES)}")
            else:
                a, b = rng.sample(RG.PROFILES, 2)
                parts.append(f"EXTENDERS cds({a} {rng.choice(['and', 'or'])} {rng.choice(['', 'not '])}{b})")
            features.add("extenders")
        names.append(name)
        chunks.append(("rule", " ".join(parts)))
    # layout jitter
    rendered = []
    for kind, chunk in chunks:
        if rng.random() < 0.6:
            jittered = RG.jitter_layout(chunk, rng)
            if "#" in jittered:
                features.add("comment")
            if any(ch in jittered for ch in "\r\x0b\x0c"):
                features.add("separator-cr-ff-vt")
            rendered.append(jittered)
        else:
            rendered.append(chunk)
    # split over texts
    n_texts = rng.choice([1, 1, 2, 3])
    n_texts = min(n_texts, len(rendered))
    cuts = sorted(rng.sample(range(1, len(rendered)), n_texts - 1)) if n_texts > 1 else []
    texts = []
    prev = 0
    for cut in cuts + [len(rendered)]:
        texts.append("\n".join(rendered[prev:cut]) + "\n")
        prev = cut
    if len(texts) > 1:
        features.add("multi-text")
    mult = (1.0, 1.0)
    if rng.random() < 0.4:
        mult = (rng.choice([0.5, 1.5, 2.0, 1.0, 0.1]), rng.choice([0.5, 1.5, 3.0, 1.0]))
        features.add("multiplier")
    return {"texts": texts, "multipliers": list(mult), "features": sorted(features)}


def parse_real(texts, mult):
    if len(texts) > 1 and zlib.crc32("".join(texts).encode()) % 3 == 0:
        return parse_real_files(texts, mult)
    rules = []
    aliases = {}
    for text in texts:
        parser = RP.Parser(text, set(RG.PROFILES), set(CATEGORIES), rules, existing_aliases=aliases,
                           multipliers=Multipliers(cutoff=mult[0], neighbourhood=mult[1]))
        aliases.update(parser.aliases)
        rules = parser.rules
    return rules


def parse_real_files(texts, mult):
    """ the same texts as rule files through the pipeline's own create_rules; files need not end in a newline, and a
        comment on the last line of a file ends with the file (varied by a checksum of the text) """
    from antismash.common.hmm_rule_parser.cluster_prediction import create_rules
    COUNTS["create_rules"] = COUNTS.get("create_rules", 0) + 1
    with tempfile.TemporaryDirectory(prefix="vf-c02-") as tmp:
        paths = []
        for i, text in enumerate(texts):
            style = zlib.crc32(text.encode()) % 3
            if style == 1:
                text = text.rstrip("\n")
            elif style == 2:
                text = text.rstrip("\n") + " # a comment on the last line, no newline after it"
            path = os.path.join(tmp, f"rules{i}.txt")
            with open(path, "w", encoding="utf-8") as handle:
                handle.write(text)
            paths.append(path)
        return create_rules(paths, set(RG.PROFILES), set(CATEGORIES),
                            Multipliers(cutoff=mult[0], neighbourhood=mult[1]))


COUNTS: dict = {}


def parse_ref(texts, mult):
    rules = []
    aliases = {}
    flags = {"unspecified_int": False}
    for text in texts:
        parser = R.RefParser(text, set(RG.PROFILES), set(CATEGORIES), rules, aliases, mult[0], mult[1])
        aliases = parser.aliases
        rules = parser.rules
        flags["unspecified_int"] |= parser.unspecified_int
    return rules, flags


def compare_parsers(ctx, case, rng, expect_accept=True):
    """ returns (real_rules or None, ref_rules or None) """
    texts, mult = case["texts"], case["multipliers"]
    ctx.count("op:parse-compare")
    ref_rules, ref_err, unspecified = None, None, False
    try:
        ref_rules, flags = parse_ref(texts, mult)
        unspecified = flags["unspecified_int"]
    except R.Unspecified:
        unspecified = True
    except R.RefSyntaxError as err:
        ref_err = err
    real_rules, real_err = None, None
    try:
        real_rules = parse_real(texts, mult)
    except ERRORS as err:
        real_err = err
    except Exception as err:  # pylint: disable=broad-except
        # still "rejected with an error", only of an unusual type
        ctx.count("rejected-with-unusual-exception:" + type(err).__name__)
        real_err = err
    if unspecified:
        ctx.count("unspecified:documentation-silent")
        return real_rules, None
    if ref_err is not None and real_rules is not None:
        ctx.violate("ill-formed-text-accepted", {"reference_error": str(ref_err)[:200],
                                                 "unknown_profile_only_in_extenders": getattr(ref_err, "only_in_extenders", False),
                                                 "rules": [str(r) for r in real_rules][:4]}, case)
        return real_rules, None
    if ref_rules is not None and real_err is not None:
        ctx.violate("well-formed-text-rejected", {"error": str(real_err)[:300]}, case)
        return None, ref_rules
    if ref_err is not None:
        return None, None
    # both accepted: compare denotations
    ctx.count("op:tree-compare")
    real_d = [rule_dict(r) for r in real_rules]
    ref_d = [r.as_dict() for r in ref_rules]
    if len(real_d) != len(ref_d):
        ctx.violate("rule-count-differs", {"real": len(real_d), "ref": len(ref_d)}, case)
        return real_rules, ref_rules
    for a, b in zip(real_d, ref_d):
        for key in a:
            if a[key] != b[key]:
                ctx.violate(f"denotation-differs:{key}", {"rule": a["name"], "real": a[key], "reference": b[key]}, case)
        if len(b["superiors"]) > 1:
            ctx.count("feature:superiors-transitive")
    # behavioural comparison through the C01 oracle with the reference AST
    for rule, ref in zip(real_rules, ref_rules):
        for _ in range(6):
            layout = RG.gen_hit_layout(rng, RG.PROFILES, [max(1, rule.cutoff)] if rule.cutoff < 20000 else [3000])
            feats, results = c01.build_inputs(layout)
            wrap = layout["L"] if layout["circular"] else 0
            for gene in sorted(results):
                ctx.count("op:eval-compare")
                ok, res = ctx.guard("detect-crash", case, rule.detect, gene, feats, results, circular_origin=wrap)
                if ok:
                    c01.oracle_detect(ctx, rule, gene, feats, results, wrap, res, ast=ref.conditions,
                                      case={"file": case, "layout": layout, "gene": gene})
    return real_rules, ref_rules


def roundtrip(ctx, case, real_rules, rng):
    for rule in real_rules:
        ctx.count("op:roundtrip")
        text = rule.reconstruct_rule_text()
        try:
            again = RP.Parser(text, set(RG.PROFILES), set(CATEGORIES)).rules[0]
        except ERRORS as err:
            ctx.violate("roundtrip-text-rejected", {"text": text, "error": str(err)[:200]}, case)
            continue
        facts = {"rule": rule.name, "text": text, "cutoff": rule.cutoff, "neighbourhood": rule.neighbourhood,
                 "cutoff_is_whole_kb": rule.cutoff % 1000 == 0 and rule.cutoff >= 1000,
                 "neighbourhood_is_whole_kb": rule.neighbourhood % 1000 == 0 and rule.neighbourhood >= 1000}
        if again.name != rule.name:
            ctx.violate("roundtrip-name", dict(facts, again=again.name), case)
        if (again.cutoff, again.neighbourhood) != (rule.cutoff, rule.neighbourhood):
            ctx.violate("roundtrip-distances", dict(facts, again=[again.cutoff, again.neighbourhood]), case)
        if str(again.conditions) != str(rule.conditions):
            ctx.violate("roundtrip-condition-text-fixed-point", dict(facts, again=str(again.conditions)), case)
        if R.canonical(real_to_ast(again.conditions)) != R.canonical(real_to_ast(rule.conditions)):
            ctx.violate("roundtrip-condition-meaning", dict(facts, again=str(again.conditions)), case)


# ---------------------------------------------------------------------------
# ill-formed classes and corruptions
# ---------------------------------------------------------------------------

def illformed_variants(rng):
    """ (class, texts) pairs, each in exactly one of the classes the statement lists """
    base = "RULE r0 CATEGORY catA CUTOFF 5 NEIGHBOURHOOD 5 CONDITIONS a and (b or c)\n"
    second = "RULE r1 CATEGORY catB CUTOFF 5 NEIGHBOURHOOD 5 CONDITIONS d\n"
    prof = rng.choice(RG.PROFILES)
    yield "unknown-profile", [base + f"RULE r1 CATEGORY catA CUTOFF 1 NEIGHBOURHOOD 1 CONDITIONS {prof} and nosuchprofile\n"]
    yield "unknown-profile-in-cds", [f"RULE r1 CATEGORY catA CUTOFF 1 NEIGHBOURHOOD 1 CONDITIONS cds({prof} and zz9)\n"]
    yield "unknown-profile-in-minimum", [f"RULE r1 CATEGORY catA CUTOFF 1 NEIGHBOURHOOD 1 CONDITIONS minimum(1, [{prof}, zz9])\n"]
    yield "unknown-profile-in-minscore", ["RULE r1 CATEGORY catA CUTOFF 1 NEIGHBOURHOOD 1 CONDITIONS minscore(zz9, 10)\n"]
    yield "unknown-profile-in-extenders", [f"RULE r1 CATEGORY catA CUTOFF 1 NEIGHBOURHOOD 1 CONDITIONS {prof} EXTENDERS zz9\n"]
    yield "unknown-profile-via-alias", [f"DEFINE al AS zz9 or {prof}\nRULE r1 CATEGORY catA CUTOFF 1 NEIGHBOURHOOD 1 CONDITIONS al\n"]
    yield "unknown-category", [base.replace("catA", "catZ")]
    yield "duplicate-rule", [base + base.replace("a and", "e and")]
    yield "duplicate-rule-across-texts", [base, base.replace("a and", "e and")]
    yield "duplicate-alias", ["DEFINE x AS a\nDEFINE x AS b\n" + base]
    yield "duplicate-alias-across-texts", ["DEFINE x AS a\n" + base, "DEFINE x AS b\n" + second]
    # a name can be an alias or a rule, never both (the alias body being a single identifier, a group, or longer)
    for body in ("b", "(b or c)", "b or c"):
        yield "rule-named-as-alias", [f"DEFINE x AS {body}\n" + base + second.replace("RULE r1", "RULE x")]
        yield "rule-named-as-alias-across-texts", [f"DEFINE x AS {body}\n" + base, second.replace("RULE r1", "RULE x")]
    yield "alias-named-as-rule", [base + "DEFINE r0 AS b\n" + second]
    yield "alias-named-as-rule-across-texts", [base, "DEFINE r0 AS b\n" + second]
    # a lone identifier in cds(...) stays a lone identifier under any number of redundant parentheses and one negation
    for body in ("b", "(b)", "((b))", "(((b)))", "not b", "(not (b))", "not ((b))", "((not b))"):
        yield "cds-of-a-single-identifier", [f"RULE r0 CATEGORY catA CUTOFF 5 NEIGHBOURHOOD 5 CONDITIONS a and cds({body})\n"]
    yield "repeated-operand-and", [f"RULE r0 CATEGORY catA CUTOFF 5 NEIGHBOURHOOD 5 CONDITIONS {prof} and b and {prof}\n"
                                   if prof != "b" else "RULE r0 CATEGORY catA CUTOFF 5 NEIGHBOURHOOD 5 CONDITIONS b and a and b\n"]
    yield "repeated-operand-or", ["RULE r0 CATEGORY catA CUTOFF 5 NEIGHBOURHOOD 5 CONDITIONS a or (b and c) or a\n"]
    yield "repeated-operand-group", ["RULE r0 CATEGORY catA CUTOFF 5 NEIGHBOURHOOD 5 CONDITIONS (a and b) or (a and b)\n"]
    # the same operand again under parentheses that change nothing, at any depth
    for text in ("cds(a and e) and cds((a and e))", "(a and b) or (a and (b))", "d or cds(a and (b or c)) or cds(a and ((b or c)))",
                 "(a and (b or c)) or (a and ((b) or c))"):
        yield "repeated-operand-under-deeper-parentheses", [f"RULE r0 CATEGORY catA CUTOFF 5 NEIGHBOURHOOD 5 CONDITIONS {text}\n"]
    # the options of a minimum() are a set: the same options in another order are the same operand
    for text in ("minimum(2, [a, b, c]) or minimum(2, [c, a, b])", "d and minimum(1, [a, b]) and minimum(1, [b, a])",
                 "d and not minimum(2, [a, b]) and not minimum(2, [b, a])", "d and (minimum(2, [a, c]) or e or minimum(2, [c, a]))"):
        yield "repeated-operand-minimum-reordered", [f"RULE r0 CATEGORY catA CUTOFF 5 NEIGHBOURHOOD 5 CONDITIONS {text}\n"]
    yield "repeated-operand-minimum-reordered", ["DEFINE some AS minimum(2, [a, b, c])\n"
                                                 "RULE r0 CATEGORY catA CUTOFF 5 NEIGHBOURHOOD 5 CONDITIONS d and some and minimum(2, [c, b, a])\n"]
    yield "repeated-operand-minimum", ["RULE r0 CATEGORY catA CUTOFF 5 NEIGHBOURHOOD 5 CONDITIONS minimum(2, [a, b, a])\n"]
    # where the grammar wants an integer only digits will do (Python's int() also reads 2_0, -0, +5 and ' 5')
    for bad in ("2_0", "-0", "+5", "0_1", "5.0", "1e1"):
        yield "malformed-integer", [base.replace("CUTOFF 5", f"CUTOFF {bad}")]
        yield "malformed-integer", [base.replace("NEIGHBOURHOOD 5", f"NEIGHBOURHOOD {bad}")]
        yield "malformed-integer", [f"RULE r0 CATEGORY catA CUTOFF 5 NEIGHBOURHOOD 5 CONDITIONS minscore(b, {bad})\n"]
        yield "malformed-integer", [f"RULE r0 CATEGORY catA CUTOFF 5 NEIGHBOURHOOD 5 CONDITIONS minimum({bad}, [a, b, c])\n"]
    for marker in ("CUTOFF 5 ", "NEIGHBOURHOOD 5 ", "CATEGORY catA ", "CONDITIONS a and (b or c)"):
        yield "missing-" + marker.split()[0], [base.replace(marker, "")]
    yield "missing-CONDITIONS-body", ["RULE r0 CATEGORY catA CUTOFF 5 NEIGHBOURHOOD 5 CONDITIONS\n"]
    yield "unbalanced-open", ["RULE r0 CATEGORY catA CUTOFF 5 NEIGHBOURHOOD 5 CONDITIONS a and (b or c\n"]
    yield "unbalanced-close", ["RULE r0 CATEGORY catA CUTOFF 5 NEIGHBOURHOOD 5 CONDITIONS a and b or c)\n"]
    yield "unbalanced-cds", ["RULE r0 CATEGORY catA CUTOFF 5 NEIGHBOURHOOD 5 CONDITIONS cds(a and b\n" + second]
    yield "all-negated-single", ["RULE r0 CATEGORY catA CUTOFF 5 NEIGHBOURHOOD 5 CONDITIONS not a\n"]
    yield "all-negated-and", ["RULE r0 CATEGORY catA CUTOFF 5 NEIGHBOURHOOD 5 CONDITIONS not a and not c\n"]
    yield "all-negated-group", ["RULE r0 CATEGORY catA CUTOFF 5 NEIGHBOURHOOD 5 CONDITIONS not (a or c)\n"]
    yield "all-negated-cds", ["RULE r0 CATEGORY catA CUTOFF 5 NEIGHBOURHOOD 5 CONDITIONS not cds(a and c)\n"]
    yield "all-negated-minimum", ["RULE r0 CATEGORY catA CUTOFF 5 NEIGHBOURHOOD 5 CONDITIONS not minimum(2, [a, c]) or not b\n"]
    yield "superior-undefined", [base.replace("CUTOFF", "SUPERIORS r9 CUTOFF")]
    yield "superior-defined-later", [base.replace("CUTOFF", "SUPERIORS r1 CUTOFF") + second]
    yield "superior-is-self", [base.replace("CUTOFF", "SUPERIORS r0 CUTOFF")]


def corruptions(tokens, rng, limit):
    """ single-token deletions, duplications and swaps with a token of another kind """
    positions = list(range(len(tokens)))
    rng.shuffle(positions)
    other_kinds = ["and", "or", "not", "(", ")", "[", "]", ",", "cds", "minimum", "minscore", "RULE", "CONDITIONS",
                   "CUTOFF", "7", "a", "zz9", "DEFINE", "AS", "EXTENDERS", "SUPERIORS", "CATEGORY"]
    made = 0
    for pos in positions:
        for kind in ("delete", "duplicate", "swap"):
            if made >= limit:
                return
            toks = list(tokens)
            if kind == "delete":
                del toks[pos]
            elif kind == "duplicate":
                toks.insert(pos, toks[pos])
            else:
                repl = rng.choice(other_kinds)
                if repl == toks[pos]:
                    continue
                toks[pos] = repl
            made += 1
            yield kind, pos, " ".join(toks)


def shipped_rules(ctx):
    from antismash.common.signature import get_signature_profiles
    from antismash.detection import hmm_detection
    signature_names = {sig.name for sig in hmm_detection.get_signature_profiles()}
    signature_names.update(set(hmm_detection.DYNAMIC_PROFILES))
    categories = {cat.name for cat in hmm_detection.get_rule_categories()}
    texts = []
    for path in hmm_detection._get_rule_files_for_strictness("loose"):  # pylint: disable=protected-access
        with open(path, encoding="utf-8") as handle:
            texts.append(handle.read())
    real_rules, aliases = [], {}
    for text in texts:
        parser = RP.Parser(text, signature_names, categories, real_rules, aliases)
        real_rules = parser.rules
    ref_rules, ref_aliases = [], {}
    for text in texts:
        parser = R.RefParser(text, signature_names, categories, ref_rules, ref_aliases)
        ref_rules, ref_aliases = parser.rules, parser.aliases
    case = {"shipped": [os.path.basename(p) for p in hmm_detection._get_rule_files_for_strictness("loose")]}  # pylint: disable=protected-access
    if len(real_rules) != len(ref_rules):
        ctx.violate("shipped-rule-count", {"real": len(real_rules), "ref": len(ref_rules)}, case)
        return
    for rule, ref in zip(real_rules, ref_rules):
        ctx.count("shipped:rules-compared")
        a, b = rule_dict(rule), ref.as_dict()
        for key in a:
            if a[key] != b[key]:
                ctx.violate(f"shipped-denotation-differs:{key}", {"rule": a["name"], "real": a[key], "reference": b[key]}, case)
        text = rule.reconstruct_rule_text()
        try:
            again = RP.Parser(text, signature_names, categories).rules[0]
            if str(again.conditions) != str(rule.conditions) or again.cutoff != rule.cutoff \
                    or again.neighbourhood != rule.neighbourhood or again.name != rule.name:
                ctx.violate("shipped-roundtrip", {"rule": rule.name}, case)
        except ERRORS as err:
            ctx.violate("shipped-roundtrip-rejected", {"rule": rule.name, "error": str(err)[:200]}, case)
    ctx.case(("shipped", len(real_rules)), nontrivial=True, sample={"shipped_rules": len(real_rules)})
    # the same files through the pipeline's own constructors with multipliers: every distance is the kb value of the
    # text scaled once (Ruleset.from_files with multipliers, and get_ruleset for the fungal taxon)
    from types import SimpleNamespace
    from antismash.common.hmm_rule_parser.cluster_prediction import Ruleset
    from antismash.common.hmm_rule_parser.structures import Multipliers
    base = {ref.name: (ref.cutoff, ref.neighbourhood) for ref in ref_rules}
    for cmul, nmul in ((2.0, 3.0), (1.0, 1.5), (0.5, 1.0)):
        for route in ("from_files", "get_ruleset"):
            try:
                if route == "from_files":
                    ruleset = Ruleset.from_files(hmm_detection.SIGNATURE_FILE, hmm_detection.HMM_FILE,
                                                 hmm_detection._get_rule_files_for_strictness("loose"),  # pylint: disable=protected-access
                                                 hmm_detection.CATEGORIES, hmm_detection.EQUIVALENCE_GROUPS, "verif",
                                                 dynamic_profiles=hmm_detection.DYNAMIC_PROFILES,
                                                 multipliers=Multipliers(cmul, nmul))
                else:
                    hmm_detection._RULESETS.clear()  # pylint: disable=protected-access
                    limited = [] if cmul == 2.0 else [rule.name for rule in ref_rules][3:40:4]
                    ruleset = hmm_detection.get_ruleset(SimpleNamespace(
                        hmmdetection_strictness="loose", hmmdetection_limit_to_rules=limited,
                        hmmdetection_limit_to_categories=[],
                        taxon="fungi", hmmdetection_fungal_cutoff_multiplier=cmul,
                        hmmdetection_fungal_neighbourhood_multiplier=nmul))
                    hmm_detection._RULESETS.clear()  # pylint: disable=protected-access
            except Exception as err:  # pylint: disable=broad-except
                ctx.violate("shipped-ruleset-construction-crash", dict(core.crash_facts(err), route=route), case)
                continue
            for rule in ruleset.rules:
                ctx.count("shipped:scaled-distances-compared")
                expected = (int(base[rule.name][0] * cmul), int(base[rule.name][1] * nmul))
                if (rule.cutoff, rule.neighbourhood) != expected:
                    ctx.violate("shipped-distances-scaled-once",
                                {"route": route, "rule": rule.name, "multipliers": [cmul, nmul],
                                 "got": [rule.cutoff, rule.neighbourhood], "expected": list(expected)}, case)
                    break
    del get_signature_profiles


def shared_base(ctx, case):
    """ the rules of the first text, held by the caller as one list, are the base for several later parses (the
        following text, a variant of it that must be rejected, the following text again): every parse sees exactly
        the base, whatever was parsed on top of it before, and the caller's list stays as it was """
    texts, mult = case["texts"], case["multipliers"]
    multipliers = Multipliers(cutoff=mult[0], neighbourhood=mult[1])
    try:
        first = RP.Parser(texts[0], set(RG.PROFILES), set(CATEGORIES), [], existing_aliases={}, multipliers=multipliers)
    except ERRORS:
        return
    base = list(first.rules)
    held = first.rules if isinstance(first.rules, list) else list(first.rules)
    snapshot = list(held)
    base_aliases = dict(first.aliases)
    following = texts[1]
    broken = following + "RULE zz CATEGORY catA CUTOFF 1 NEIGHBOURHOOD 1 CONDITIONS nosuchprofile\n"
    outcomes = []
    for label, text in (("following", following), ("rejected-variant", broken), ("following-again", following)):
        ctx.count("history:parse-on-shared-base")
        try:
            parser = RP.Parser(text, set(RG.PROFILES), set(CATEGORIES), held, existing_aliases=dict(base_aliases),
                               multipliers=multipliers)
            outcome = [rule.name for rule in parser.rules]
        except ERRORS as err:
            outcome = "rejected: " + type(err).__name__
        outcomes.append(outcome)
        if len(held) != len(snapshot) or any(a is not b for a, b in zip(held, snapshot)):
            ctx.violate("callers-rule-list-unchanged-by-parse",
                        {"after": label, "before": [r.name for r in snapshot], "now": [r.name for r in held]}, case)
            return
    if outcomes[0] != outcomes[2]:
        ctx.violate("same-text-on-same-base-parses-the-same", {"first": outcomes[0], "again": outcomes[2]}, case)
    elif isinstance(outcomes[0], list) and outcomes[0][:len(base)] != [r.name for r in base]:
        ctx.violate("parse-on-base-keeps-base-rules", {"got": outcomes[0], "base": [r.name for r in base]}, case)
    if isinstance(outcomes[1], list):
        ctx.violate("ill-formed-text-accepted", {"reference_error": "unknown profile nosuchprofile", "rules": outcomes[1][-3:]}, case)


def run_file_case(ctx, case, rng, with_corruptions=0):
    real_rules, ref_rules = compare_parsers(ctx, case, rng)
    for feat in case.get("features", []):
        ctx.count("feature:" + feat)
    joined = "".join(case["texts"])
    ops = {op for op in ("and", "or") if f" {op} " in joined}
    nontrivial = len(ops) == 2 or "alias-use" in case.get("features", []) or "comment" in case.get("features", [])
    ctx.case(("file", case["texts"], case["multipliers"]), nontrivial=nontrivial, sample=case)
    if real_rules:
        roundtrip(ctx, case, real_rules, rng)
    if real_rules and ref_rules is not None and len(case["texts"]) > 1:
        shared_base(ctx, case)
    if with_corruptions and ref_rules is not None and len(case["texts"]) == 1:
        tokens = R.tokenise(case["texts"][0])
        for kind, pos, text in corruptions(tokens, rng, with_corruptions):
            ctx.count("op:corruption")
            sub = {"texts": [text + "\n"], "multipliers": case["multipliers"], "corruption": [kind, pos]}
            before = ctx.violation_count + sum(v["count"] for v in ctx.known.values())
            real2, ref2 = compare_parsers(ctx, sub, rng)
            if ctx.violation_count + sum(v["count"] for v in ctx.known.values()) == before:
                if real2 is None and ref2 is None:
                    ctx.count("corruption:both-reject")
                elif real2 is not None and ref2 is not None:
                    ctx.count("corruption:both-accept")


def run(ctx):
    rng = ctx.rng("files")
    if ctx.worker == 0:
        ctx.guard("shipped-rules-crash", {"shipped": True}, shipped_rules, ctx)
        for cls, texts in illformed_variants(ctx.rng("illformed")):
            ctx.count("op:reject-class")
            case = {"texts": texts, "multipliers": [1.0, 1.0], "class": cls}
            ctx.case(("illformed", cls, texts), nontrivial=True)
            try:
                rules = parse_real(texts, (1.0, 1.0))
            except ERRORS:
                ctx.count("rejected:" + cls)
                continue
            except Exception as err:  # pylint: disable=broad-except
                ctx.count("rejected-with-unusual-exception:" + type(err).__name__)
                continue
            ctx.violate("ill-formed-class-accepted", {"class": cls, "rules": [str(r) for r in rules][:3]}, case)
    for i in ctx.cases(ctx.quota(700, 100000)):
        case = gen_file(rng)
        n_corr = 12 if (i % 4 == 0) else 0
        ctx.guard("harness-or-crash", case, run_file_case, ctx, case, rng, n_corr)
    ctx.count("op:create_rules-on-files", COUNTS.get("create_rules", 0))


def replay(ctx, case):
    rng = ctx.rng("replay")
    if "file" in case:
        case = case["file"]
    if "class" in case:
        try:
            parse_real(case["texts"], (1.0, 1.0))
            ctx.violate("ill-formed-class-accepted", {"class": case["class"]}, case)
        except ERRORS:
            pass
        return
    run_file_case(ctx, case, rng, 0)


from vf import core, findings  # noqa: E402  pylint: disable=wrong-import-position


@findings.classifier("c02_roundtrip_distance_not_whole_kb")
def _c02_roundtrip_distance_not_whole_kb(clause, facts):
    """ reconstruct_rule_text writes distances as whole kilobases (the grammar has only INT kb), so a
        rule whose cutoff/neighbourhood is not a whole number of kb after the multipliers cannot be
        regenerated. Must not hide: a wrong distance after round trip for whole-kb distances. """
    return clause == "roundtrip-distances" and not (facts.get("cutoff_is_whole_kb") and facts.get("neighbourhood_is_whole_kb"))


@findings.classifier("c02_unknown_profile_in_extenders")
def _c02_unknown_profile_in_extenders(clause, facts):
    """ identifiers of the EXTENDERS clause are never checked against the known profiles (an existing
        unit test even relies on it). Must not hide: unknown profiles accepted anywhere in CONDITIONS. """
    if clause == "ill-formed-class-accepted":
        return facts.get("class") == "unknown-profile-in-extenders"
    return clause == "ill-formed-text-accepted" and facts.get("unknown_profile_only_in_extenders") is True
