"""C05 Candidate clusters group protoclusters by the documented kinds.

The real Record.create_candidate_clusters runs on generated protocluster layouts (real Protocluster objects,
defining genes arising through the real add_cds path from CORE gene functions). The oracle is a set of
clause checkers on the set-of-bases model - the statement is a list of constraints, so no second
implementation of the four formation passes exists here. Every case is also built with its protoclusters
added in other orders (metamorphic clause 8).
"""
from __future__ import annotations

import itertools
import json
import zlib

from antismash.common.secmet.features.candidate_cluster.structures import CandidateClusterKind as K

from vf import core, findings
from vf.gen import layout as W
from vf.models import ring

PROPERTY = "C05"
LEVEL = "exploration"
PARALLEL = True
RULE = ("1-7 protoclusters on a gene grid (cores of 1-4 genes, neighbourhoods of 0-3 genes, 3 products, shared defining "
        "genes, nesting, identical coordinates), linear and circular records incl. cores/extents crossing the origin "
        "and groups that meet only across the origin; 3 insertion orders per case. Non-trivial: >= 2 protoclusters "
        "related by a shared defining gene, overlapping cores or overlapping extents; distinct by layout.")
ASSUMPTIONS = [
    "A sideloaded protocluster has no defining genes (SideloadedProtocluster.definition_cdses is documented so), also "
    "when the user named it like a product for which genes in its core carry a core annotation.",
    "An extra SINGLE for a protocluster that was absorbed into a stronger candidate (the code's 'promotion' case) "
    "is not forbidden by the statement and is not checked.",
    "A candidate's span: covers all member extents; the hull on a line; the shortest covering arc on a ring when "
    "that is shorter than half the record.",
    "Members of an interleaved candidate may be linked through a shared defining gene as well as through "
    "overlapping cores (hybrid groups are absorbed whole).",
]
REQUIRED = ["op:coverage", "op:members-once", "op:location", "op:hybrid", "op:interleaved", "op:neighbouring", "op:single", "op:unique",
            "op:order", "kind:single", "kind:neighbouring", "kind:interleaved", "kind:chemical_hybrid",
            "shape:group-across-origin", "shape:identical-coordinates", "shape:cores-overlap-by-one-base"]


def gen_case(rng):
    circular = rng.random() < 0.6
    n_genes = rng.choice([8, 10, 12, 16])
    glen, gap = 60, 40
    step = glen + gap
    length = n_genes * step
    genes = []
    products = ["alpha", "beta", "gamma"]
    for i in range(n_genes):
        genes.append({"name": f"g{i}", "loc": {"parts": [[i * step + 10, i * step + 10 + glen]], "strand": rng.choice([1, -1])},
                      "core": []})
    protos = []
    origin_focus = circular and rng.random() < 0.3
    for j in range(rng.randrange(1, 8)):
        if protos and rng.random() < 0.2:
            base = rng.choice(protos)          # identical or nested coordinates
            first, ncore, nb = base["first"], base["ncore"], base["nb"]
            if rng.random() < 0.5:
                nb = max(0, nb - rng.randrange(0, 2))
        else:
            ncore = rng.randrange(1, 5)
            first = rng.randrange(0, n_genes) if circular else rng.randrange(0, n_genes - ncore + 1)
            nb = rng.choice([0, 1, 2, 3])
            if origin_focus and rng.random() < 0.7:
                # several cores through the origin: wide and narrow ones, nested in each other
                ncore = rng.randrange(2, 6)
                first = n_genes - rng.randrange(1, ncore)
        product = rng.choice(products) + str(j)
        if protos and rng.random() < 0.15:
            product = rng.choice(protos)["product"] + "-like"      # a name containing another product's name
            if any(p["product"] == product for p in protos):
                product += str(j)
        core_genes = [(first + k) % n_genes for k in range(ncore)]
        if not circular and first + ncore > n_genes:
            continue
        # defining genes: a subset of the core genes gets the CORE function for this product
        # (a sideloaded protocluster, as --sideload adds them, never has any)
        sideloaded = rng.random() < 0.15
        if sideloaded and protos and rng.random() < 0.5:
            # handed in under the name of a product that a rule found in the same place (the name is the user's choice)
            named_like = rng.choice(protos)
            if not named_like["sideloaded"]:
                product = named_like["product"]
                first, ncore = named_like["first"], named_like["ncore"]
                core_genes = [(first + k) % n_genes for k in range(ncore)]
        defs = [] if sideloaded else sorted(set(rng.choice(core_genes) for _ in range(rng.randrange(1, 3))))
        for d in defs:
            genes[d]["core"].append(product)
        core_start = first * step + 10
        core_len = (ncore - 1) * step + glen
        nb_len = nb * step
        if circular:
            core = ring.arc_to_intervals(core_start, core_len, length)
            if core_len + 2 * nb_len >= length:
                continue
            extent = ring.arc_to_intervals((core_start - nb_len) % length, core_len + 2 * nb_len, length)
        else:
            core = [(core_start, core_start + core_len)]
            extent = [(max(0, core_start - nb_len), min(length, core_start + core_len + nb_len))]
        protos.append({"first": first, "ncore": ncore, "nb": nb, "product": product, "sideloaded": sideloaded,
                       "core": [list(c) for c in core], "extent": [list(e) for e in extent]})
    # a protocluster with the coordinates of another one (or of the span of two overlapping ones) but its core
    # somewhere else inside them, as clipping at a record end, sideloading or reused results produce
    if protos and rng.random() < 0.2:
        base = rng.choice(protos)
        target = [tuple(e) for e in base["extent"]]
        other = rng.choice(protos)
        if other is not base and len(target) == 1 and len(other["extent"]) == 1 \
                and other["extent"][0][0] < target[0][1] and target[0][0] < other["extent"][0][1] and rng.random() < 0.6:
            target = [(min(target[0][0], other["extent"][0][0]), max(target[0][1], other["extent"][0][1]))]
        inside = [g for g in genes if any(s <= g["loc"]["parts"][0][0] and g["loc"]["parts"][0][1] <= e for s, e in target)]
        if inside:
            gene = rng.choice(inside)
            product = rng.choice(products) + "x"
            sideloaded = rng.random() < 0.3
            if not sideloaded:
                gene["core"].append(product)
            protos.append({"first": int(gene["name"][1:]), "ncore": 1, "nb": 0, "product": product, "sideloaded": sideloaded,
                           "core": [list(gene["loc"]["parts"][0])], "extent": [list(e) for e in target],
                           "borrowed_extent": True})
    case = {"L": length, "circular": circular, "genes": genes, "protoclusters": protos}
    _tighten(case, step, glen)
    return case


def _tighten(case, step, glen):
    """ in every third case some genes reach one base into the next gene, up to it, or stop one base short of it, and
        every core and extent that ended with such a gene ends with it still: cores then overlap by a single base,
        touch, or miss each other by one. Chosen from the case itself, so that no further draw is made. """
    crc = zlib.crc32(json.dumps(case, sort_keys=True).encode())
    if crc % 3:
        return
    gap = step - glen
    moved = {}
    before = json.loads(json.dumps({"genes": case["genes"], "protoclusters": case["protoclusters"]}))
    for i, gene in enumerate(case["genes"][:-1]):
        pick = zlib.crc32(f"{crc}/{i}".encode()) % 8
        if pick < 3:
            old_end = gene["loc"]["parts"][0][1]
            new_end = old_end + gap + (1, 0, -1)[pick]
            gene["loc"]["parts"][0][1] = new_end
            moved[old_end] = new_end
    for proto in case["protoclusters"]:
        for key in ("core", "extent"):
            for part in proto[key]:
                part[1] = moved.get(part[1], part[1])
            # an area over the origin still leaves part of the record out, as the generator above makes sure
            if len(proto[key]) == 2 and proto[key][1][1] >= proto[key][0][0]:
                case.update(before)
                return
    case["tightened"] = True


def build(case, order):
    record = W.make_record(case["L"], case["circular"])
    for g in case["genes"]:
        record.add_cds_feature(W.make_cds(g["name"], g["loc"], g["core"]))
    protos = {}
    for idx in order:
        p = case["protoclusters"][idx]
        proto = W.make_protocluster(p["core"], p["extent"], p["product"], cutoff=10, neighbourhood=p["nb"] * 100,
                                    sideloaded=p.get("sideloaded", False))
        record.add_protocluster(proto)
        protos[idx] = proto
    record.create_candidate_clusters()
    return record, protos


def dump_in_order(record):
    return sorted([str(c.kind), [p.product for p in c.protoclusters], str(c.location)]
                  for c in record.get_candidate_clusters())


def dump(record):
    return sorted([str(c.kind), sorted(p.product for p in c.protoclusters), str(c.location)]
                  for c in record.get_candidate_clusters())


def components(items, rel):
    items = list(items)
    parent = {id(x): id(x) for x in items}

    def find(x):
        while parent[x] != x:
            parent[x] = parent[parent[x]]
            x = parent[x]
        return x
    for a, b in itertools.combinations(items, 2):
        if rel(a, b):
            parent[find(id(a))] = find(id(b))
    comps = {}
    for x in items:
        comps.setdefault(find(id(x)), []).append(x)
    return list(comps.values())


def promotion_shape(c, wrap, length) -> bool:
    """ structural fact: some proper sub-group of the candidate that is connected under the candidate's own kind
        relation already has exactly the candidate's coordinates - the situation in which the formation code
        'promotes' the members of a weaker group with identical coordinates into the stronger candidate """
    members = list(c.protoclusters)
    if len(members) < 3 and c.kind != K.CHEMICAL_HYBRID:
        pass

    def ov(a, b):
        return ring.intervals_intersect(ring.parts_of(a), ring.parts_of(b))

    def shares(p, q):
        return bool(p.definition_cdses & q.definition_cdses)
    if c.kind == K.CHEMICAL_HYBRID:
        rel = shares
    elif c.kind == K.INTERLEAVED:
        def rel(a, b):
            return ov(a.core_location, b.core_location) or shares(a, b)
    else:
        def rel(a, b):
            return ov(a.location, b.location)
    comps = components(members, rel)
    target = ring.normalise(ring.parts_of(c.location))
    if c.kind == K.CHEMICAL_HYBRID:
        # a hybrid's own group: the members sharing defining genes plus those with cores inside their core span
        # (each shared-gene component on its own: two of them with identical coordinates are merged by promotion)
        groups = []
        for hub in [comp for comp in comps if len(comp) > 1]:
            ivs = [iv for m in hub for iv in ring.span(m.core_location, wrap)]
            if wrap:
                cover = ring.arc_to_intervals(*ring.cover_candidates(ivs, length)[0], length)
            else:
                cover = [(min(s for s, _ in ivs), max(e for _, e in ivs))]
            groups.append(hub + [m for comp in comps if len(comp) == 1 for m in comp
                                 if ring.covers(cover, ring.parts_of(m.core_location))])
        if groups:
            comps = groups
    for comp in comps:
        if len(comp) == len(members) or len(comp) < 2:
            continue
        spans = [iv for m in comp for iv in ring.span(m.location, wrap)]
        if not wrap:
            got = [(min(s for s, _ in spans), max(e for _, e in spans))]
        else:
            arcs = ring.cover_candidates(spans, length)
            if 2 * arcs[0][1] >= length:
                got = target if ring.covers(target, spans) else None
            else:
                got = ring.normalise(ring.arc_to_intervals(*arcs[0], length))
        if got == target:
            return True
    return False


def check_record(ctx, case, record, protos):
    length = case["L"]
    wrap = length if case["circular"] else None
    cands = list(record.get_candidate_clusters())
    plist = list(protos.values())
    # an area handed in from outside has no defining gene, whatever name it was given: it joins a chemical hybrid only
    # through its core lying inside the hybrid's core span
    for p in plist:
        if type(p).__name__ == "SideloadedProtocluster":
            ctx.count("op:sideloaded-without-defining-genes")
            if p.definition_cdses:
                ctx.violate("sideloaded-protocluster-has-no-defining-gene",
                            {"product": p.product, "core": str(p.core_location),
                             "defining": sorted(g.get_name() for g in p.definition_cdses)}, case)

    def bases(loc):
        return ring.normalise(ring.parts_of(loc))

    def ov(a, b):
        return ring.intervals_intersect(ring.parts_of(a), ring.parts_of(b))

    def shares(p, q):
        return bool(p.definition_cdses & q.definition_cdses)
    facts0 = {"circular": case["circular"], "L": length, "n_protoclusters": len(plist),
              "any_extent_crosses_origin": any(len(p.location.parts) > 1 for p in plist),
              "candidates": dump(record)}
    for c in cands:
        ctx.count("kind:" + str(c.kind))
    # (1) coverage
    ctx.count("op:coverage")
    covered = {id(p) for c in cands for p in c.protoclusters}
    for p in plist:
        if id(p) not in covered:
            ctx.violate("protocluster-in-no-candidate", dict(facts0, product=p.product), case)
    # (1b) a member is listed once ("exactly its member protoclusters")
    for c in cands:
        ctx.count("op:members-once")
        ids = [id(p) for p in c.protoclusters]
        if len(set(ids)) != len(ids):
            ctx.violate("candidate-lists-member-once",
                        dict(facts0, candidate=str(c.location), kind=str(c.kind), members=[p.product for p in c.protoclusters],
                             core_crosses_origin=len(c.core_location.parts) > 1), case)
    # (2) location
    for c in cands:
        ctx.count("op:location")
        spans = [iv for p in c.protoclusters for iv in ring.span(p.location, wrap)]
        got = bases(c.location)
        facts = dict(facts0, candidate=str(c.location), kind=str(c.kind), members=[p.product for p in c.protoclusters])
        if ring.wellformed(c.location, length, span_like=True):
            ctx.violate("candidate-location-wellformed", facts, case)
        elif not ring.covers(got, spans):
            ctx.violate("candidate-location-covers-members", facts, case)
        elif not wrap:
            if got != [(min(s for s, _ in spans), max(e for _, e in spans))]:
                ctx.violate("candidate-location-is-hull", facts, case)
        else:
            cand_arcs = ring.cover_candidates(spans, length)
            if 2 * cand_arcs[0][1] < length and got != ring.normalise(ring.arc_to_intervals(*cand_arcs[0], length)):
                ctx.violate("candidate-location-is-shortest-arc", facts, case)
    hybrids = [c for c in cands if c.kind == K.CHEMICAL_HYBRID]
    inter = [c for c in cands if c.kind == K.INTERLEAVED]
    multi = [c for c in cands if c.kind != K.SINGLE]

    def together(p, q, pool):
        return any(any(m is p for m in c.protoclusters) and any(m is q for m in c.protoclusters) for c in pool)
    related = False
    # (3)-(5) pair clauses
    for p, q in itertools.combinations(plist, 2):
        pair = {"p": p.product, "q": q.product, "p_core": str(p.core_location), "q_core": str(q.core_location),
                "p_extent": str(p.location), "q_extent": str(q.location),
                "pair_meets_only_across_origin": bool(wrap) and ov(p.location, q.location) and not
                ring.intervals_intersect([(min(s for s, _ in ring.parts_of(p.location)), max(e for _, e in ring.parts_of(p.location)))] if len(p.location.parts) == 1 else [(0, 0)],
                                         [(min(s for s, _ in ring.parts_of(q.location)), max(e for _, e in ring.parts_of(q.location)))] if len(q.location.parts) == 1 else [(0, 0)]),
                "either_crosses_origin": len(p.location.parts) > 1 or len(q.location.parts) > 1}
        if shares(p, q):
            related = True
            ctx.count("op:hybrid")
            if not together(p, q, hybrids):
                ctx.violate("shared-defining-gene-implies-same-hybrid", dict(facts0, **pair), case)
        elif ov(p.core_location, q.core_location):
            related = True
            ctx.count("op:interleaved")
            if sum(max(0, min(e1, e2) - max(s1, s2)) for s1, e1 in ring.parts_of(p.core_location)
                   for s2, e2 in ring.parts_of(q.core_location)) == 1:
                ctx.count("shape:cores-overlap-by-one-base")
            if not together(p, q, hybrids + inter):
                ctx.violate("overlapping-cores-imply-same-hybrid-or-interleaved", dict(facts0, **pair), case)
        elif ov(p.location, q.location):
            related = True
            ctx.count("op:neighbouring")
            if pair["either_crosses_origin"]:
                ctx.count("shape:group-across-origin")
            if not together(p, q, multi):
                ctx.violate("overlapping-extents-imply-shared-candidate", dict(facts0, **pair), case)
        if bases(p.location) == bases(q.location):
            ctx.count("shape:identical-coordinates")
    # member clauses per candidate
    for c in multi:
        members = list(c.protoclusters)
        facts = dict(facts0, candidate=str(c.location), kind=str(c.kind), members=[p.product for p in members])
        if len(members) < 2:
            ctx.violate("multi-kind-candidate-with-one-member", facts, case)
            continue
        if c.kind == K.CHEMICAL_HYBRID:
            comps = components(members, shares)
            big = [comp for comp in comps if len(comp) > 1]
            if not big:
                ctx.violate("hybrid-without-shared-defining-gene", facts, case)
                continue
            hub = [m for comp in big for m in comp]
            span = ring.cover_candidates([iv for m in hub for iv in ring.span(m.core_location, wrap)], length)[0] if wrap \
                else None
            if wrap:
                span_ivs = ring.arc_to_intervals(*span, length)
            else:
                ivs = [iv for m in hub for iv in ring.span(m.core_location, None)]
                span_ivs = [(min(s for s, _ in ivs), max(e for _, e in ivs))]
            for comp in comps:
                if len(comp) == 1 and not ring.covers(span_ivs, ring.parts_of(comp[0].core_location)):
                    ctx.violate("hybrid-extra-member-core-inside-group-core",
                                dict(facts, extra=comp[0].product, promotion_shape=promotion_shape(c, wrap, length)), case)
            # ... and the other way round: a protocluster sharing no defining gene with anything, whose core lies
            # inside the core span of this hybrid's gene-sharing group, belongs to a chemical hybrid (this one or
            # another whose span also holds it)
            if len(big) == 1 and not (wrap and 2 * span[1] >= length):
                ctx.count("op:hybrid-completeness")
                for other in plist:
                    if any(other is m for m in members) or any(shares(other, q) for q in plist if q is not other):
                        continue
                    if ring.covers(span_ivs, ring.parts_of(other.core_location)) \
                            and not any(h.kind == K.CHEMICAL_HYBRID and any(other is m for m in h.protoclusters) for h in cands):
                        ctx.violate("core-inside-hybrid-core-span-implies-hybrid-member",
                                    dict(facts, left_out=other.product, left_out_core=str(other.core_location),
                                         left_out_core_crosses_origin=len(other.core_location.parts) > 1,
                                         hybrid_core_crosses_origin=len(span_ivs) > 1), case)
        elif c.kind == K.INTERLEAVED:
            comps = components(members, lambda a, b: ov(a.core_location, b.core_location) or shares(a, b))
            if len(comps) > 1:
                # members inside the core span of a hybrid sub-group are linked through that group
                def inside_some(comp):
                    for other in comps:
                        if other is comp:
                            continue
                        ivs = [iv for m in other for iv in ring.span(m.core_location, wrap)]
                        if wrap:
                            arc = ring.cover_candidates(ivs, length)[0]
                            cover = ring.arc_to_intervals(*arc, length)
                        else:
                            cover = [(min(s for s, _ in ivs), max(e for _, e in ivs))]
                        if all(ring.intervals_intersect(cover, ring.parts_of(m.core_location)) for m in comp):
                            return True
                    return False
                loose = [comp for comp in comps if not inside_some(comp)]
                if len(loose) > 1 or (len(loose) == 0 and False):
                    ctx.violate("interleaved-members-linked-by-core-overlap",
                                dict(facts, groups=[[m.product for m in comp] for comp in comps],
                                     # ... of this candidate, or of a chemical hybrid inside it (two hybrid groups of
                                     # identical coordinates merged into one: its wider core span then draws
                                     # protoclusters between the two groups in as interleaved)
                                     promotion_shape=promotion_shape(c, wrap, length) or any(
                                         promotion_shape(h, wrap, length) for h in hybrids
                                         if {id(m) for m in h.protoclusters} <= {id(m) for m in members})), case)
        elif c.kind == K.NEIGHBOURING:
            comps = components(members, lambda a, b: ov(a.location, b.location))
            if len(comps) > 1:
                ctx.violate("neighbouring-members-linked-by-extent-overlap",
                            dict(facts, groups=[[m.product for m in comp] for comp in comps]), case)
    # (6) singles
    for p in plist:
        ctx.count("op:single")
        in_strong = any(any(m is p for m in c.protoclusters) for c in hybrids + inter)
        has_single = any(c.kind == K.SINGLE and c.protoclusters[0] is p for c in cands)
        same_coord_parent = any(c.kind != K.SINGLE and any(m is p for m in c.protoclusters)
                                and bases(c.location) == bases(p.location) for c in cands)
        facts = dict(facts0, product=p.product, extent=str(p.location), extent_crosses_origin=len(p.location.parts) > 1,
                     parent_covers_whole_record=any(c.kind != K.SINGLE and any(m is p for m in c.protoclusters)
                                                    and ring.total_len(bases(c.location)) == length for c in cands))
        if not in_strong and not has_single and not same_coord_parent:
            ctx.violate("unabsorbed-protocluster-has-a-single", facts, case)
        if has_single and same_coord_parent:
            ctx.violate("no-single-when-identical-parent-contains-it", facts, case)
    # (7) uniqueness
    ctx.count("op:unique")
    seen = {}
    for c in cands:
        key = (tuple(bases(c.location)), tuple(sorted(id(m) for m in c.protoclusters)))
        if key in seen:
            ctx.violate("no-two-candidates-with-same-coordinates-and-members",
                        dict(facts0, candidate=str(c.location), kinds=[str(seen[key].kind), str(c.kind)]), case)
        seen[key] = c
    return related


def run_case(ctx, case, index=0):
    n = len(case["protoclusters"])
    if n == 0:
        return
    rng = ctx.rng("order", index)
    base_order = list(range(n))
    try:
        record, protos = build(case, base_order)
    except Exception as err:  # pylint: disable=broad-except
        ctx.violate("formation-crash", dict(core.crash_facts(err), circular=case["circular"],
                                            any_extent_crosses_origin=any(len(p["extent"]) > 1 for p in case["protoclusters"]),
                                            any_core_crosses_origin=any(len(p["core"]) > 1 for p in case["protoclusters"])), case)
        ctx.case(("case", case), nontrivial=True)
        return
    related = check_record(ctx, case, record, protos)
    base = dump(record)
    base_in_order = dump_in_order(record)
    ctx.case(("case", case), nontrivial=related and n >= 2, sample=dict(case, outcome=base) if related else None)
    for _ in range(2):
        order = base_order[:]
        rng.shuffle(order)
        if order == base_order:
            order.reverse()
        if order == base_order:
            continue
        ctx.count("op:order")
        try:
            other, _p = build(case, order)
        except Exception as err:  # pylint: disable=broad-except
            ctx.violate("formation-crash", dict(core.crash_facts(err), order=order, circular=case["circular"],
                                                any_extent_crosses_origin=any(len(p["extent"]) > 1 for p in case["protoclusters"]),
                                                any_core_crosses_origin=any(len(p["core"]) > 1 for p in case["protoclusters"])), case)
            continue
        if dump(other) != base:
            other_dump = dump(other)
            wrap = case["L"] if case["circular"] else None
            only_singles = [x for x in base if x[0] != "single"] == [x for x in other_dump if x[0] != "single"]
            promoted = any(c.kind != K.SINGLE and promotion_shape(c, wrap, case["L"])
                           for rec in (record, other) for c in rec.get_candidate_clusters())
            ctx.violate("outcome-independent-of-insertion-order",
                        {"order": order, "base": base, "other": other_dump, "circular": case["circular"],
                         "differs_only_in_singles": only_singles, "promotion_shape": promoted}, case)
        elif dump_in_order(other) != base_in_order:
            # the members of a candidate are listed in an order too (its products, its qualifiers)
            ctx.violate("member-order-independent-of-insertion-order",
                        {"order": order, "base": base_in_order, "other": dump_in_order(other), "circular": case["circular"]}, case)


def run(ctx):
    rng = ctx.rng("cases")
    for i in ctx.cases(ctx.quota(2500, 200000)):
        case = gen_case(rng)
        ctx.guard("harness-or-crash", case, run_case, ctx, case, i)


def replay(ctx, case):
    case.pop("outcome", None)
    run_case(ctx, case, 0)



@findings.classifier("c05_promotion_on_identical_coordinates")
def _c05_promotion(clause, facts):
    """ build_candidates merges a weaker-kind group into an existing stronger candidate when both have identical
        coordinates ('promotion'): the extra members join a hybrid/interleaved candidate without satisfying its
        relation. Must not hide: foreign members in a candidate none of whose connected sub-groups has the
        candidate's coordinates. """
    return clause in ("hybrid-extra-member-core-inside-group-core", "interleaved-members-linked-by-core-overlap") \
        and facts.get("promotion_shape") is True


@findings.classifier("c05_promotion_singles_depend_on_order")
def _c05_promotion_order(clause, facts):
    """ which members of a promoted group count as 'extras' (and get an additional SINGLE) depends on which of two
        groups with identical coordinates is met first, i.e. on the insertion order of protoclusters with equal
        coordinates. Must not hide: order dependence of any multi-member candidate, or of singles when no
        promotion took place. """
    return clause == "outcome-independent-of-insertion-order" and facts.get("differs_only_in_singles") is True \
        and facts.get("promotion_shape") is True
