"""C10 Annotated records survive GenBank and JSON round trips unchanged.

Every case is a real record built by vf.gen.annotated (real DNA, real CDSFeature objects, every annotation
through the real add_*/create_* calls). Two monitors observe it:

  GenBank: Record.to_biopython -> SeqIO.write -> SeqIO.parse -> Record.from_biopython -> (write again)
  JSON   : AntismashResults(..).write_to_file (record_to_json, gather_record_areas, orjson) ->
           AntismashResults.from_file (record_from_json) -> (write again)

Oracle (no model of any converter exists here): (1) the canonical dump (vf.models.record_dump) of the
re-read record equals the dump of the original - header, sequence, topology, every feature's class, type,
location, notes, codon_start, written qualifiers, typed attributes read off the objects, leftover untyped
qualifiers, and the area structure with numbers and cross references resolved to member identities;
(2) the second output equals the first byte for byte; (3) writing the same object twice gives the same text.
Each differing (format, section, field) of a feature or of the area structure is one clause; a deviation is
recorded once per clause and feature with structural facts (what the feature is, what exactly changed), so that
the classifiers of known mechanisms can be narrow. Write -> read -> write is run on the SAME generated record
for both formats. Layouts the pipeline itself refuses (create_regions raising) are counted as skipped.
"""
from __future__ import annotations

import io
import re

from Bio import SeqIO

from antismash.common import serialiser
from antismash.common import json as asjson
from antismash.common.secmet import Record
from antismash.common.secmet.features import Prepeptide

from vf import findings
from vf.core import crash_facts
from vf.gen import annotated as A
from vf.models import record_dump as D

PROPERTY = "C10"
LEVEL = "exploration"
PARALLEL = True
RULE = ("records of 4-16 kb, linear or circular, 3-14 genes on real DNA (1-3 exons, both strands, codon_start 1-3, "
        "trailing bases, nested/overlapping genes, origin-spanning genes, locus_tag/protein_id/gene naming variants, "
        "gene features, misc features, full GenBank header incl. optional reference and comment) read through "
        "Record.from_biopython, then annotated: gene functions, sec_met domains, NRPS_PKS qualifier, PFAM domains "
        "with GO terms, ModularDomain/AntismashDomain with ASF/subtypes/specificity, CDS motifs, prepeptides with "
        "leader/core/tail, single- and multi-CDS modules, 0-5 protoclusters derived from each other (same core, "
        "same core and neighbourhood = identical coordinates, core inside core, adjacent, over the origin), T2PKS "
        "qualifier, sideloaded protoclusters and subregions (strandless locations), subregions, foreign CDS_motifs, then "
        "create_candidate_clusters and create_regions. Non-trivial: a region with >= 2 candidate clusters, or an "
        "origin-spanning area or gene; distinct by structure (topology, counts of every feature/area kind, kinds).")
ASSUMPTIONS = [
    "The first exon (in reading order) of a gene with /codon_start 2 or 3 is longer than the offset: the reader takes the "
    "offset off that exon only, a shorter one would leave an empty part in the location (seen once in the thorough tier, "
    "seed 5: the re-read prepeptide has one part fewer; the bases are the same).",
    "Biopython's GenBank writer/parser and orjson are trusted; the input record itself is a GenBank text parsed by "
    "Biopython, so header fields and valueless qualifiers start in Biopython's own representation.",
    "GenBank text cannot express a strandless location: for the GenBank round trip strand None/0 is compared as "
    "(+) (the JSON round trip is compared exactly).",
    "Numeric annotation values (e-values, scores, weights) are generated within the precision of the textual "
    "formats antiSMASH writes (%.2E, %.1f, %.3f); loss of further digits is not examined.",
    "CDSFeature.motifs / unique_id, NRPS/PKS domain predictions and caches are runtime-only state that no writer "
    "claims to keep and are not compared; notes on area features and Prepeptide notes are never produced by the "
    "pipeline and are not generated.",
    "A 'note' qualifier kept in a feature's untyped qualifiers and the notes attribute are the same observable.",
    "CDS membership of an area is compared as a set plus the pre/cross/post-origin sections; the iteration order of "
    "cds_children (insertion order) is only counted (observed:cds-children-iteration-order-differs).",
]
REQUIRED = ["op:gbk:dump-compare", "op:gbk:fixed-point", "op:gbk:write-repeatable", "op:json:dump-compare",
            "op:json:fixed-point", "op:json:write-repeatable",
            "class:circular", "class:linear", "class:gene-bridging-origin", "class:gene-codon_start", "class:gene-of-one-codon",
            "class:gene-multi-exon", "class:area-bridging-origin", "class:kind:single", "class:kind:neighbouring",
            "class:kind:interleaved", "class:kind:chemical_hybrid", "class:identical-protocluster-coordinates",
            "class:sideloaded-protocluster", "class:sideloaded-subregion", "class:subregion", "class:pfam",
            "class:asdomain", "class:cds-motif", "class:prepeptide", "class:prepeptide-leader-core-tail",
            "class:module", "class:module-multi-cds", "class:region>=2-candidates", "class:t2pks",
            "class:header-reference", "class:external-cds-motif", "class:candidate-without-structure-after-one-with",
            "class:origin-region-with-split-numbering", "class:same-span-genes-on-both-strands",
            "class:ten-or-more-subregions-in-identical-pairs", "history:record-read-stripped-and-annotated-again",
            "class:module-added-after-a-first-conversion"]


# --------------------------------------------------------------------------------------------------
# known deviations of the current tree: one classifier per mechanism, keyed on clause + structural facts
# (the clause arrives as "<format>:<section>:..."; the ids are those of notes/agents/C10-findings.json)
# --------------------------------------------------------------------------------------------------

NUMBER_FIELDS = {"written.protocluster_number", "written.candidate_cluster_number", "written.subregion_number",
                 "written.region_number", "written.protoclusters", "written.candidate_cluster_numbers",
                 "written.subregion_numbers", "written.product", "written.detection_rules", "written.rules"}


def _split(clause: str):
    fmt, _, rest = clause.partition(":")
    return fmt, rest.split(":")


def _is_area_clause(parts) -> bool:
    return parts[0] == "area" or (parts[0] in ("feature", "feature-set") and len(parts) > 1 and parts[1] in AREA_TYPES)


@findings.classifier("c10_identical_coordinates_renumbered")
def _k1(clause, facts):
    """ areas with identical coordinates compare equal, add_protocluster/add_candidate_cluster/add_subregion insert
        with bisect_left, i.e. before their equals, so a reload (which adds them in file order) reverses them:
        numbers, and every list that follows number order, swap - and a candidate holding only one of the identical
        protoclusters now refers to the other one. Must not hide: any record without identical coordinates; any
        change in what the protoclusters/subregions are, in the kind, coordinates or member coordinates of a
        candidate, or in the coordinates, member counts and genes of a region. """
    _, parts = _split(clause)
    if not _is_area_clause(parts):
        return False
    if not facts.get("equal_if_identical_coordinates_interchange") or not (
            facts.get("tied_protoclusters") or facts.get("tied_subregions") or facts.get("tied_candidates")):
        return False
    if parts[0] == "feature-set":
        return parts[1] == "cand_cluster"      # the same candidate, named by the products of other members
    return parts[0] == "area" or ":".join(parts[2:]) in NUMBER_FIELDS


@findings.classifier("c10_origin_crossing_area_order_contradicts_containment")
def _k2(clause, facts):
    """ CDSCollection.__lt__ puts a containing area first but an origin-crossing area first as well: for an
        origin-crossing area inside another area both a < b and b < a hold, bisect placement then depends on
        insertion order and numbers (with the cross references stored as numbers) change on reload.
        Must not hide: area differences in records without an origin-crossing area contained by another area of
        its kind; anything outside protocluster/candidate/subregion/region features. """
    _, parts = _split(clause)
    return _is_area_clause(parts) and facts.get("origin_crossing_area_inside_another") is True


@findings.classifier("c10_candidate_rebuilt_with_wrap_point_on_linear_record")
def _k3(clause, facts):
    """ CandidateCluster.from_biopython always passes the record length as circular wrap point, so on a linear
        record a candidate whose protoclusters lie far apart gets a core (or extent) running over the 'origin'.
        Must not hide: anything on circular records, anything but candidates/regions, linear records where no
        re-read candidate crosses the origin. """
    _, parts = _split(clause)
    if facts.get("circular") is not False:
        return False
    if facts.get("linear_candidate_crosses_origin_after_reread"):
        if parts[0] == "area":
            return parts[1] in ("candidates", "regions")
        return parts[0] in ("feature", "feature-set") and parts[1] in ("cand_cluster", "region")
    # without wrapping the other code path of connect_locations still marks the strand differently when members
    # with and without strand (sideloaded) are mixed: same bases, other strand mark
    if facts.get("linear_candidate_differs_in_strand_mark_only") is not True:
        return False
    if parts[0] == "feature-set":
        return (parts[1] in ("cand_cluster", "region") and facts.get("in_original") and facts.get("in_reread")
                and facts.get("same_bases") is True and facts.get("parts_original") == facts.get("parts_reread"))
    # (long values arrive shortened: compare what is there)
    first, second = (str(facts.get(key, key)).replace("(+)", "")[:120] for key in ("original", "reread"))
    same_but_marks = first == second
    return (parts[0] == "area" and same_but_marks and facts.get("differences") == 1
            and parts[1:] in (["candidates", "core_location"], ["candidates", "location"], ["regions", "location"],
                              ["regions", "candidate_members"]))


@findings.classifier("c10_prepeptide_sequence_wrapped_with_space")
def _k4(clause, facts):
    """ GenBank only: leader/core/tail sequences longer than one line are wrapped by the writer and joined with a
        space by the parser; Prepeptide.from_biopython keeps the space (translations are handled by Biopython,
        domain ids by antiSMASH, these are not), lengths go wrong and writing the record again can fail.
        Must not hide: anything in the JSON round trip, prepeptides whose re-read sequences have no space. """
    fmt, parts = _split(clause)
    if fmt != "gbk":
        return False
    if parts[0] in ("reread-record-unusable", "rewrite-crash"):
        return facts.get("reread_prepeptide_sequence_has_space") is True and facts.get("exception") == "ValueError"
    return (parts[0] in ("feature", "feature-set") and parts[1] == "CDS_motif" and facts.get("class") == "Prepeptide"
            and facts.get("reread_sequence_has_space") is True)


@findings.classifier("c10_prepeptide_location_rebuilt_in_pieces")
def _k5(clause, facts):
    """ Prepeptide.from_biopython rebuilds the location from leader/core/tail with build_location_from_others, which
        joins neighbouring pieces that continue each other (since a591be3e on both strands and in any exon): where the
        gene itself has two exons that touch (a frameshift written as adjacent exons), they come back as one part.
        Must not hide: a re-read prepeptide covering other bases, the same parts, or MORE parts than before (pieces
        left apart where leader, core and tail were cut - what a591be3e repaired). """
    _, parts = _split(clause)
    return (parts[:2] == ["feature-set", "CDS_motif"] and facts.get("class") == "Prepeptide"
            and facts.get("in_original") and facts.get("in_reread") and facts.get("same_bases") is True
            and isinstance(facts.get("parts_reread"), int) and isinstance(facts.get("parts_original"), int)
            and facts.get("parts_reread") < facts.get("parts_original")
            and not facts.get("reread_sequence_has_space"))


@findings.classifier("c10_prepeptide_location_drops_trailing_bases")
def _k6(clause, facts):
    """ only whole codons of a prepeptide are written (leader/core/tail locations); a gene with 1-2 trailing bases
        gives a re-read prepeptide that is shorter by exactly those bases.
        Must not hide: any other loss, a prepeptide on a location that is a multiple of three. """
    _, parts = _split(clause)
    return (parts[:2] == ["feature-set", "CDS_motif"] and facts.get("class") == "Prepeptide"
            and facts.get("in_original") and facts.get("in_reread") and facts.get("reread_inside_original") is True
            and facts.get("bases_lost") in (1, 2) and facts.get("bases_lost") == facts.get("location_length_mod3")
            and not facts.get("reread_sequence_has_space"))


@findings.classifier("c10_gene_function_description_colon_read_as_product")
def _k7(clause, facts):
    """ '<function> (<tool>) <description>' with a description of the form 'ID: text' (what the gene function tools
        write) is parsed with the '<product>: <description>' pattern: the text is a fixed point, the annotation is not.
        Must not hide: any other change of a gene function, CORE functions. """
    _, parts = _split(clause)
    return parts == ["feature", "CDS", "attrs.gene_functions"] and facts.get("description_colon_read_as_product_only") is True


@findings.classifier("c10_nrps_pks_qualifier_writes_first_subtype_only")
def _k8(clause, facts):
    """ NRPSPKSQualifier writes 'name(subtype)' with the first subtype only; further subtypes are lost.
        Must not hide: any other change of the NRPS_PKS qualifier, loss of the first subtype. """
    _, parts = _split(clause)
    return parts == ["feature", "CDS", "attrs.nrps_pks"] and facts.get("only_subtypes_after_the_first_lost") is True


@findings.classifier("c10_pfam_without_go_writes_empty_gene_ontologies")
def _k9(clause, facts):
    """ PFAMDomain.from_biopython always builds a GOQualifier (truthy even when empty): the re-read domain writes
        an empty gene_ontologies qualifier - invisible in GenBank text, a new key in JSON.
        Must not hide: PFAM domains with GO terms, any other qualifier. """
    _, parts = _split(clause)
    return (parts == ["feature", "PFAM_domain", "written.gene_ontologies"] and facts.get("has_go") is False
            and facts.get("original") == "'<absent>'" and facts.get("reread") == "[]")


@findings.classifier("c10_sideloaded_protocluster_keeps_parsed_qualifiers")
def _k10(clause, facts):
    """ SideloadedProtocluster.from_biopython reads core_location without popping it and leaves the fixed
        category/cutoff/detection_rule/aStool in the generic qualifiers: the proto_core feature of the second output
        gains category and core_location. Must not hide: rule-based protoclusters, other qualifiers. """
    _, parts = _split(clause)
    return (parts[:2] == ["feature", "protocluster"] and facts.get("class") == "SideloadedProtocluster"
            and parts[2] in ("leftover.aStool", "leftover.category", "leftover.core_location", "leftover.cutoff",
                             "leftover.detection_rule", "written.category", "written.core_location")
            and facts.get("original") == "'<absent>'")


@findings.classifier("c10_parsed_qualifier_left_in_generic_qualifiers")
def _k11(clause, facts):
    """ 'tool' (every antiSMASH feature), 'gene_kind' (CDS) and the rest of 'db_xref' (PFAM) are read but stay in the
        feature's generic qualifiers (a stale gene_kind survives strip_antismash_annotations).
        Must not hide: any other qualifier left behind, or one that was there before. """
    _, parts = _split(clause)
    if parts[0] != "feature" or facts.get("original") != "'<absent>'":
        return False
    return (parts[2] == "leftover.tool" or parts[1:] == ["CDS", "leftover.gene_kind"]
            or parts[1:] == ["PFAM_domain", "leftover.db_xref"])


BYTE_SITES = {      # which sites of the second output a known dump difference may change
    "C10-K1": ("protocluster/", "proto_core/", "cand_cluster/", "region/", "subregion/", "record/areas", "features/order"),
    "C10-K2": ("protocluster/", "proto_core/", "cand_cluster/", "region/", "subregion/", "record/areas", "features/order"),
    "C10-K3": ("cand_cluster/", "region/", "record/areas"),
    "C10-K4": ("",), "C10-K5": ("",), "C10-K6": ("",),      # a moved feature shifts its neighbours in the file
    "C10-K7": (), "C10-K8": (), "C10-K11": (),
    "C10-K9": ("PFAM_domain/gene_ontologies",),
    "C10-K10": ("proto_core/category", "proto_core/core_location"),
}


@findings.classifier("c10_json_areas_order_of_identical_protoclusters")
def _k12(clause, facts):
    """ gather_record_areas numbers a region's protoclusters by sorted(set): identical coordinates are ordered by
        set iteration, i.e. by memory address. Must not hide: any byte difference outside records/areas, or
        without identical protocluster coordinates. """
    return (clause == "json:fixed-point" and facts.get("tied_protoclusters", 0) > 0
            and all(site == "record/areas" for site in facts.get("sites", ["x"]))
            and not facts.get("unexplained_dump_differences"))


def _sites_covered(fmt, facts, extra=()) -> bool:
    ids = facts.get("dump_differences_attributed_to") or []
    allowed = [prefix for fid in ids for prefix in BYTE_SITES.get(fid, ())] + list(extra)
    if fmt == "json" and facts.get("tied_protoclusters", 0) > 0:
        allowed.append("record/areas")
    sites = facts.get("sites", [])
    return bool(allowed) and bool(sites) and all(any(site.startswith(prefix) for prefix in allowed) for site in sites)


@findings.classifier("c10_second_output_differs_where_known_difference_is_written")
def _k13(clause, facts):
    """ the byte fixed point fails only where dump differences already attributed to known findings are written.
        Must not hide: a byte difference with an unattributed dump difference, with equal dumps, or at a site none of
        the attributed findings writes to. """
    fmt, parts = _split(clause)
    if parts != ["fixed-point"] or facts.get("unexplained_dump_differences") != 0:
        return False
    return _sites_covered(fmt, facts)


@findings.classifier("c10_feature_table_order_with_origin_crossing_feature_inside_area")
def _k14(clause, facts):
    """ Record.to_biopython sorts all features with __lt__; an area puts itself before everything it contains,
        a gene/domain/area crossing the origin puts itself before everything (negative comparator start): for such
        a feature inside (or overlapping) an area the comparisons contradict each other, the order is no weak order
        and the sorted feature table depends on the order of the lists,
        which differs after a reload ('source' can even land behind the region). Only the order of otherwise
        identical features may differ. Must not hide: any difference in a feature's content, any order difference
        in a record without any origin-crossing feature or area and without an area that starts on the same base as a
        feature inside it. """
    fmt, parts = _split(clause)
    if parts != ["fixed-point"] or facts.get("unexplained_dump_differences") != 0:
        return False
    if "features/order" not in facts.get("sites", []):
        return False
    # the same contradiction without the origin: an area starting on the same base as a feature inside it comes
    # first by containment, while 'source' (first among equal coordinates) and the shorter-first rule disagree
    if not (facts.get("origin_crossing_feature_or_area_present") or facts.get("area_shares_start_with_contained_feature")):
        return False
    return _sites_covered(fmt, facts, extra=("features/order",))


# --------------------------------------------------------------------------------------------------
# the two round trips
# --------------------------------------------------------------------------------------------------

def write_gbk(record) -> str:
    handle = io.StringIO()
    SeqIO.write([record.to_biopython()], handle, "genbank")
    return handle.getvalue()


def read_gbk(text: str):
    return Record.from_biopython(list(SeqIO.parse(io.StringIO(text), "genbank"))[0], "bacteria")


def write_json(record) -> str:
    results = serialiser.AntismashResults("verif-input.gbk", [record], [{}], "verif-1.0", taxon="bacteria")
    handle = io.StringIO()
    results.write_to_file(handle)
    return handle.getvalue()


def read_json(text: str):
    handle = io.StringIO(text)
    handle.name = "verif.json"
    return serialiser.AntismashResults.from_file(handle).records[0]


FORMATS = {"gbk": (write_gbk, read_gbk, True), "json": (write_json, read_json, False)}


# --------------------------------------------------------------------------------------------------
# turning differences into clauses
# --------------------------------------------------------------------------------------------------

_INDEX = re.compile(r"\[\d+\]")


def _split_feature_path(path: str):
    """ 'features[<key>].rest' -> (key, rest) ; key itself contains brackets """
    assert path.startswith("features[")
    depth = 0
    for i, char in enumerate(path[len("features"):]):
        if char == "[":
            depth += 1
        elif char == "]":
            depth -= 1
            if depth == 0:
                end = len("features") + i
                return path[len("features["):end], path[end + 1:].lstrip(".")
    return path, ""


def clause_of(path: str):
    """ (clause, feature_key or None) for one dump difference """
    if path.startswith("features["):
        key, rest = _split_feature_path(path)
        ftype = key.split("|", 1)[0]
        if rest.startswith("#count") or rest == "":
            return f"feature-set:{ftype}", key
        rest = _INDEX.sub("", rest)
        rest = rest.replace("#len", "")
        if rest.startswith("qualifiers"):
            # qualifiers.type / qualifiers.location / qualifiers.qualifiers.<key>
            parts = rest.split(".")
            field = "written." + (parts[2] if len(parts) > 2 and parts[1] == "qualifiers" else parts[1] if len(parts) > 1 else "count")
        elif rest.startswith("attrs."):
            field = ".".join(rest.split(".")[:2])
        elif rest.startswith("leftover"):
            field = "leftover." + (rest.split(".")[1] if "." in rest else "")
        else:
            field = rest.split(".")[0]
        return f"feature:{ftype}:{field}", key
    if path.startswith("areas."):
        rest = _INDEX.sub("", path[len("areas."):]).replace("#len", "")
        parts = rest.split(".")
        return f"area:{parts[0]}:{parts[1] if len(parts) > 1 else 'count'}", None
    rest = _INDEX.sub("", path).replace("#len", "")
    parts = rest.split(".")
    return "header:" + ".".join(parts[:2]), None


def identity_structure(dump: dict) -> dict:
    """ the area structure with every number and every number-dependent order removed """
    areas = dump["areas"]

    def strip(entry, drop):
        return {k: (sorted(v) if isinstance(v, list) and k in ("products", "rules", "cds") else v)
                for k, v in entry.items() if k not in drop and k != "cds_order"}
    protos = sorted((strip(p, {"number"}) for p in areas["protoclusters"]), key=repr)
    cands = sorted((strip(c, {"number", "protoclusters"}) for c in areas["candidates"]), key=repr)
    subs = sorted((strip(s, {"number"}) for s in areas["subregions"]), key=repr)
    regions = sorted((strip(r, {"number", "candidates", "subregions"}) for r in areas["regions"]), key=repr)
    for group in (protos, cands, subs):
        for entry in group:
            entry.pop("region", None)     # region numbers are positions as well
    return {"protoclusters": protos, "candidates": cands, "subregions": subs, "regions": regions}


def interchangeable_structure(dump: dict) -> dict:
    """ the area structure when areas with identical coordinates are interchangeable: what each area is stays
        (as an unnumbered multiset), cross references are resolved to coordinates only """
    areas = dump["areas"]
    full = identity_structure(dump)

    def where(identity: str) -> str:
        # identities are "product|location|core|tool" (protocluster) - keep the coordinates of the extent
        return str(intervals(identity.split("|")[1]))
    cands = sorted([c["kind"], str(intervals(c["location"])), sorted(where(m) for m in c["members"])]
                   for c in areas["candidates"])
    regions = sorted([str(intervals(r["location"])), len(r["candidate_members"]), len(r["subregion_members"]),
                      sorted(r["cds"])] for r in areas["regions"])
    return {"protoclusters": full["protoclusters"], "subregions": full["subregions"], "candidates": cands,
            "regions": regions}


def _tied_areas(dump: dict) -> dict:
    out = {}
    for kind in ("protoclusters", "candidates", "subregions"):
        locs = [str(intervals(entry["location"])) for entry in dump["areas"][kind]]    # strand marks do not order
        out[kind] = len(locs) - len(set(locs))
    return out


_QUALIFIER = re.compile(r"^ {21}/([A-Za-z_0-9]+)")
_FEATURE = re.compile(r"^ {5}(\S+) +\S")


def _gbk_blocks(text: str):
    """ (header lines, [feature blocks], sequence lines); a block is (type, location text, {qualifier: [lines]}) """
    header, blocks, sequence = [], [], []
    section = "header"
    current = None
    qual = None
    for line in text.splitlines():
        if line.startswith("FEATURES"):
            section = "features"
            continue
        if line.startswith("ORIGIN"):
            section = "sequence"
        if section == "header":
            header.append(line)
        elif section == "sequence":
            sequence.append(line)
        else:
            match = _FEATURE.match(line)
            if match:
                current = [match.group(1), line[21:].strip(), {}]
                blocks.append(current)
                qual = None
                continue
            match = _QUALIFIER.match(line)
            if match:
                qual = match.group(1)
                current[2].setdefault(qual, []).append(line.strip())
            elif qual is None:
                current[1] += line.strip()
            else:
                current[2][qual].append(line.strip())
    return header, blocks, sequence


def _block_sites(blocks_a, blocks_b, found: set):
    import collections
    import json as stdjson
    texts_a = [stdjson.dumps(block, sort_keys=True) for block in blocks_a]
    texts_b = [stdjson.dumps(block, sort_keys=True) for block in blocks_b]
    if texts_a == texts_b:
        return
    extra_a = collections.Counter(texts_a) - collections.Counter(texts_b)
    extra_b = collections.Counter(texts_b) - collections.Counter(texts_a)
    if not extra_a and not extra_b:
        found.add("features/order")
        return
    only_a = [stdjson.loads(t) for t in extra_a.elements()]
    only_b = [stdjson.loads(t) for t in extra_b.elements()]
    for x in only_a:
        partner = next((y for y in only_b if y[0] == x[0] and y[1] == x[1]), None)
        if partner is None:
            found.add(f"{x[0]}/location")
            continue
        only_b.remove(partner)
        for key in sorted(set(x[2]) | set(partner[2])):
            if x[2].get(key) != partner[2].get(key):
                found.add(f"{x[0]}/{key}")
    for y in only_b:
        found.add(f"{y[0]}/location")
    # is the order of what is common the same?
    common_a = [t for t in texts_a if t not in extra_a]
    common_b = [t for t in texts_b if t not in extra_b]
    if common_a != common_b:
        found.add("features/order")


def gbk_diff_sites(first: str, second: str) -> list:
    """ where two GenBank texts differ: header/<KEY>, sequence, <feature type>/<qualifier>, <type>/location
        (a feature with that type and location exists in one text only), features/order """
    header_a, blocks_a, seq_a = _gbk_blocks(first)
    header_b, blocks_b, seq_b = _gbk_blocks(second)
    found: set = set()
    if header_a != header_b:
        keys = {line.split()[0] if line[:1].strip() else "continuation" for line in set(header_a) ^ set(header_b)}
        found.update("header/" + key for key in keys)
    if seq_a != seq_b:
        found.add("sequence")
    _block_sites(blocks_a, blocks_b, found)
    return sorted(found)


def json_diff_sites(first: str, second: str) -> list:
    a, b = asjson.loads(first), asjson.loads(second)
    found = set()
    ra, rb = a["records"][0], b["records"][0]
    for key in sorted(set(a) | set(b)):
        if key != "records" and a.get(key) != b.get(key):
            found.add("top/" + key)
    for key in sorted(set(ra) | set(rb)):
        if key == "features" or ra.get(key) == rb.get(key):
            continue
        found.add("record/" + key)
    blocks_a = [[f["type"], f["location"], f["qualifiers"]] for f in ra["features"]]
    blocks_b = [[f["type"], f["location"], f["qualifiers"]] for f in rb["features"]]
    _block_sites(blocks_a, blocks_b, found)
    return sorted(found)


# --------------------------------------------------------------------------------------------------
# structural facts about a difference (what the classifiers of known mechanisms key on)
# --------------------------------------------------------------------------------------------------

_RANGE = re.compile(r"\[<?>?(\d+):<?>?(\d+)\]")


def intervals(location: str) -> list:
    """ merged, sorted base intervals of a location string """
    found = sorted((int(s), int(e)) for s, e in _RANGE.findall(location))
    merged: list = []
    for s, e in found:
        if merged and s <= merged[-1][1]:
            merged[-1][1] = max(merged[-1][1], e)
        else:
            merged.append([s, e])
    return merged


def _size(ivs) -> int:
    return sum(e - s for s, e in ivs)


def _contains(outer, inner) -> bool:
    return all(any(os <= s and e <= oe for os, oe in outer) for s, e in inner)


def _feature_index(dump: dict) -> dict:
    index = {}
    for entry in dump["features"]:
        index.setdefault(D.feature_key(entry), entry)
    return index


def feature_facts(entry: dict | None) -> dict:
    if entry is None:
        return {}
    location = entry["location"]
    facts = {"class": entry["class"], "strand": -1 if "(-)" in location else 1 if "(+)" in location else 0,
             "parts": location.count("["), "location_length_mod3": _size(intervals(location)) % 3}
    attrs = entry.get("attrs", {})
    if entry["class"] == "CDSFeature":
        facts["codon_start"] = entry["codon_start"]
    if entry["class"] == "Prepeptide":
        facts.update({"leader_len": len(attrs["leader"]), "core_len": len(attrs["core"]), "tail_len": len(attrs["tail"])})
    return facts


def explain_feature(field: str, original: dict | None, reread: dict | None) -> dict:
    """ mechanism-level facts for one differing field of one feature present in both records """
    if original is None or reread is None:
        return {}
    facts: dict = {}
    cls = original["class"]
    ao, ar = original.get("attrs", {}), reread.get("attrs", {})
    if cls == "CDSFeature" and field == "attrs.gene_functions":
        fo, fr = ao["gene_functions"], ar["gene_functions"]
        explained = len(fo) == len(fr)
        for x, y in zip(fo, fr):
            if x == y:
                continue
            # "<function> (<tool>) <id>: <text>" written for a description "<id>: <text>" is read back as a product
            same_head = x[0] == y[0] and x[1] == y[1]
            split = x[3] is None and y[3] is not None and x[2] in (f"{y[3]}: {y[2]}", f"{y[3]}:{y[2]}")
            explained = explained and same_head and split and x[0] != "biosynthetic"
        facts["description_colon_read_as_product_only"] = explained
    if cls == "CDSFeature" and field == "attrs.nrps_pks":
        do, dr = ao["nrps_pks"]["domains"], ar["nrps_pks"]["domains"]
        explained = len(do) == len(dr) and ao["nrps_pks"]["type"] == ar["nrps_pks"]["type"]
        for x, y in zip(do, dr):
            explained = explained and x[:7] == y[:7] and len(x[7]) >= 2 and y[7] == x[7][:1] or (explained and x == y)
        facts["only_subtypes_after_the_first_lost"] = bool(explained)
    if cls == "Prepeptide":
        spaced = [k for k in ("leader", "core", "tail") if " " in ar.get(k, "") and " " not in ao.get(k, "")]
        facts["reread_sequence_has_space"] = bool(spaced)
        facts["longest_segment"] = max(len(ao["leader"]), len(ao["core"]), len(ao["tail"]))
    if cls == "PFAMDomain":
        facts["has_go"] = bool(ao.get("go"))
    return facts


def pair_feature_sets(original: dict, observed: dict, ftype: str) -> list:
    """ features of one type present in only one of the dumps, paired by class and name:
        [(entry_in_original | None, entry_in_reread | None)] """
    index_o, index_r = {}, {}
    for entry in original["features"]:
        if entry["type"] == ftype:
            index_o.setdefault(D.feature_key(entry), []).append(entry)
    for entry in observed["features"]:
        if entry["type"] == ftype:
            index_r.setdefault(D.feature_key(entry), []).append(entry)
    only_o, only_r = [], []
    for key in set(index_o) | set(index_r):
        lo, lr = index_o.get(key, []), index_r.get(key, [])
        only_o.extend(lo[len(lr):])
        only_r.extend(lr[len(lo):])
    pairs = []
    for entry in only_o:
        match = next((other for other in only_r if other["class"] == entry["class"] and other["name"] == entry["name"]),
                     None)
        if match is not None:
            only_r.remove(match)
        pairs.append((entry, match))
    pairs.extend((None, entry) for entry in only_r)
    return pairs


def location_change_facts(original: dict, reread: dict) -> dict:
    io, ir = intervals(original["location"]), intervals(reread["location"])
    return {"same_bases": io == ir, "reread_inside_original": _contains(io, ir),
            "bases_lost": _size(io) - _size(ir), "parts_original": original["location"].count("["),
            "parts_reread": reread["location"].count("["),
            "reread_crosses_origin": reread["location"].startswith("join{") and ir[0][0] == 0 and len(ir) > 1,
            "original_crosses_origin": original["location"].startswith("join{") and io[0][0] == 0 and len(io) > 1,
            "original_location": original["location"], "reread_location": reread["location"]}


def area_facts(original: dict, observed: dict) -> dict:
    ties = _tied_areas(original)
    crossing_inside_other = False
    for kind in ("protoclusters", "candidates", "subregions"):
        entries = original["areas"][kind]
        for entry in entries:
            if not entry["location"].startswith("join{"):
                continue
            mine = intervals(entry["location"])
            for other in entries:
                if other is not entry and other["location"] != entry["location"] \
                        and _contains(intervals(other["location"]), mine):
                    crossing_inside_other = True
    wrapped = observed["topology"] == "linear" and any(
        entry[key].startswith("join{") for entry in observed["areas"]["candidates"] for key in ("location", "core_location"))
    strand_only = False
    if observed["topology"] == "linear" and len(original["areas"]["candidates"]) == len(observed["areas"]["candidates"]):
        for x, y in zip(original["areas"]["candidates"], observed["areas"]["candidates"]):
            for key in ("location", "core_location"):
                if x[key] != y[key] and intervals(x[key]) == intervals(y[key]):
                    strand_only = True
    return {"linear_candidate_crosses_origin_after_reread": wrapped,
            "linear_candidate_differs_in_strand_mark_only": strand_only,
            "tied_protoclusters": ties["protoclusters"], "tied_subregions": ties["subregions"],
            "tied_candidates": ties["candidates"],
            "identity_structure_equal": identity_structure(original) == identity_structure(observed),
            "equal_if_identical_coordinates_interchange": interchangeable_structure(original) == interchangeable_structure(observed),
            "origin_crossing_area_inside_another": crossing_inside_other}


AREA_TYPES = ("protocluster", "proto_core", "cand_cluster", "region", "subregion")


def crossing_feature_inside_area(dump: dict) -> bool:
    """ a non-area feature crossing the origin lies inside a protocluster/candidate/subregion/region """
    if dump["topology"] != "circular":
        return False
    areas = [intervals(entry["location"]) for kind in dump["areas"].values() for entry in kind]
    for entry in dump["features"]:
        if entry["type"] in AREA_TYPES or not entry["location"].startswith("join{"):
            continue
        if crosses_origin(entry["location"]) and any(_contains(a, intervals(entry["location"])) for a in areas):
            return True
    return False


def area_shares_start_with_contained_feature(dump: dict) -> bool:
    """ an area begins on the same base as a non-area feature lying inside it: the area-first rule (containment) and
        the shorter-first rule (same start) of the feature comparison then pull in different directions """
    areas = [intervals(entry["location"]) for kind in dump["areas"].values() for entry in kind]
    for entry in dump["features"]:
        if entry["type"] in AREA_TYPES or entry["type"] == "source":
            continue
        ivs = intervals(entry["location"])
        start = min(s for s, _ in ivs)
        if any(min(s for s, _ in a) == start and _contains(a, ivs) for a in areas):
            return True
    return False


def crosses_origin(location: str) -> bool:
    """ the parts of a compound location, in reading order, step back over the origin (in an exon or an intron) """
    starts = [int(s) for s, _ in _RANGE.findall(location)]
    if "(-)" in location:
        starts.reverse()
    return any(b < a for a, b in zip(starts, starts[1:]))


# --------------------------------------------------------------------------------------------------
# one case
# --------------------------------------------------------------------------------------------------

def count_classes(ctx, facts: dict, spec: dict):
    ctx.count("class:circular" if facts["circular"] else "class:linear")
    for name, key in (("gene-bridging-origin", "bridging_genes"), ("gene-codon_start", "codon_start_genes"),
                      ("gene-of-one-codon", "one_codon_genes"),
                      ("gene-multi-exon", "multi_exon_genes"), ("area-bridging-origin", "bridging_areas"),
                      ("identical-protocluster-coordinates", "identical_protocluster_locations"),
                      ("identical-candidate-coordinates", "identical_candidate_locations"),
                      ("sideloaded-protocluster", "sideloaded_protoclusters"),
                      ("sideloaded-subregion", "sideloaded_subregions"), ("subregion", "subregions"),
                      ("pfam", "pfams"), ("asdomain", "asdomains"), ("cds-motif", "motifs"),
                      ("external-cds-motif", "external_motifs"),
                      ("prepeptide", "prepeptides"), ("module", "modules"), ("module-multi-cds", "multi_cds_modules")):
        if facts[key]:
            ctx.count("class:" + name)
    for kind in facts["candidate_kinds"]:
        ctx.count("class:kind:" + kind)
    if facts["max_candidates_per_region"] >= 2:
        ctx.count("class:region>=2-candidates")
    if facts["same_span_genes_on_both_strands"]:
        ctx.count("class:same-span-genes-on-both-strands")
    if facts["subregions"] >= 10:
        ctx.count("class:ten-or-more-subregions-in-identical-pairs")
    if facts["candidates_with_structure"]:
        ctx.count("class:candidate-with-structure")
    if facts["candidate_without_structure_after_one_with"]:
        ctx.count("class:candidate-without-structure-after-one-with")
    if facts["origin_region_with_split_numbering"]:
        ctx.count("class:origin-region-with-split-numbering")
    if facts["regions"] == 0:
        ctx.count("class:no-region")
    if any(p.get("t2pks") for p in spec["protoclusters"]):
        ctx.count("class:t2pks")
    if spec["header"]["reference"]:
        ctx.count("class:header-reference")
    if facts["prepeptide_full"]:
        ctx.count("class:prepeptide-leader-core-tail")


def run_case(ctx, spec: dict):
    case = {"spec": spec}
    # every third record with modules is converted once before its modules are added (the pipeline writes the results
    # JSON, annotates further and then writes GenBank): what was converted earlier must not stick
    late = bool(spec.get("modules")) and spec["seq_seed"] % 3 == 0
    try:
        record = A.build_from_spec(dict(spec, _hold_modules=True) if late else spec)
        if late:
            for _fmt, (write, _read, _forward) in FORMATS.items():
                ctx.guard("early-write-crash", case, write, record)
            added = 0
            for module in list(A.PENDING_MODULES):
                record.add_module(module)
                added += 1
            if added:
                ctx.count("class:module-added-after-a-first-conversion")
    except ValueError as err:
        # the pipeline itself refuses the layout (e.g. create_regions: "regions cannot overlap"): no record exists
        # to round-trip; counted, not judged here (region formation is C06's subject)
        ctx.count("skipped:pipeline-rejects-layout:" + str(err)[:40].replace(" ", "-"))
        return
    facts = A.facts(record)
    facts["prepeptide_full"] = any(getattr(m, "leader", "") and getattr(m, "tail", "") for m in record.get_cds_motifs())
    count_classes(ctx, facts, spec)
    nontrivial = facts["max_candidates_per_region"] >= 2 or facts["bridging_areas"] > 0 or facts["bridging_genes"] > 0
    ctx.case(dict(facts), nontrivial=nontrivial,
             sample={"length": spec["L"], **{k: v for k, v in facts.items() if v}})
    base_facts = {"circular": facts["circular"]}
    for fmt, (write, read, forward) in FORMATS.items():
        one_format(ctx, fmt, write, read, forward, record, case, base_facts)
    # a later run on the earlier output: the record is read back, stripped of antiSMASH's annotations and annotated
    # again with another outcome (other protoclusters, functions, domains); that record must survive the round trips too
    if spec["seq_seed"] % 4 == 1:
        try:
            earlier = read_gbk(write_gbk(record))
            earlier.record_index = 1
            earlier.strip_antismash_annotations()
            rerun = A.annotate(earlier, A.reannotation_spec(spec))
        except ValueError as err:
            ctx.count("skipped:reannotation-not-possible:" + type(err).__name__)
            return
        except Exception as err:  # pylint: disable=broad-except
            ctx.violate("read-strip-annotate-again-crash", {**base_facts, **crash_facts(err)}, case)
            return
        ctx.count("history:record-read-stripped-and-annotated-again")
        case_b = {"spec": spec, "history": "read-strip-annotate-again"}
        facts_b = {"circular": facts["circular"], "history": "read-strip-annotate-again"}
        for fmt, (write, read, forward) in FORMATS.items():
            one_format(ctx, fmt, write, read, forward, rerun, case_b, facts_b)


def _prepeptide_space(reread) -> bool:
    return any(" " in (m.leader + m.core + m.tail) for m in reread.get_cds_motifs() if isinstance(m, Prepeptide))


def one_format(ctx, fmt, write, read, forward, record, case, base_facts):
    ok, first = ctx.guard(f"{fmt}:write-crash", case, write, record)
    if not ok:
        return
    ok, again = ctx.guard(f"{fmt}:write-crash", case, write, record)
    if not ok:
        return
    ctx.count(f"op:{fmt}:write-repeatable")
    if again != first:
        sites = gbk_diff_sites(first, again) if fmt == "gbk" else json_diff_sites(first, again)
        ctx.violate(f"{fmt}:write-repeatable", {**base_facts, "sites": sites}, case)
    original = D.dump(record, strandless_as_forward=forward)
    try:
        reread = read(first)
    except Exception as err:  # pylint: disable=broad-except
        ctx.violate(f"{fmt}:reload-crash", {**base_facts, **crash_facts(err)}, case)
        return
    ctx.count(f"op:{fmt}:dump-compare")
    try:
        observed = D.dump(reread, strandless_as_forward=forward)
    except Exception as err:  # pylint: disable=broad-except
        ctx.violate(f"{fmt}:reread-record-unusable",
                    {**base_facts, **crash_facts(err), "reread_prepeptide_sequence_has_space": _prepeptide_space(reread)},
                    case)
        return
    attributed, unexplained = compare_dumps(ctx, fmt, original, observed, case, base_facts)
    try:
        second = write(reread)
    except Exception as err:  # pylint: disable=broad-except
        ctx.violate(f"{fmt}:rewrite-crash",
                    {**base_facts, **crash_facts(err), "reread_prepeptide_sequence_has_space": _prepeptide_space(reread)},
                    case)
        return
    ctx.count(f"op:{fmt}:fixed-point")
    if second != first:
        sites = gbk_diff_sites(first, second) if fmt == "gbk" else json_diff_sites(first, second)
        facts = {**base_facts, "sites": sites, **area_facts(original, observed),
                 "origin_crossing_feature_inside_area": crossing_feature_inside_area(original),
                 "origin_crossing_feature_or_area_present": original["topology"] == "circular" and any(
                     crosses_origin(entry["location"]) for entry in original["features"]),
                 "area_shares_start_with_contained_feature": area_shares_start_with_contained_feature(original),
                 "dump_equal": not attributed and not unexplained,
                 "dump_differences_attributed_to": sorted(attributed), "unexplained_dump_differences": unexplained}
        ctx.violate(f"{fmt}:fixed-point", facts, case)


def compare_dumps(ctx, fmt, original, observed, case, base_facts):
    """ records one deviation per (clause, feature); returns (known finding ids hit, number of unattributed ones) """
    diffs = D.diff(original, observed, limit=600)
    attributed: set = set()
    unexplained = 0
    if not diffs:
        return attributed, unexplained
    index = _feature_index(original)
    index_observed = _feature_index(observed)
    areas = None
    grouped: dict = {}
    for path, a, b in diffs:
        clause, key = clause_of(path)
        if clause.startswith("feature-set:"):
            key = None
        grouped.setdefault((clause, key), []).append((path, a, b))

    def record(clause, facts):
        nonlocal unexplained
        known = ctx.violate(f"{fmt}:{clause}", facts, case)
        if known is None:
            unexplained += 1
        else:
            attributed.add(known)

    for (clause, key), items in sorted(grouped.items(), key=lambda kv: (kv[0][0], kv[0][1] or "")):
        path, a, b = items[0]
        if clause.endswith(":cds_order"):
            # iteration order of cds_children (membership and origin sections are compared): observed, not judged
            ctx.count("observed:cds-children-iteration-order-differs:" + fmt)
            continue
        parts = clause.split(":")
        is_area = parts[0] == "area" or (len(parts) > 1 and parts[1] in AREA_TYPES)
        if is_area and areas is None:
            areas = area_facts(original, observed)
        if parts[0] == "feature-set":
            for entry_o, entry_r in pair_feature_sets(original, observed, parts[1]):
                facts = {**base_facts, **feature_facts(entry_o or entry_r), "in_original": entry_o is not None,
                         "in_reread": entry_r is not None}
                if entry_o is not None and entry_r is not None:
                    facts.update(location_change_facts(entry_o, entry_r))
                    facts.update(explain_feature("location", entry_o, entry_r))
                else:
                    facts["location"] = (entry_o or entry_r)["location"]
                if is_area:
                    facts.update(areas)
                record(clause, facts)
            continue
        facts = {**base_facts, "differences": len(items), "example_path": path[:200], "original": a, "reread": b}
        if key is not None:
            facts.update(feature_facts(index.get(key) or index_observed.get(key)))
            facts.update(explain_feature(":".join(parts[2:]), index.get(key), index_observed.get(key)))
            facts["field"] = ":".join(parts[2:])
        if is_area:
            facts.update(areas)
        record(clause, facts)
    return attributed, unexplained


# --------------------------------------------------------------------------------------------------
# driver
# --------------------------------------------------------------------------------------------------

def run(ctx):
    A.quiet()
    n = ctx.quota(420, 8000)
    for i in ctx.cases(n, every=4):
        rng = ctx.rng("case", i)
        spec = A.gen_spec(rng, length=rng.choice([4000, 6000, 9000]) if ctx.tier == "quick" else None)
        run_case(ctx, spec)


def replay(ctx, case):
    A.quiet()
    run_case(ctx, case["spec"])
