"""C19 Region overview layout data is complete, non-overlapping and in range.

The real build_area_rows and js.convert_regions (minimal real Config, temporary output directory) run on the
regions of generated worlds (vf/gen/c19_worlds.py: gene grid with origin-spanning genes, protoclusters with
symmetric/asymmetric neighbourhoods, sideloaded protoclusters and subregions built by the real sideloader
annotation classes, plain subregions; candidates and regions formed by the real Record methods). The oracle is
vf/models/c19_layout_ref.py: predicates on the emitted numbers against the genome-order map of the region.
"""
from __future__ import annotations

import atexit
import logging
import shutil
import tempfile

from antismash.common import html_renderer
from antismash.common.secmet.features.candidate_cluster.structures import CandidateClusterKind as K
from antismash.config import build_config, update_config
from antismash.outputs import html as html_module
from antismash.outputs.html import area_packing, js

from vf import core, findings
from vf.gen import c19_worlds as WG
from vf.models import c19_layout_ref as M
from vf.models import ring

PROPERTY = "C19"
LEVEL = "exploration"
PARALLEL = True
RULE = ("worlds: 6-12 genes on a 100 bp grid (grid offset 0 or 10, 15% two-exon genes), 75% circular, 60% of circular "
        "records with a gene spanning the origin (2-3 exons, origin inside an exon or an intron, either strand); 1-6 "
        "protoclusters with cores of 1-4 consecutive genes (also through the origin), neighbourhoods of 0-5 genes per "
        "side (45% asymmetric; 30% sideloaded through ProtoclusterAnnotation.to_secmet), identical/nested copies, "
        "whole-record extents; 0-3 subregions (40% sideloaded through SubRegionAnnotation.to_secmet), also across "
        "the origin; pads chosen so extents end exactly on 0 / L. Candidates and regions are made by the real "
        "create_candidate_clusters/create_regions. One case = one region. Non-trivial: >= 2 drawn areas and (the "
        "region spans the origin, or is the whole circular record, or has two areas on one row, or holds a "
        "subregion together with candidates); distinct by (topology, region, areas).")
ASSUMPTIONS = [
    "An area's full extent is [neighbouring_start, neighbouring_end] (missing keys default to start/end, as "
    "to_minimal_json drops them when equal); overlap means sharing at least one base (half-open intervals).",
    "'Every candidate cluster is drawn': SINGLE candidates of a region without subregions are deliberately omitted by "
    "build_area_rows (their protocluster has the same extent; pinned by the repository's tests); exactly that case is "
    "exempt.",
    "The core clause applies to kind == 'protocluster' only; for candidate clusters only the extent is constrained "
    "(their emitted start/end pair is not read).",
    "Areas are identified by (kind, product/label); the generator gives every protocluster and subregion a unique name. "
    "A drawn area must have exactly the feature's own extent (its genome-order image in an origin-spanning region).",
    "Genes: range everywhere; equality with the genome-order image only in origin-spanning regions; a gene split at "
    "the origin must come as two entries sharing a group id whose pieces are [start, L] and [1, end].",
    "The announced range is js start/end with end exact and start either 0- or 1-based (the code uses region.start "
    "for origin-spanning regions and location.start + 1 otherwise).",
    "html_renderer.FileTemplate is memoised per path by the harness (the real template is still rendered for every "
    "gene); compiling it once per gene is 50 ms and has no bearing on layout numbers.",
    "Worlds in which the real candidate/region formation raises are skipped and counted (other properties own them).",
]
BRANCHES = ["core-spans-origin", "right-neighbourhood", "left-neighbourhood", "no-core"]
REQUIRED = ["op:areas", "op:rows", "op:range", "op:announced", "op:orfs", "op:core", "region:linear",
            "region:circular-plain", "region:spans-origin", "region:whole-record", "gene:split-at-origin",
            "gene:spans-origin-shifted", "gene:post-origin-shifted", "area:sideloaded-protocluster",
            "area:sideloaded-subregion", "area:subregion", "area:candidate", "area:split-in-two",
            "branch:whole-record-split"] + [f"branch:{b}" for b in BRANCHES]
REQUIRED_THOROUGH = [f"branch:{b}/{m}" for b in BRANCHES for m in ("region-spans-origin", "whole-record-split")] + [
    "area:candidate-spans-origin", "area:protocluster-spans-origin", "area:subregion-spans-origin",
    "row:two-areas", "boundary:extent-ends-at-L", "boundary:extent-starts-at-0", "shape:whole-record-extent"]

_STATE = {"options": None, "tmp": None, "ctx": None, "installed": False}


# --------------------------------------------------------------------------------------------------
# harness: options, template memo, branch counter
# --------------------------------------------------------------------------------------------------

def origin_class(feature) -> str:
    """ geometric class of an origin-spanning area, from its parts only """
    core = getattr(feature, "core_location", None)
    if core is None or not hasattr(feature, "core_start"):
        return "no-core"
    if ring.is_bridging(core):
        return "core-spans-origin"
    pre = ring.forward_parts(feature.location)[0]
    cparts = ring.forward_parts(core)
    cs, ce = cparts[0][0], cparts[-1][1]
    if pre[0] <= cs and ce <= pre[1]:
        return "right-neighbourhood"      # core before the origin: the neighbourhood to its right crosses
    return "left-neighbourhood"


def _install(ctx):
    _STATE["ctx"] = ctx
    if _STATE["installed"]:
        return
    logging.disable(logging.CRITICAL)
    options = build_config([], isolated=True, modules=[html_module])
    tmp = tempfile.mkdtemp(prefix="vf-c19-")
    update_config({"output_dir": tmp, "all_enabled_modules": []})
    _STATE["options"] = options
    _STATE["tmp"] = tmp
    atexit.register(shutil.rmtree, tmp, True)

    real_template = html_renderer.FileTemplate
    memo: dict = {}

    def cached_template(template_file, extra_paths=None):
        key = (template_file, tuple(extra_paths or ()))
        if key not in memo:
            memo[key] = real_template(template_file, extra_paths)
        return memo[key]
    html_renderer.FileTemplate = cached_template

    real_adjust = area_packing.adjust_cross_origin_area

    def counting_adjust(area, feature, region_crosses_origin, length):
        try:
            cls = origin_class(feature)
            mode = "region-spans-origin" if region_crosses_origin else "whole-record-split"
            cur = _STATE["ctx"]
            cur.count(f"branch:{cls}")
            cur.count(f"branch:{cls}/{mode}")
            if not region_crosses_origin:
                cur.count("branch:whole-record-split")
        except Exception:  # pylint: disable=broad-except
            pass
        return real_adjust(area, feature, region_crosses_origin, length)
    area_packing.adjust_cross_origin_area = counting_adjust
    _STATE["installed"] = True


# --------------------------------------------------------------------------------------------------
# description of a region for the model (reads parts only)
# --------------------------------------------------------------------------------------------------

def _span(loc):
    fwd = ring.forward_parts(loc)
    return (fwd[0][0], fwd[-1][1]), ring.is_bridging(loc)


def describe_region(region, length):
    feats = []
    seen = set()
    protos = []
    for cand in region.candidate_clusters:
        for proto in cand.protoclusters:
            if id(proto) not in seen:
                seen.add(id(proto))
                protos.append(proto)

    def one(kind, product, feature, core=None, sideloaded=False):
        extent, bridging = _span(feature.location)
        item = {"kind": kind, "product": product, "extent": extent, "bridging": bridging, "core": None,
                "core_bridging": False, "sideloaded": sideloaded,
                "two_part_full_cover": len(feature.location.parts) > 1 and extent[0] == extent[1],
                "origin_class": origin_class(feature) if bridging else None}
        if core is not None:
            item["core"], item["core_bridging"] = _span(core)
            item["core_sum_le_L"] = item["core"][0] + item["core"][1] <= length
            # the arithmetic side test of adjust_cross_origin_area (core_start + core_end > L <=> core before the
            # origin) against the geometry (core inside the pre-origin part of the extent)
            item["side_test_mismatch"] = bool(bridging and not item["core_bridging"] and (
                (not item["core_sum_le_L"]) != (item["origin_class"] == "right-neighbourhood")))
        feats.append(item)

    for proto in protos:
        one("protocluster", proto.product, proto, proto.core_location, type(proto).__name__.startswith("Sideloaded"))
    for cand in region.candidate_clusters:
        if region.subregions or cand.kind != K.SINGLE:
            one("candidatecluster", f"CC {cand.get_candidate_cluster_number()}: {cand.kind}", cand, cand.core_location)
    for sub in region.subregions:
        one("subregion", sub.label, sub, None, type(sub).__name__.startswith("Sideloaded"))
    return feats


def describe_genes(region):
    genes = []
    for cds in region.cds_children:
        span, bridging = _span(cds.location)
        genes.append({"name": cds.get_name(), "span": span, "bridging": bridging, "strand": cds.location.strand,
                      "exons": len(cds.location.parts), "parts": ring.forward_parts(cds.location)})
    return genes


# --------------------------------------------------------------------------------------------------
# one world
# --------------------------------------------------------------------------------------------------

def _row_facts(facts, feats, entries):
    """ structural facts about a same-row overlap: which of the two features span the origin and whether the one
        that does not is the first area of its row (emission order is row order) """
    by_id = {(f["kind"], f["product"]): f for f in feats}
    groups = {}
    for e in entries:
        if e.get("group") and e.get("product"):
            groups[e["group"]] = (e["kind"], e["product"])

    def feat_of(entry):
        ident = (entry["kind"], entry.get("product"))
        if not entry.get("product") and entry.get("group"):
            ident = groups.get(entry["group"], ident)
        return by_id.get(ident)
    fa, fb = feat_of(facts["a"]), feat_of(facts["b"])
    if fa is None or fb is None:
        return facts
    height = facts["a"]["height"]
    first = next(e for e in entries if e["height"] == height)
    crossing = [fa["bridging"], fb["bridging"]]
    facts["features_crossing_origin"] = sum(crossing)
    if sum(crossing) == 1:
        other = facts["b"] if crossing[0] else facts["a"]
        facts["noncrossing_is_first_of_row"] = feat_of(first) is feat_of(other)
    return facts


def check_areas(ctx, frame, feats, entries, via, case):
    ctx.count("op:areas")
    ctx.count("op:rows")
    ctx.count("op:range", len(entries))
    ctx.count("op:core", sum(1 for e in entries if e["kind"] == "protocluster"))
    for clause, facts in M.check_areas(frame, feats, entries):
        if clause.startswith("note:"):
            ctx.count(clause)
            continue
        facts["via"] = via
        if clause == "same-row-areas-disjoint":
            facts = _row_facts(facts, feats, entries)
        ctx.violate(clause, facts, case)


def crash_context(region_facts, feats, err):
    return dict(core.crash_facts(err), **region_facts,
                any_area_two_part_full_cover=any(f["two_part_full_cover"] for f in feats),
                n_areas=len(feats))


def run_world(ctx, case):
    """ returns the number of regions examined """
    _install(ctx)
    length, circular = case["L"], case["circular"]
    try:
        record = WG.build(case)
    except (ValueError, AssertionError) as err:
        # the layout is refused while the record is formed (candidate / region formation is C05's and C06's subject)
        ctx.count("skip:world-formation-raised")
        ctx.count("skip:world-formation-raised:" + type(err).__name__)
        return 0
    regions = list(record.get_regions())
    if not regions:
        ctx.count("skip:world-without-region")
        return 0
    described = []
    for region in regions:
        frame = M.Frame(length, circular, ring.forward_parts(region.location))
        feats = describe_region(region, length)
        genes = describe_genes(region)
        described.append((region, frame, feats, genes))

    # (a) the whole record through js.convert_regions
    js_regions = None
    # a third of the worlds are converted in a fungal run: what reaches the drawing must not depend on the taxon
    taxon = "fungi" if length % 3 == 0 else "bacteria"
    update_config({"taxon": taxon})
    try:
        js_regions = js.convert_regions(record, _STATE["options"], {})
        ctx.count("op:convert_regions")
        ctx.count(f"taxon:{taxon}")
        if taxon == "fungi" and circular and any(r.crosses_origin() for r in regions):
            ctx.count("class:origin-region-in-fungal-run")
    except Exception as err:  # pylint: disable=broad-except
        culprit = None
        for region, frame, feats, _genes in described:
            try:
                area_packing.build_area_rows(region, length, circular=circular)
            except Exception:  # pylint: disable=broad-except
                culprit = (frame, feats)
                break
        frame, feats = culprit or (described[0][1], described[0][2])
        ctx.violate("convert-regions-crash", crash_context(frame.facts(), feats, err), case)

    for idx, (region, frame, feats, genes) in enumerate(described):
        classify_region(ctx, frame, feats, genes)
        region_case = dict(case, region_index=idx)
        # (b) build_area_rows directly
        entries = None
        try:
            entries = area_packing.build_area_rows(region, length, circular=circular)
        except Exception as err:  # pylint: disable=broad-except
            ctx.violate("build-area-rows-crash", crash_context(frame.facts(), feats, err), region_case)
        if entries is not None:
            check_areas(ctx, frame, feats, entries, "build_area_rows", region_case)
            classify_entries(ctx, frame, entries)
        orfs = None
        if js_regions is not None:
            js_region = js_regions[idx]
            ctx.count("op:announced")
            for clause, facts in M.check_announced(frame, js_region):
                ctx.violate(clause, facts, region_case)
            check_areas(ctx, frame, feats, js_region["clusters"], "convert_regions", region_case)
            orfs = js_region["orfs"]
        else:
            # the record-wide call died in another region: gene data through the real per-region helper
            try:
                orfs = js.convert_cds_features(record, region.cds_children, _STATE["options"], {}, region)
                ctx.count("op:orfs-via-convert_cds_features")
            except Exception as err:  # pylint: disable=broad-except
                ctx.violate("convert-cds-features-crash", crash_context(frame.facts(), feats, err), region_case)
        if orfs is not None:
            ctx.count("op:orfs", max(1, len(orfs)))
            for clause, facts in M.check_orfs(frame, genes, orfs):
                if clause.startswith("note:"):
                    ctx.count(clause)
                else:
                    ctx.violate(clause, facts, region_case)
        n_drawn = len(feats)
        two_on_row = entries is not None and len({e["height"] for e in entries}) < len(
            {e.get("group") or id(e) for e in entries})
        nontrivial = n_drawn >= 2 and (frame.crossing or frame.whole or two_on_row or
                                       (any(f["kind"] == "subregion" for f in feats) and
                                        any(f["kind"] != "subregion" for f in feats)))
        key = ("region", circular, length, frame.parts,
               sorted((f["kind"], f["extent"], f["core"]) for f in feats),
               sorted((g["span"], g["bridging"]) for g in genes if g["bridging"]))
        sample = None
        if nontrivial and entries is not None:
            sample = {"L": length, "circular": circular, "region": frame.parts,
                      "areas": [{k: f[k] for k in ("kind", "product", "extent", "core")} for f in feats],
                      "emitted": entries,
                      "orfs": [M._slim(o) for o in (orfs or [])]}  # pylint: disable=protected-access
        ctx.case(key, nontrivial=nontrivial, sample=sample)
    return len(described)


def classify_region(ctx, frame, feats, genes):
    if not frame.circular:
        ctx.count("region:linear")
    elif frame.crossing:
        ctx.count("region:spans-origin")
    elif frame.whole:
        ctx.count("region:whole-record")
    else:
        ctx.count("region:circular-plain")
    for f in feats:
        if f["kind"] == "candidatecluster":
            ctx.count("area:candidate")
        elif f["kind"] == "subregion":
            ctx.count("area:sideloaded-subregion" if f["sideloaded"] else "area:subregion")
        elif f["sideloaded"]:
            ctx.count("area:sideloaded-protocluster")
        else:
            ctx.count("area:protocluster")
        if f["bridging"]:
            ctx.count(f"area:{f['kind'].replace('candidatecluster', 'candidate')}-spans-origin")
            if f.get("side_test_mismatch"):
                ctx.count("shape:core-side-arithmetic-disagrees-with-geometry")
        if f["extent"] == (0, frame.length) and not f["bridging"]:
            ctx.count("shape:whole-record-extent")
        if f["two_part_full_cover"]:
            ctx.count("shape:two-part-extent-covering-every-base")
        if f["extent"][1] == frame.length:
            ctx.count("boundary:extent-ends-at-L")
        if f["extent"][0] == 0:
            ctx.count("boundary:extent-starts-at-0")
    for g in genes:
        if g["bridging"]:
            ctx.count("gene:spans-origin-shifted" if frame.crossing else "gene:split-at-origin")
        elif frame.crossing and frame.side(*g["span"]) == "post":
            ctx.count("gene:post-origin-shifted")


def classify_entries(ctx, frame, entries):
    heights = {}
    for e in entries:
        heights.setdefault(e["height"], set()).add(e.get("group") or id(e))
    if any(len(v) > 1 for v in heights.values()):
        ctx.count("row:two-areas")
    if any(e.get("group") for e in entries):
        ctx.count("area:split-in-two")
    touching = M.touching_pairs(entries)
    if touching:
        ctx.count("boundary:row-areas-touching", touching)


def run(ctx):
    _install(ctx)
    rng = ctx.rng("worlds")
    target = ctx.quota(4000, 200000)
    done = 0
    for _ in ctx.cases(10 ** 9):
        if done >= target:
            break
        case = WG.gen_case(rng)
        ok, res = ctx.guard("harness-crash", case, run_world, ctx, case)
        if ok:
            done += res
        ctx.count("worlds")


def replay(ctx, case):
    case = dict(case)
    case.pop("region_index", None)
    run_world(ctx, case)


# --------------------------------------------------------------------------------------------------
# known findings
# --------------------------------------------------------------------------------------------------

@findings.classifier("c19_two_part_area_covering_whole_record")
def _c19_full_cover(clause, facts):
    """ an area (candidate/region hull made by connect_locations) whose location is join{[k:L), [0:k)} - two parts
        that cover every base - has start == end, so Area.crosses_origin() is False and the assertion in
        add_area_from_feature fails. Must not hide: any other crash, or this assertion for an area that leaves at
        least one base uncovered. """
    return clause in ("build-area-rows-crash", "convert-regions-crash") and facts.get("exception") == "AssertionError" \
        and any("add_area_from_feature" in w for w in facts.get("where", [])) \
        and facts.get("any_area_two_part_full_cover") is True


@findings.classifier("c19_cross_origin_area_checked_against_first_of_row_only")
def _c19_row_first_only(clause, facts):
    """ Row.can_fit compares an origin-spanning area with the first area of the row only, so it lands on a row whose
        later areas it overlaps (reached for protoclusters of origin-spanning regions, which arrive in genome order).
        Must not hide: an overlap between two areas that both do or both do not span the origin, or with the first
        area of the row. """
    return clause == "same-row-areas-disjoint" and facts.get("features_crossing_origin") == 1 \
        and facts.get("noncrossing_is_first_of_row") is False and facts.get("same_group") is False


@findings.classifier("c19_core_side_of_origin_judged_by_coordinate_sum")
def _c19_side_sum(clause, facts):
    """ adjust_cross_origin_area decides 'core before the origin' by core_start + core_end > L; for asymmetric
        neighbourhoods (sideloaded protoclusters) the sum disagrees with the geometry and the wrong half of the
        coordinates is shifted. Must not hide: a misplaced core when the sum test agrees with the geometry, when the
        core itself spans the origin, or any wrong extent. """
    return clause in ("protocluster-core-inside-own-extent", "core-is-genome-order-image") \
        and facts.get("origin_side_test_mismatch") is True and facts.get("core_crosses_origin") is False \
        and facts.get("feature_crosses_origin") is True


@findings.classifier("c19_gene_with_exons_at_both_ends_of_region")
def _c19_gene_both_ends(clause, facts):
    """ a multi-exon gene that does not span the origin but whose exons lie in the pre-origin and the post-origin
        part of an origin-spanning region (the uncovered rest of the ring falls into its intron) is a CDS child of
        the region and is emitted with its unshifted start..end. Must not hide: any single-exon gene, any gene that
        spans the origin, or a gene whose exons are all on one side. """
    return clause == "orf-inside-announced-range" and facts.get("gene_exons_at_both_ends_of_region") is True \
        and facts.get("gene_crosses_origin") is False and facts.get("region_crosses_origin") is True
