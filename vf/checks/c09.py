"""C09 Annotations placed inside a gene cover the nucleotides that encode them.

The oracle is pure extraction: the gene's own location enumerates the coding positions in reading
order (Biopython iteration of a location, the same mechanism `extract` uses); an annotation for the
protein range [s, e) must enumerate exactly positions [3s, 3e) of that list, lie inside the gene's
parts, be on its strand, and its extracted DNA must translate to translation[s:e]. No model of the
protein->DNA arithmetic exists in this file.

Executed code (all real): Record.from_biopython / CDSFeature.from_biopython (codon_start),
Feature.get_sub_location_from_protein_coordinates, Prepeptide.to_biopython / from_biopython,
hmmer.build_hits + HmmerResults.add_to_record, nrps_pks CDSResult.annotate_domains
(generate_domain_features / generate_motif_features), tta.detect + TTAResults.add_to_record.
"""
from __future__ import annotations

import os
import random
import shutil
import tempfile
import json
import types

from Bio.Seq import Seq
from Bio.SeqFeature import SeqFeature
from Bio.SeqRecord import SeqRecord

from antismash.common import hmmer
from antismash.common.hmmscan_refinement import HMMResult
from antismash.common.secmet import Record
from antismash.common.secmet.features import Prepeptide, SubRegion
from antismash.common.secmet.locations import CompoundLocation, FeatureLocation, location_from_string
from antismash.detection.nrps_pks_domains import domain_identification
from antismash.modules.tta import tta

from vf import findings
from vf.gen import genes_c09 as G

PROPERTY = "C09"
LEVEL = "exploration"
PARALLEL = True
RULE = ("one gene per record on real DNA (sense codons only, optional terminal stop codon, TTA codons sown): "
        "1-4 exons, either strand, introns 0-6 bp (0 = adjacent parts), exon borders on any codon phase, exons down to 1 bp, "
        "codon_start 1-3 (read through Record.from_biopython), 0-2 trailing bases, linear or circular record, "
        "origin-spanning with the origin inside an exon, inside an intron or on an exon border; protein ranges: "
        "all [s,e) for genes <= 15 codons, else 40 random ranges plus every range that starts or ends on an exon "
        "border. Each range is mapped by get_sub_location_from_protein_coordinates; a sample of ranges per gene is "
        "also delivered as HMMer hits (build_hits -> PFAMDomain), as NRPS/PKS domain and motif hits "
        "(annotate_domains), the translation is cut into leader/core/tail (Prepeptide.to_biopython and back), and "
        "tta.detect marks the sown codons. Non-trivial: the gene has > 1 part, or a codon_start shift, or lies on "
        "the reverse strand; distinct by (structure of the gene: strand, parts, codon_start, record length).")
ASSUMPTIONS = [
    "Biopython's location iteration/extract and Seq.translate are trusted (they define 'the nucleotides a "
    "location covers' and 'translating').",
    "The gene's own location (after the codon_start shift antiSMASH applies on reading) is the reference: "
    "residue i is encoded by positions [3i, 3i+3) of that location in reading order.",
    "Residue 0 of a CDS translation is 'M' by antiSMASH convention whatever the start codon; the gene's terminal "
    "stop codon has no residue. The last segment of a prepeptide (core without tail, or tail) may extend over "
    "that stop codon, as the CDS itself does; nothing else may.",
    "A TTA codon split over two exons needs a two-part marker; a contiguous 3-base marker cannot cover it.",
]
REQUIRED = ["op:tta_reused_results", "op:sub_location", "op:prepeptide_segment", "op:prepeptide_roundtrip", "op:pfam_hit", "op:nrps_domain",
            "op:nrps_motif", "op:tta_marker", "op:frameshift_location", "class:strand-1", "class:strand+1",
            "class:parts>1", "class:bridging:exon", "class:bridging:intron", "class:bridging:border",
            "class:codon_start=2", "class:codon_start=3", "class:range-on-exon-border", "class:exhaustive-ranges",
            "class:tta-after-first-part"]


# --------------------------------------------------------------------------
# known deviations of the current tree (narrow, mechanism-keyed)
# --------------------------------------------------------------------------

@findings.classifier("c09_sub_location_gene_bridges_origin")
def _c09_bridging(clause, facts):
    """ protein->DNA mapping sorts the gene's parts by start coordinate, which is not reading order
        when the gene bridges the origin: a well-formed location of the right length inside the gene,
        but over the wrong bases. Must not hide: any wrong sub-location on a gene that does not bridge
        the origin (any strand, exon structure, codon_start), and on bridging genes any crash, wrong
        strand, wrong length or location outside the gene. """
    return clause == "sub-extract-equals-gene-slice" and facts.get("gene_bridges_origin") is True


@findings.classifier("c09_codon_start_on_origin_bridging_gene")
def _c09_frameshift_bridging(clause, facts):
    """ _adjust_location_by_offset asserts that the first part holds the extreme coordinate of the
        location, false for every origin-bridging location: reading such a gene with codon_start 2/3
        dies with AssertionError. Must not hide: rejection of any other gene, or any other error. """
    return (clause == "gene-rejected" and facts.get("exception") == "AssertionError"
            and facts.get("gene_bridges_origin") is True and facts.get("codon_start") in (2, 3))


@findings.classifier("c09_tta_marker_multipart_gene")
def _c09_tta(clause, facts):
    """ TTA markers are placed at location.start + offset (or end - offset - 3): right only while the
        codon lies in the first part of the gene. Must not hide: a wrong marker on a single-part gene,
        or on a codon lying wholly in the first part of a multi-part gene that does not bridge the origin,
        or a missing/extra marker. """
    return clause == "tta-marker-on-codon" and facts.get("gene_parts", 1) > 1 and (
        facts.get("codon_part_index", 0) > 0 or facts.get("codon_split") is True
        or facts.get("gene_bridges_origin") is True)


@findings.classifier("c09_prepeptide_tail_shifted_by_stop_codon")
def _c09_prepeptide_stop(clause, facts):
    """ Prepeptide.to_biopython counts core end and tail back from len(location)//3, which includes
        the stop codon: with a tail, the core is one codon too long and the tail is shifted onto the
        stop codon. Must not hide: any wrong leader, any wrong segment of a gene without stop codon or
        of a prepeptide without tail, or a core/tail off by anything but exactly that one codon.
        (On an origin-bridging gene the positions are additionally scrambled by the mapping defect, so
        only the length of the core can be recognised there.) """
    if not (facts.get("gene_has_stop") is True and facts.get("has_tail") is True):
        return False
    if clause == "sub-three-bases-per-residue" and facts.get("via") == "prepeptide:core":
        return facts.get("off_by_stop_codon") is True or (
            facts.get("gene_bridges_origin") is True and facts.get("extra_codons") == 1)
    if clause == "sub-extract-equals-gene-slice" and facts.get("via") == "prepeptide:tail":
        return facts.get("off_by_stop_codon") is True
    return False


# --------------------------------------------------------------------------
# building the real objects
# --------------------------------------------------------------------------

def make_location(parts, strand):
    locs = [FeatureLocation(s, e, strand) for s, e in parts]
    if len(locs) == 1:
        return locs[0]
    if strand == -1:
        locs.reverse()
    return CompoundLocation(locs)


class Gene:
    """ everything the oracle needs about one generated gene, read off the real objects """
    def __init__(self, case):
        self.case = case
        seq = Seq(case["seq"])
        bio = SeqRecord(seq, id="c09rec", name="c09rec", description="generated",
                        annotations={"molecule_type": "DNA",
                                     "topology": "circular" if case["circular"] else "linear"})
        qualifiers = {"locus_tag": ["gene1"]}
        if case["codon_start"] != 1 or case.get("explicit_codon_start"):
            qualifiers["codon_start"] = [str(case["codon_start"])]
        raw_location = make_location([tuple(p) for p in case["parts"]], case["strand"])
        bio.features.append(SeqFeature(raw_location, type="CDS", qualifiers=qualifiers))
        self.record = Record.from_biopython(bio, taxon="bacteria")
        self.cds = self.record.get_cds_by_name("gene1")
        self.seq = self.record.seq
        self.location = self.cds.location
        self.positions = list(self.location)            # reading order, Biopython
        self.nt = str(self.location.extract(self.seq)).upper()
        self.n = len(self.location) // 3
        self.translation = self.cds.translation
        self.part_bounds = [(int(p.start), int(p.end)) for p in self.location.parts]
        self.bridging = _descends(case["parts"])
        self.facts = {
            "strand": case["strand"], "gene_parts": len(self.location.parts),
            "gene_bridges_origin": self.bridging, "origin_in": case["origin"],
            "codon_start": case["codon_start"], "trailing_bases": case["tail_extra"],
            "gene_has_stop": case["stop"], "circular": case["circular"], "gene": str(self.location),
        }


def _descends(parts_travel) -> bool:
    return any(parts_travel[i + 1][0] < parts_travel[i][0] for i in range(len(parts_travel) - 1))


# --------------------------------------------------------------------------
# the oracle
# --------------------------------------------------------------------------

def _translate(nucleotides: str) -> str:
    usable = nucleotides[:len(nucleotides) - len(nucleotides) % 3]
    return str(Seq(usable).translate(table=11))


def check_annotation(ctx, gene: Gene, location, start: int, end: int, via: str, case, counter: str,
                     allow_stop_extension: bool = False, extra_facts=None) -> bool:
    """ location must be the part of the gene that encodes residues [start, end) """
    ctx.count(counter)
    facts = dict(gene.facts, via=via, range=[start, end], got=str(location))
    if extra_facts:
        facts.update(extra_facts)
    got_positions = list(location)
    if allow_stop_extension and gene.case["stop"] and end == gene.n - 1 and len(location) == 3 * (gene.n - start):
        # the last segment of a prepeptide runs to the end of the gene, over the stop codon, like the CDS itself
        ctx.count("unspecified:last-prepeptide-segment-includes-stop-codon")
        end = gene.n
    expected_positions = gene.positions[3 * start:3 * end]
    if got_positions != expected_positions and "has_tail" in facts:
        # how far off: exactly the trailing stop codon (shifted or extended by it)?
        facts["off_by_stop_codon"] = bool(gene.case["stop"]) and got_positions in (
            gene.positions[3 * start:3 * (end + 1)], gene.positions[3 * (start + 1):3 * (end + 1)])
    if location.strand != gene.location.strand or any(p.strand != gene.location.strand for p in location.parts):
        ctx.violate("sub-strand", facts, case)
        return False
    inside = all(any(gs <= int(p.start) and int(p.end) <= ge for gs, ge in gene.part_bounds) for p in location.parts)
    if not inside:
        ctx.violate("sub-inside-gene", facts, case)
        return False
    if len(location) != 3 * (end - start):
        ctx.violate("sub-three-bases-per-residue",
                    dict(facts, got_length=len(location), extra_codons=(len(location) - 3 * (end - start)) / 3), case)
        return False
    got_nt = str(location.extract(gene.seq)).upper()
    if got_nt != gene.nt[3 * start:3 * end] or got_positions != expected_positions:
        ctx.violate("sub-extract-equals-gene-slice",
                    dict(facts, same_letters_by_chance=got_nt == gene.nt[3 * start:3 * end]), case)
        return False
    # translation of the extracted stretch against the translation antiSMASH holds for the gene
    protein = _translate(got_nt)
    expected = gene.translation[start:end]
    if start == 0:
        protein = "M" + protein[1:]
    if gene.case["stop"] and end == gene.n and protein.endswith("*"):
        protein = protein[:-1]
    if protein != expected:
        ctx.violate("sub-translates-to-stretch", dict(facts, got_protein=protein, expected_protein=expected), case)
        return False
    return True


# --------------------------------------------------------------------------
# drivers, one per annotation producer
# --------------------------------------------------------------------------

def drive_frameshift(ctx, gene: Gene, case):
    """ the location antiSMASH holds after reading codon_start must start on the first whole codon,
        and the translation it derived must be the protein the DNA encodes """
    ctx.count("op:frameshift_location")
    lead = case["codon_start"] - 1
    ref = G.positions_in_reading_order([tuple(p) for p in case["parts"]], case["strand"])[lead:]
    facts = dict(gene.facts, via="from_biopython")
    if gene.positions != ref:
        ctx.violate("frameshift-location", facts, case)
        return False
    # writing the gene out again must undo the shift exactly
    raw = make_location([tuple(p) for p in case["parts"]], case["strand"])
    try:
        out = gene.cds.to_biopython()[0]
    except Exception as err:  # pylint: disable=broad-except
        ctx.violate("frameshift-undo", dict(facts, exception=type(err).__name__, message=str(err)[:160]), case)
        return False
    if list(out.location) != list(raw) or (case["codon_start"] != 1
                                           and out.qualifiers.get("codon_start") != [str(case["codon_start"])]):
        ctx.violate("frameshift-undo", dict(facts, written=str(out.location), read=str(raw)), case)
        return False
    expected = _translate(gene.nt)
    if case["stop"]:
        expected = expected[:-1]
    expected = "M" + expected[1:]
    if gene.translation != expected:
        ctx.violate("gene-translation", dict(facts, got=gene.translation, expected=expected), case)
        return False
    return True


def drive_sub_locations(ctx, gene: Gene, ranges, border, case):
    for start, end in ranges:
        if (start, end) in border:
            ctx.count("class:range-on-exon-border")
        facts = dict(gene.facts, via="get_sub_location", range=[start, end])
        try:
            sub = gene.cds.get_sub_location_from_protein_coordinates(start, end)
        except Exception as err:  # pylint: disable=broad-except
            ctx.count("op:sub_location")
            ctx.violate("sub-crash", dict(facts, exception=type(err).__name__, message=str(err)[:160]), case)
            continue
        check_annotation(ctx, gene, sub, start, end, "get_sub_location", case, "op:sub_location")


def drive_prepeptide(ctx, gene: Gene, rng, case):
    peptide = gene.translation
    if len(peptide) < 1:
        return
    # cut points: leader | core | tail, core never empty
    a = rng.choice([0, rng.randrange(0, len(peptide))])
    b = rng.choice([len(peptide), rng.randrange(a + 1, len(peptide) + 1)])
    leader, core, tail = peptide[:a], peptide[a:b], peptide[b:]
    extra = {"has_leader": bool(leader), "has_tail": bool(tail), "cuts": [a, b]}
    facts = dict(gene.facts, via="prepeptide", **extra)
    try:
        prepeptide = Prepeptide(gene.location, "lanthipeptide", core, "gene1", "c09", "Class I", 1.0, 2.0, 3.0,
                                leader=leader, tail=tail)
        features = prepeptide.to_biopython()
    except Exception as err:  # pylint: disable=broad-except
        ctx.count("op:prepeptide_segment")
        ctx.violate("annotation-crash", dict(facts, exception=type(err).__name__, message=str(err)[:160]), case)
        return
    segments = []
    if leader:
        segments.append(("leader", 0, a))
    segments.append(("core", a, b))
    if tail:
        segments.append(("tail", b, len(peptide)))
    kinds = [f.qualifiers.get("prepeptide", ["?"])[0] for f in features]
    if kinds != [k for k, _, _ in segments]:
        ctx.violate("prepeptide-segments", dict(facts, got=kinds), case)
        return
    all_ok = True
    for feature, (kind, s, e) in zip(features, segments):
        last = kind == segments[-1][0]
        ok = check_annotation(ctx, gene, feature.location, s, e, "prepeptide:" + kind, case, "op:prepeptide_segment",
                              allow_stop_extension=last, extra_facts=extra)
        all_ok = all_ok and ok
    # and back: the core feature alone must rebuild the same prepeptide over the same bases
    ctx.count("op:prepeptide_roundtrip")
    core_feature = features[kinds.index("core")]
    try:
        rebuilt = Prepeptide.from_biopython(core_feature)
        again = rebuilt.to_biopython()
    except Exception as err:  # pylint: disable=broad-except
        ctx.violate("prepeptide-roundtrip", dict(facts, exception=type(err).__name__, message=str(err)[:160],
                                                 first_pass_ok=all_ok), case)
        return
    problems = []
    if (rebuilt.leader, rebuilt.core, rebuilt.tail) != (leader, core, tail):
        problems.append("sequences")
    covered = [p for f in features for p in f.location]
    if list(rebuilt.location) != covered:
        problems.append("location-is-not-the-segments-in-order")
    if [list(f.location) for f in again] != [list(f.location) for f in features]:
        problems.append("second-pass-differs")
    if problems:
        ctx.violate("prepeptide-roundtrip", dict(facts, problems=problems, rebuilt=str(rebuilt.location),
                                                 first_pass_ok=all_ok), case)


class _Hsp:  # what Bio.SearchIO hands to build_hits, reduced to the attributes it reads
    def __init__(self, query_id, start, end, hit_id):
        self.query_id = query_id
        self.query_start = start
        self.query_end = end
        self.hit_id = hit_id
        self.hit_description = "generated hit"
        self.bitscore = 50.0
        self.evalue = 1e-10


class _QueryResult:
    def __init__(self, hsps):
        self.id = "gene1"
        self.hsps = hsps


def drive_pfam(ctx, gene: Gene, ranges, database, case):
    facts = dict(gene.facts, via="hmmer.build_hits")
    results = [_QueryResult([_Hsp("gene1", s, e, "FakeDomain") for s, e in ranges])]
    try:
        hits = hmmer.build_hits(gene.record, results, 0.0, 1.0, database)
        hmmer.HmmerResults(gene.record.id, 1.0, 0.0, database, "c09tool", hits).add_to_record(gene.record)
    except Exception as err:  # pylint: disable=broad-except
        ctx.count("op:pfam_hit")
        ctx.violate("annotation-crash", dict(facts, exception=type(err).__name__, message=str(err)[:160],
                                             ranges=ranges), case)
        return
    domains = gene.record.get_pfam_domains()
    if [(int(d.protein_location.start), int(d.protein_location.end)) for d in domains] != list(ranges):
        ctx.violate("pfam-hits-all-annotated", dict(facts, got=len(domains), expected=len(ranges)), case)
        return
    for domain, (s, e) in zip(domains, ranges):
        if check_annotation(ctx, gene, domain.location, s, e, "hmmer.build_hits", case, "op:pfam_hit"):
            if domain.translation != gene.translation[s:e]:
                ctx.violate("annotation-translation-qualifier", dict(facts, range=[s, e]), case)


def drive_pfam_paralogs(ctx, gene: Gene, ranges, database, case, copy_first: bool):
    """ the same gene twice in one record (a duplicated stretch) with the same profile hitting both copies at the same
        residues: every hit has to lie in the gene it names """
    shift = len(gene.seq)
    bio = SeqRecord(Seq(case["seq"] * 2), id="c09rec", name="c09rec", description="generated",
                    annotations={"molecule_type": "DNA", "topology": "linear"})
    for name, offset in (("gene1", 0), ("gene2", shift)):
        qualifiers = {"locus_tag": [name]}
        if case["codon_start"] != 1 or case.get("explicit_codon_start"):
            qualifiers["codon_start"] = [str(case["codon_start"])]
        bio.features.append(SeqFeature(make_location([(a + offset, b + offset) for a, b in case["parts"]], case["strand"]),
                                       type="CDS", qualifiers=qualifiers))
    record = Record.from_biopython(bio, taxon="bacteria")
    names = ["gene2", "gene1"] if copy_first else ["gene1", "gene2"]
    results = []
    for name in names:
        result = _QueryResult([_Hsp(name, s, e, "FakeDomain") for s, e in ranges])
        result.id = name
        results.append(result)
    facts = dict(gene.facts, via="hmmer.build_hits (two copies of the gene in one record)", first_in_results=names[0])
    try:
        hits = hmmer.build_hits(record, results, 0.0, 1.0, database)
    except Exception as err:  # pylint: disable=broad-except
        ctx.violate("annotation-crash", dict(facts, exception=type(err).__name__, message=str(err)[:160], ranges=ranges), case)
        return
    if [(h.locus_tag, h.protein_start, h.protein_end) for h in hits] != [(n, s, e) for n in names for s, e in ranges]:
        ctx.violate("pfam-hits-all-annotated", dict(facts, got=len(hits), expected=2 * len(ranges)), case)
        return
    for hit in hits:
        ctx.count("op:pfam_hit_paralog")
        offset = shift if hit.locus_tag == "gene2" else 0
        expected = [pos + offset for pos in gene.positions[3 * hit.protein_start:3 * hit.protein_end]]
        got = list(location_from_string(hit.location))
        if got != expected:
            inside = all(offset <= pos < offset + shift for pos in got)
            ctx.violate("sub-inside-gene" if not inside else "sub-extract-equals-gene-slice",
                        dict(facts, locus_tag=hit.locus_tag, range=[hit.protein_start, hit.protein_end], got=hit.location), case)
            return
        if hit.translation != gene.translation[hit.protein_start:hit.protein_end]:
            ctx.violate("annotation-translation-qualifier", dict(facts, locus_tag=hit.locus_tag), case)
            return


def drive_nrps(ctx, gene: Gene, domain_ranges, motif_ranges, case):
    facts = dict(gene.facts, via="nrps_pks.annotate_domains")
    domains = [HMMResult("PKS_KS" if i % 2 else "Condensation_LCL", s, e, 1e-20, 100.0 + i)
               for i, (s, e) in enumerate(domain_ranges)]
    motifs = [HMMResult(f"C{i}_motif", s, e, 1e-5, 10.0 + i) for i, (s, e) in enumerate(motif_ranges)]
    result = domain_identification.CDSResult(domains, motifs, [])
    try:
        result.annotate_domains(gene.record, gene.cds)
    except Exception as err:  # pylint: disable=broad-except
        ctx.count("op:nrps_domain")
        ctx.violate("annotation-crash", dict(facts, exception=type(err).__name__, message=str(err)[:160],
                                             ranges=domain_ranges + motif_ranges), case)
        return
    in_record = set(map(id, gene.record.get_antismash_domains()))
    for hmm, (s, e) in zip(domains, domain_ranges):
        feature = result.domain_features[hmm]
        ok = check_annotation(ctx, gene, feature.location, s, e, "generate_domain_features", case, "op:nrps_domain")
        if ok and (feature.translation != gene.translation[s:e] or id(feature) not in in_record
                   or (int(feature.protein_location.start), int(feature.protein_location.end)) != (s, e)):
            ctx.violate("annotation-translation-qualifier", dict(facts, range=[s, e]), case)
    for feature, (s, e) in zip(gene.cds.motifs, motif_ranges):
        ok = check_annotation(ctx, gene, feature.location, s, e, "generate_motif_features", case, "op:nrps_motif")
        if ok and (feature.translation != gene.translation[s:e]
                   or (int(feature.protein_location.start), int(feature.protein_location.end)) != (s, e)):
            ctx.violate("annotation-translation-qualifier", dict(facts, range=[s, e]), case)
    if len(gene.cds.motifs) != len(motif_ranges):
        ctx.violate("motifs-all-annotated", dict(facts, got=len(gene.cds.motifs)), case)


_TTA_OPTIONS = types.SimpleNamespace(tta_threshold=0.0)


def drive_tta(ctx, gene: Gene, case):
    facts = dict(gene.facts, via="tta.detect")
    codons = [k for k in range(len(gene.nt) // 3) if gene.nt[3 * k:3 * k + 3] == "TTA"]
    record = gene.record
    try:
        record.add_subregion(SubRegion(FeatureLocation(0, len(record.seq), 1), tool="c09"))
        record.create_regions()
        if gene.cds not in record.get_cds_features_within_regions():
            # region<->CDS linking of origin-spanning genes is C08's subject; marker placement is ours
            ctx.count("tta:gene-linked-to-region-by-harness")
            record.get_regions()[0].add_cds(gene.cds)
        assert gene.cds in record.get_cds_features_within_regions(), "harness: gene not inside the region"
    except Exception as err:  # pylint: disable=broad-except
        ctx.count("skipped:tta-no-region")
        ctx.violate("harness-region", dict(facts, exception=type(err).__name__, message=str(err)[:160]), case)
        return
    before = len(record.get_generics())
    try:
        results = tta.detect(record, _TTA_OPTIONS)
        results.add_to_record(record)
    except Exception as err:  # pylint: disable=broad-except
        ctx.count("op:tta_marker")
        ctx.violate("tta-crash", dict(facts, exception=type(err).__name__, message=str(err)[:160],
                                      codon_part_index=1 if len(gene.location.parts) > 1 else 0), case)
        return
    ctx.count("op:tta_detect")
    if len(results.features) != len(codons):
        ctx.violate("tta-marker-count", dict(facts, got=len(results.features), expected=len(codons)), case)
        return
    # the markers of a later run that reuses these results (through their JSON form) are the same markers
    try:
        from antismash.config import update_config
        update_config({"tta_threshold": 0.0})
        rebuilt = tta.TTAResults.from_json(json.loads(json.dumps(results.to_json())), record)
        ctx.count("op:tta_reused_results")
        # (the order of the markers is not part of the property: contiguous ones are written first)
        got = None if rebuilt is None else sorted(str(f.location) for f in rebuilt.features)
        want = sorted(str(f.location) for f in results.features)
        if got != want:
            ctx.violate("tta-markers-survive-reuse",
                        dict(facts, rebuilt=got, detected=want,
                             codon_split=any(len(f.location.parts) > 1 for f in results.features)), case)
    except Exception as err:  # pylint: disable=broad-except
        ctx.violate("tta-reuse-crash", dict(facts, exception=type(err).__name__, message=str(err)[:160]), case)
    added = record.get_generics()[before:]
    if [id(f) for f in added] != [id(f) for f in results.features]:
        ctx.violate("tta-add-to-record", dict(facts, added=len(added), expected=len(results.features)), case)
    part_of = {}
    for index, part in enumerate(gene.location.parts):
        for pos in part:
            part_of[pos] = index
    for k, feature in zip(codons, results.features):
        ctx.count("op:tta_marker")
        expected = gene.positions[3 * k:3 * k + 3]
        indices = sorted({part_of[p] for p in expected})
        if indices[0] > 0:
            ctx.count("class:tta-after-first-part")
        if len(indices) > 1:
            ctx.count("class:tta-codon-split-by-exon-border")
        marker = feature.location
        spelled = str(marker.extract(gene.seq)).upper()
        if list(marker) != expected or spelled != "TTA" or marker.strand != gene.location.strand:
            ctx.violate("tta-marker-on-codon",
                        dict(facts, codon=k, codon_part_index=indices[0], codon_split=len(indices) > 1,
                             marker=str(marker), marker_spells=spelled, expected_positions=expected), case)


# --------------------------------------------------------------------------
# one case
# --------------------------------------------------------------------------

def _pick(rng, ranges, border, count):
    """ a few distinct ranges, exon-border ranges preferred """
    on_border = [r for r in ranges if r in border]
    rng.shuffle(on_border)
    chosen = on_border[:max(1, count // 2)]
    rest = [r for r in ranges if r not in chosen]
    rng.shuffle(rest)
    chosen += rest[:count - len(chosen)]
    return sorted(set(chosen))


def run_case(ctx, case, rng, database):
    try:
        gene = Gene(case)
    except Exception as err:  # pylint: disable=broad-except
        ctx.count("op:frameshift_location")
        ctx.count("rejected-genes")
        ctx.case((case["L"], case["strand"], tuple(map(tuple, case["parts"])), case["codon_start"]), nontrivial=True)
        ctx.violate("gene-rejected", {"exception": type(err).__name__, "message": str(err)[:200],
                                      "strand": case["strand"], "gene_parts": len(case["parts"]),
                                      "gene_bridges_origin": _descends(case["parts"]),
                                      "codon_start": case["codon_start"], "circular": case["circular"]}, case)
        return
    structure = (case["L"], case["strand"], tuple(map(tuple, case["parts"])), case["codon_start"])
    nontrivial = len(gene.location.parts) > 1 or case["codon_start"] != 1 or case["strand"] == -1
    ctx.case(structure, nontrivial=nontrivial,
             sample={k: v for k, v in case.items() if k != "seq"} | {"location": str(gene.location),
                                                                      "translation": gene.translation[:30]})
    ctx.count(f"class:strand{case['strand']:+d}")
    ctx.count(f"class:codon_start={case['codon_start']}")
    if len(gene.location.parts) > 1:
        ctx.count("class:parts>1")
    if gene.bridging:
        ctx.count(f"class:bridging:{case['origin']}")
    if case["tail_extra"]:
        ctx.count("class:trailing-bases")
    if min(e - s for s, e in case["parts"]) < 3:
        ctx.count("class:exon<3bp")
    if not drive_frameshift(ctx, gene, case):
        return
    ranges, border = G.protein_ranges(rng, case)
    if gene.n <= 15:
        ctx.count("class:exhaustive-ranges")
    assert all(0 <= s < e <= gene.n for s, e in ranges), "harness: range outside gene"
    drive_sub_locations(ctx, gene, ranges, border, case)
    drive_prepeptide(ctx, gene, rng, case)
    in_translation = [r for r in ranges if r[1] <= len(gene.translation)]
    if in_translation:
        drive_pfam(ctx, gene, _pick(rng, in_translation, border, 6), database, case)
        if not gene.bridging:
            drive_pfam_paralogs(ctx, gene, _pick(rng, in_translation, border, 3), database, case, rng.random() < 0.5)
        drive_nrps(ctx, gene, _pick(rng, in_translation, border, 4), _pick(rng, in_translation, border, 3), case)
    drive_tta(ctx, gene, case)


def _make_database(directory: str) -> str:
    path = os.path.join(directory, "pfam", "35.0")
    os.makedirs(path)
    database = os.path.join(path, "Pfam-A.hmm")
    with open(database, "w", encoding="utf-8") as handle:
        handle.write("HMMER3/f [3.1b2 | February 2015]\nNAME  FakeDomain\nACC   PF00001.21\n//\n")
    return database


def run(ctx):
    tmp = tempfile.mkdtemp(prefix="vf-c09-", dir="/tmp")
    try:
        database = _make_database(tmp)
        rng = ctx.rng("genes")
        for i in ctx.cases(ctx.quota(2000, 200000), every=8):
            case = G.gen_gene(rng)
            case["range_seed"] = rng.getrandbits(48)   # drawn from the seeded stream, kept for replay
            ctx.guard("harness-or-crash", case, run_case, ctx, case, random.Random(case["range_seed"]), database)
    finally:
        shutil.rmtree(tmp, ignore_errors=True)


def replay(ctx, case):
    tmp = tempfile.mkdtemp(prefix="vf-c09-", dir="/tmp")
    try:
        run_case(ctx, case, random.Random(case.get("range_seed", 0)), _make_database(tmp))
    finally:
        shutil.rmtree(tmp, ignore_errors=True)
