"""C14 NRPS/PKS modules partition a gene's domains in order and obey the module rules.

The real `build_modules_for_cds`, `combine_modules`, `Module.to_json/from_json`, `generate_domains`
(with only the HMMER front ends replaced by generated hits), `NRPSPKSDomains.to_json/from_json/
add_to_record` and the secmet `Module` feature are executed on enumerated and generated domain
sequences. Recording wrappers sit on every binding site of `build_modules_for_cds` and
`combine_modules`, so the same oracles judge the direct calls of the workload and the calls made from
inside `generate_domains`. The oracles are direct predicates over finished component lists
(vf/models/c14_layout.py); no module-building state machine exists on the oracle side.
"""
from __future__ import annotations

import itertools
import json
import zlib
from unittest.mock import patch

from antismash.common.secmet.features import Module as ModuleFeature
from antismash.common.secmet.test.helpers import DummyCDS, DummyRecord, DummyRegion, DummySubRegion
from antismash.detection.nrps_pks_domains import domain_identification as di
from antismash.detection.nrps_pks_domains import module_identification as mi

from vf import findings, instrument
from vf.gen import c14_domains as G
from vf.models import c14_layout as L

PROPERTY = "C14"
LEVEL = "exploration"
PARALLEL = True
RULE = ("genes: every word of length 1..3 over 18 class-representative profile names (incl. a Trans-AT-KS typed KS) "
        "and every word of length 4 over a 10-name subset (quick); thorough adds every length-4 word over the 18 and "
        "every length-5 word over the 10; random words of length 1..24 from layout templates with 0-3 edits, from a "
        "29-name core alphabet and from every classified profile name, KS subtypes as nested hits (single, nested, "
        "ambiguous). Gene pairs: every (head, tail) with |head|+|tail| <= 3 over the 10 names (quick) / <= 4 over the "
        "18 (thorough), plus random splits of template words and the trailing-KR family, same and opposite strands. "
        "Clusters: 2-5 genes of one or two regions cut from a template word, either strand, strand-flipped and "
        "domain-free genes interspersed, run through generate_domains -> add_to_record -> JSON reload -> feature "
        "round trip. Non-trivial: a gene with a module of >= 2 components; a pair whose head module is incomplete "
        "(a merge is attempted); a cluster with a module. Distinct by the token lists (and strands).")
ASSUMPTIONS = [
    "Domain hits of one gene have distinct start coordinates ('in order' = by start along the protein).",
    "The role of a profile name is the documented one (pinned copy of the classification tables in "
    "vf/models/c14_layout.py); modules containing a name the code classifies but the copy does not know are exempt "
    "from the layout predicates (partition, order and merge bookkeeping still apply) and counted as "
    "unspecified:unpinned-profile-name; the evidence lists such names and names whose class differs.",
    "A module boundary is expected only at an explicit starter (condensation, KS, SAT) or where the next domain "
    "does not fit the documented layout; the extra-carrier-protein case is judged only when docking/COM domains do "
    "not sit inside its two-domain look-ahead (counted as unspecified otherwise).",
    "A trans-AT module is a PKS module with a starter, without loader, and with a Trans-AT-KS typed starter or a "
    "trans-AT docking domain; starters other than a KS in that role are accepted and counted as unspecified.",
    "Whether a merged module inherits 'first in its gene' from its head module is not stated: both readings are "
    "accepted and completeness is judged with the flag the module saves; merges the code refuses only because it "
    "never sets the flag are counted as unspecified, not as missed merges.",
    "hmmscan front ends (find_domains, find_subtypes, find_ab_motifs, get_database_path) are replaced by generated "
    "hits: no HMMER binary exists in the sandbox; everything after them is the real code.",
]
REQUIRED = ["op:build", "op:module-layout", "op:boundary", "op:reload", "op:reload-legacy", "op:combine",
            "op:combine-merged", "op:combine-refused", "op:merge-expected", "op:pipeline", "op:feature",
            "op:feature-roundtrip", "op:results-reload", "class:pipeline-region-across-origin", "monitor:build_modules_for_cds", "monitor:combine_modules",
            "class:complete", "class:incomplete", "class:trans-at", "class:kr-after-carrier",
            "class:double-transporter", "class:loader-as-starter-first", "class:loader-as-starter-not-first",
            "class:merge-trailing-kr", "class:merge-opposite-strands", "class:merge-fused-tail",
            "class:pipeline-merge-reverse-strand", "class:pipeline-merge-forward-strand"]


# --------------------------------------------------------------------------
# known findings
# --------------------------------------------------------------------------

@findings.classifier("c14_trailing_kr_after_terminated_transat_merge")
def _c14_trailing_kr(clause, facts):
    """ combine_modules merges a split trans-AT module that ends in a terminating domain and then
        appends the next gene's single-KR module without a guard -> IncompatibleComponentError escapes.
        Must not hide: any other exception type, a crash while head and tail themselves are being joined
        (the gene lists are then still untouched), a crash when the merged module has no terminating
        domain or is not trans-AT, or when the module after the tail is anything but a lone PKS_KR. """
    return (clause == "combine-crash" and facts.get("exception") == "IncompatibleComponentError"
            and facts.get("merged_trans_at") is True and facts.get("merged_has_end") is True
            and facts.get("next_single_kr") is True and facts.get("lists_left_half_updated") is True)


# --------------------------------------------------------------------------
# views of real objects for the oracle
# --------------------------------------------------------------------------

def subtype_chain(domain) -> list:
    names = []
    hits = domain.internal_hits
    while len(hits) == 1:
        names.append(hits[0].hit_id)
        hits = hits[0].internal_hits
    return names


def comp_view(component):
    chain = subtype_chain(component.domain)
    return (component.domain.hit_id, chain[0] if chain else None)


def comps_of(module) -> list:
    return [comp_view(c) for c in module.components]


def tokens_of(comps) -> list:
    return [label if sub is None else f"{label}:{sub}" for label, sub in comps]


def signature(module) -> dict:
    return {
        "str": str(module), "complete": module.is_complete(), "trans_at": module.is_trans_at(),
        "starter_module": module.is_starter_module(), "termination_module": module.is_termination_module(),
        "terminated": module.is_terminated(), "iterative": module.is_iterative(), "pks": module.is_pks(),
        "nrps": module.is_nrps(), "coa_ligase": module.is_coa_ligase(), "start": module.start, "end": module.end,
        "monomers": [module.get_monomer(base) for base in ("", "mal", "mmal", "X", "AHBA")],
        "components": [(c.label, c.locus, list(c.subtypes), c.classification) for c in module.components],
        # the hits themselves, with their nested subtype hits: position, e-value and score to the last digit
        "domains": [_hit_view(c.domain) for c in module.components],
    }


def _hit_view(hit):
    return (hit.hit_id, hit.query_start, hit.query_end, repr(float(hit.evalue)), repr(float(hit.bitscore)),
            [_hit_view(inner) for inner in hit.internal_hits])


class _State:
    ctx = None
    case = None
    combine_crashed = None
    installed = False
    orig_build = None
    orig_combine = None
    reloaded: set = set()
    built_lists = None   # gene name -> the list returned by build_modules_for_cds (merged into in place)


S = _State()


def _unpinned(labels) -> bool:
    return any(l not in L.KNOWN for l in labels)


# --------------------------------------------------------------------------
# oracle: one module
# --------------------------------------------------------------------------

def oracle_module(ctx, module, first_allowed, case, where, reload=True):
    """ first_allowed: the value(s) the saved first-in-gene flag may have (a merged module may carry
        the flag of its head module or none at all; completeness is judged with the saved flag) """
    ctx.count("op:module-layout")
    if isinstance(first_allowed, bool):
        first_allowed = (first_allowed,)
    comps = comps_of(module)
    labels = L.labels_of(comps)
    facts = {"where": where, "module": tokens_of(comps), "first_in_cds": list(first_allowed)}
    if not comps:
        ctx.violate("empty-module", facts, case)
        return
    if _unpinned(labels):
        ctx.count("unspecified:unpinned-profile-name")
        return
    for comp, real in zip(comps, module.components):
        if L.CLASS_OF[comp[0]] != real.classification:
            ctx.violate("classification", dict(facts, label=comp[0], got=real.classification), case)
        if real.subtype != comp[1]:
            ctx.violate("component-subtype", dict(facts, label=comp[0], got=real.subtype, expected=comp[1]), case)
    for problem in L.layout_problems(comps):
        ctx.violate("layout:" + problem, facts, case)
    saved = module.to_json()
    first_expected = saved.get("first_in_cds")
    if not any(first_expected is allowed for allowed in first_allowed):
        ctx.violate("first-in-cds-flag", dict(facts, got=first_expected), case)
        first_expected = first_allowed[0]
    trans = L.is_trans_at(comps)
    if bool(module.is_trans_at()) != trans:
        ctx.violate("trans-at-predicate", dict(facts, got=module.is_trans_at(), expected=trans), case)
    expected = L.expect_complete(comps, first_expected)
    got = module.is_complete()
    if got and not expected:
        ctx.violate("complete-only-with-starter-loader-carrier", dict(facts, trans_at=trans), case)
    elif expected and not got:
        ctx.violate("complete-when-parts-present", dict(facts, trans_at=trans), case)
    # classes seen
    ctx.count("class:complete" if got else "class:incomplete")
    carriers = [i for i, l in enumerate(labels) if l in L.CARRIERS]
    if trans:
        ctx.count("class:trans-at")
        if not L.trans_at_is_documented_shape(comps):
            ctx.count("unspecified:trans-at-without-ks-starter")
        if carriers and "PKS_KR" in labels[carriers[0] + 1:]:
            ctx.count("class:kr-after-carrier")
    if len(carriers) > 1:
        ctx.count("class:double-transporter")
    if any(l in L.LOADERS for l in labels) and not any(l in L.STARTER_ONLY for l in labels) and carriers:
        ctx.count("class:loader-as-starter-first" if first_expected else "class:loader-as-starter-not-first")
    if any(l in L.ENDS for l in labels):
        ctx.count("class:terminated")
    if reload:
        # the saved form is a function of the component list (names, nesting, gene names) and the flag:
        # one reload per distinct such list
        key = (str(module), tuple(labels), first_expected, tuple(sorted({c.locus for c in module.components})))
        if key in S.reloaded:
            ctx.count("reload:same-module-seen-before")
        else:
            S.reloaded.add(key)
            oracle_reload(ctx, module, saved, facts, case)


def oracle_reload(ctx, module, saved, facts, case):
    ctx.count("op:reload")
    try:
        text = json.dumps(saved)
        again = mi.Module.from_json(json.loads(text))
    except Exception as err:  # pylint: disable=broad-except
        ctx.violate("reload-crash", dict(facts, exception=type(err).__name__, message=str(err)[:200]), case)
        return
    if again.to_json() != saved:
        ctx.violate("reload-json-differs", facts, case)
    before, after = signature(module), signature(again)
    if before != after:
        ctx.violate("reload-predicate-differs",
                    dict(facts, differing=sorted(k for k in before if before[k] != after[k])), case)
    # the documented legacy form: no first_in_cds key means first in its gene
    ctx.count("op:reload-legacy")
    legacy = {"components": saved["components"]}
    try:
        old = mi.Module.from_json(json.loads(json.dumps(legacy)))
    except Exception as err:  # pylint: disable=broad-except
        ctx.violate("reload-legacy-crash", dict(facts, exception=type(err).__name__), case)
        return
    old_saved = old.to_json()
    if old_saved.get("first_in_cds") is not True or old_saved["components"] != saved["components"]:
        ctx.violate("reload-legacy-default", dict(facts, got=old_saved.get("first_in_cds")), case)
    elif old.is_complete() != L.expect_complete(comps_of(old), True):
        ctx.violate("reload-legacy-default", dict(facts, got_complete=old.is_complete()), case)


# --------------------------------------------------------------------------
# oracle: build_modules_for_cds
# --------------------------------------------------------------------------

def oracle_build(ctx, domains, cds_name, modules, case):
    ctx.count("op:build")
    ordered = sorted(domains, key=lambda d: d.query_start)
    if len({d.query_start for d in domains}) != len(domains):
        ctx.count("unspecified:tied-domain-starts")
        return
    raw_labels = [d.hit_id for d in ordered]
    facts = {"where": "build", "gene": [tokens_of([(d.hit_id, (subtype_chain(d) or [None])[0])])[0] for d in ordered],
             "modules": [tokens_of(comps_of(m)) for m in modules]}
    expected = [d for d in ordered if d.hit_id not in L.IGNORED] if not _unpinned(raw_labels) else \
        [d for d in ordered if d.hit_id not in mi.NON_MODULE]
    flat = [c.domain for m in modules for c in m.components]
    if [id(d) for d in flat] != [id(d) for d in expected]:
        lost = len({id(d) for d in expected} - {id(d) for d in flat})
        dup = len(flat) - len({id(d) for d in flat})
        ctx.violate("partition-in-order", dict(facts, lost=lost, duplicated=dup,
                                               same_multiset=sorted(map(id, flat)) == sorted(map(id, expected))), case)
    if any(c.locus != cds_name for m in modules for c in m.components):
        ctx.violate("component-locus", facts, case)
    for k, module in enumerate(modules):
        oracle_module(ctx, module, k == 0, case, "build")
    if _unpinned(raw_labels):
        return
    # every boundary is an explicit starter or a domain that does not fit the module before it
    position = {id(d): i for i, d in enumerate(ordered)}
    for before, after in zip(modules, modules[1:]):
        if not after.components or not before.components:
            continue
        ctx.count("op:boundary")
        nxt = after.components[0]
        nxt_view = comp_view(nxt)
        if nxt_view[0] in L.STARTER_ONLY:
            ctx.count("boundary:explicit-starter")
            continue
        at = position[id(nxt.domain)]
        raw_following = raw_labels[at + 1:at + 3]
        kept_following = [l for l in raw_labels[at + 1:] if l not in L.IGNORED][:2]
        comps = comps_of(before)
        if nxt_view[0] in L.CARRIERS and L.has_carrier(comps) and raw_following != kept_following \
                and L.fits(comps, nxt_view, raw_following) != L.fits(comps, nxt_view, kept_following):
            ctx.count("unspecified:docking-domain-inside-lookahead")
            continue
        if L.fits(comps, nxt_view, kept_following):
            ctx.violate("boundary-justified", dict(facts, before=tokens_of(comps), next=tokens_of([nxt_view])[0],
                                                   following=kept_following), case)
        else:
            ctx.count("boundary:does-not-fit")


# --------------------------------------------------------------------------
# oracle: combine_modules
# --------------------------------------------------------------------------

def snapshot_pair(current, previous) -> dict:
    return {
        "prev": list(previous.modules), "cur": list(current.modules),
        "prev_comps": [tuple(m.components) for m in previous.modules],
        "cur_comps": [tuple(m.components) for m in current.modules],
        "strands": (previous.cds.location.strand, current.cds.location.strand),
        "prev_first": [m.to_json()["first_in_cds"] for m in previous.modules[-1:]],
        "cur_first": [m.to_json()["first_in_cds"] for m in current.modules[:1]],
    }


def _pair_facts(pre) -> dict:
    head = [comp_view(c) for c in pre["prev_comps"][-1]] if pre["prev_comps"] else []
    tail = [comp_view(c) for c in pre["cur_comps"][0]] if pre["cur_comps"] else []
    nxt = [comp_view(c) for c in pre["cur_comps"][1]] if len(pre["cur_comps"]) > 1 else None
    return {"head": tokens_of(head), "tail": tokens_of(tail), "next": tokens_of(nxt) if nxt is not None else None,
            "same_strand": pre["strands"][0] == pre["strands"][1], "_head": head, "_tail": tail, "_next": nxt}


def crash_facts(pre, err, previous) -> dict:
    facts = _pair_facts(pre)
    head, tail, nxt = facts.pop("_head"), facts.pop("_tail"), facts.pop("_next")
    merged = head + tail
    facts.update({
        "exception": type(err).__name__, "message": str(err)[:200],
        "merged_trans_at": L.is_trans_at(merged), "merged_has_end": any(l in L.ENDS for l, _ in merged),
        "next_single_kr": nxt is not None and [l for l, _ in nxt] == ["PKS_KR"],
        "lists_left_half_updated": bool(pre["prev"]) and (not previous.modules or previous.modules[-1] is not pre["prev"][-1]),
    })
    return facts


def hybrid(head, tail) -> bool:
    head_labels, tail_labels = L.labels_of(head), L.labels_of(tail)
    return (any(L.pks_specific(l) for l in head_labels) and any(L.nrps_specific(l) for l in tail_labels)) or \
           (any(L.nrps_specific(l) for l in head_labels) and any(L.pks_specific(l) for l in tail_labels))


def oracle_combine(ctx, pre, current, previous, result, case):
    ctx.count("op:combine")
    facts = _pair_facts(pre)
    head, tail, nxt = facts.pop("_head"), facts.pop("_tail"), facts.pop("_next")
    same_strand = facts["same_strand"]
    if not same_strand:
        ctx.count("class:merge-opposite-strands")
    unpinned = _unpinned(L.labels_of(head + tail + (nxt or [])))
    if unpinned:
        ctx.count("unspecified:unpinned-profile-name")
    both = bool(pre["prev"]) and bool(pre["cur"])
    head_first = pre["prev_first"][0] if pre["prev_first"] else False
    tail_first = pre["cur_first"][0] if pre["cur_first"] else False

    # every module object keeps its own components, merged or not
    for module, comps in itertools.chain(zip(pre["prev"], pre["prev_comps"]), zip(pre["cur"], pre["cur_comps"])):
        if tuple(module.components) != comps:
            ctx.violate("merge-mutates-existing-module", facts, case)
            break

    if result is None:
        ctx.count("op:combine-refused")
        if list(previous.modules) != pre["prev"] or list(current.modules) != pre["cur"] \
                or any(a is not b for a, b in zip(previous.modules, pre["prev"])) \
                or any(a is not b for a, b in zip(current.modules, pre["cur"])):
            ctx.violate("refused-merge-changes-lists", facts, case)
        if both and same_strand and not unpinned:
            ctx.count("op:merge-expected")
            head_complete = L.expect_complete(head, head_first)
            tail_complete = L.expect_complete(tail, tail_first)
            merged = head + tail
            if (not head_complete and (not tail_complete or tail[0][0] in L.FUSED_STARTERS)
                    and not hybrid(head, tail) and not L.layout_problems(merged)
                    and L.expect_complete(merged, False)):
                ctx.violate("merge-missed", dict(facts, merged=tokens_of(merged)), case)
            elif (not head_complete and (not tail_complete or tail[0][0] in L.FUSED_STARTERS)
                  and not hybrid(head, tail) and not L.layout_problems(merged)
                  and L.expect_complete(merged, head_first)):
                ctx.count("unspecified:merge-refused-as-merged-module-is-never-first-in-gene")
        return

    ctx.count("op:combine-merged")
    if not same_strand:
        ctx.violate("merge-different-strands", facts, case)
    if not both:
        ctx.violate("merge-without-modules", facts, case)
        return
    merged_comps = tuple(result.components)
    base = pre["prev_comps"][-1] + pre["cur_comps"][0]
    took_next = False
    if len(merged_comps) == len(base) + 1 and len(pre["cur_comps"]) > 1 and len(pre["cur_comps"][1]) == 1:
        base_plus = base + pre["cur_comps"][1]
        took_next = [id(c.domain) for c in merged_comps] == [id(c.domain) for c in base_plus]
    expected_comps = base + pre["cur_comps"][1] if took_next else base
    if [id(c.domain) for c in merged_comps] != [id(c.domain) for c in expected_comps] \
            or [c.locus for c in merged_comps] != [c.locus for c in expected_comps]:
        ctx.violate("merge-keeps-domains-in-order", dict(facts, merged=tokens_of(comps_of(result))), case)
    drop = 2 if took_next else 1
    if not (len(previous.modules) == len(pre["prev"]) and previous.modules[-1] is result
            and all(a is b for a, b in zip(previous.modules[:-1], pre["prev"][:-1]))
            and len(current.modules) == len(pre["cur"]) - drop
            and all(a is b for a, b in zip(current.modules, pre["cur"][drop:]))):
        ctx.violate("merge-bookkeeping", dict(facts, took_next=took_next), case)
    facts["merged"] = tokens_of(comps_of(result))
    if unpinned:
        return
    if L.expect_complete(head, head_first):
        ctx.violate("merge-of-complete-head", facts, case)
    if L.expect_complete(tail, tail_first):
        if tail[0][0] in L.FUSED_STARTERS:
            ctx.count("class:merge-fused-tail")
        else:
            ctx.violate("merge-of-complete-tail", facts, case)
    if hybrid(head, tail):
        ctx.violate("merge-hybrid-nrps-pks", facts, case)
    if not result.is_complete():
        ctx.violate("merge-result-incomplete", facts, case)
    # trailing lone KR of the next gene joins a merged trans-AT module iff it fits there
    merged_view = head + tail
    if nxt is not None and L.labels_of(nxt) == ["PKS_KR"]:
        should = L.is_trans_at(merged_view) and L.fits(merged_view, nxt[0])
        if should:
            ctx.count("class:merge-trailing-kr")
        elif L.is_trans_at(merged_view):
            ctx.count("class:merge-trailing-kr-does-not-fit")
        if should != took_next:
            ctx.violate("merge-trailing-kr", dict(facts, took_next=took_next, expected=should), case)
    elif took_next:
        ctx.violate("merge-trailing-kr", dict(facts, took_next=True, expected=False), case)
    oracle_module(ctx, result, (False, bool(head_first)), case, "merge")


# --------------------------------------------------------------------------
# recording wrappers on every binding site
# --------------------------------------------------------------------------

def _safely(ctx, name, fn, *args):
    try:
        fn(*args)
    except Exception as err:  # pylint: disable=broad-except
        import traceback
        ctx.violate("oracle-error", {"oracle": name, "exception": type(err).__name__, "message": str(err)[:200],
                                     "trace": traceback.format_exc()[-600:]}, S.case)


def install(ctx) -> None:
    S.ctx = ctx
    if S.installed:
        return
    S.orig_build = mi.build_modules_for_cds
    S.orig_combine = mi.combine_modules

    def build_wrapper(domains, cds_name):
        given = list(domains)
        try:
            result = S.orig_build(domains, cds_name)
        except Exception as err:  # pylint: disable=broad-except
            S.ctx.violate("build-crash", {"exception": type(err).__name__, "message": str(err)[:200],
                                          "gene": [d.hit_id for d in given]}, S.case)
            raise
        S.ctx.count("monitor:build_modules_for_cds")
        if S.built_lists is not None:
            S.built_lists[cds_name] = result
        _safely(S.ctx, "build", oracle_build, S.ctx, given, cds_name, result, S.case)
        return result

    def combine_wrapper(current, previous):
        pre = snapshot_pair(current, previous)
        try:
            result = S.orig_combine(current, previous)
        except Exception as err:  # pylint: disable=broad-except
            S.combine_crashed = err
            S.ctx.violate("combine-crash", crash_facts(pre, err, previous), S.case)
            raise
        S.ctx.count("monitor:combine_modules")
        _safely(S.ctx, "combine", oracle_combine, S.ctx, pre, current, previous, result, S.case)
        return result

    build_wrapper.__wrapped_original__ = S.orig_build
    combine_wrapper.__wrapped_original__ = S.orig_combine
    ctx.counters["sites:build_modules_for_cds"] = instrument.rebind(S.orig_build, build_wrapper)
    ctx.counters["sites:combine_modules"] = instrument.rebind(S.orig_combine, combine_wrapper)
    S.installed = True
    # the pinned tables against the tables under test: differences are reported once, as coverage facts
    theirs = {name: key for key, names in mi.CLASSIFICATIONS.items() for name in names}
    ctx.extra["profile_names_in_code"] = len(theirs)
    ctx.extra["profile_names_unpinned"] = sorted(set(theirs) - L.KNOWN)
    ctx.extra["profile_names_reclassified"] = sorted(n for n in theirs if n in L.KNOWN and L.CLASS_OF[n] != theirs[n])


# --------------------------------------------------------------------------
# cases
# --------------------------------------------------------------------------

def run_gene(ctx, case):
    tokens = case["tokens"]
    domains = G.make_domains(tokens)
    given = [domains[i] for i in case["order"]] if case.get("order") else list(domains)
    S.case = case
    try:
        modules = mi.build_modules_for_cds(given, "geneA")
    except Exception:  # pylint: disable=broad-except
        ctx.case(("gene", tokens), nontrivial=False)
        return None
    ctx.case(("gene", tokens), nontrivial=any(len(m.components) > 1 for m in modules),
             sample=case if len(tokens) >= 3 and not ctx.samples else None)
    return modules


def run_pair(ctx, case):
    S.case = case
    head_strand, tail_strand = case["strands"]
    try:
        head_mods = mi.build_modules_for_cds(G.make_domains(case["head"]), "geneA")
        tail_mods = mi.build_modules_for_cds(G.make_domains(case["tail"]), "geneB")
    except Exception:  # pylint: disable=broad-except
        return
    previous = mi.CDSModuleInfo(DummyCDS(0, 300, strand=head_strand, locus_tag="geneA"), head_mods)
    current = mi.CDSModuleInfo(DummyCDS(400, 700, strand=tail_strand, locus_tag="geneB"), tail_mods)
    attempt = bool(head_mods) and bool(tail_mods) and not head_mods[-1].is_complete()
    ctx.case(("pair", case["head"], case["tail"], case["strands"]), nontrivial=attempt,
             sample=case if attempt and len(ctx.samples) < 2 else None)
    all_before = [c.domain for info in (previous, current) for m in info.modules for c in m.components]
    try:
        mi.combine_modules(current, previous)
    except Exception:  # pylint: disable=broad-except
        return  # recorded by the wrapper
    all_after = [c.domain for info in (previous, current) for m in info.modules for c in m.components]
    ctx.count("op:pair-conservation")
    if [id(d) for d in all_before] != [id(d) for d in all_after]:
        ctx.violate("pair-keeps-all-domains-in-order", {"head": case["head"], "tail": case["tail"],
                                                        "same_strand": head_strand == tail_strand}, case)


# ---- clusters through generate_domains ------------------------------------

GENE_SPACING = 3300


def cluster_origin_cut(case) -> int:
    """ 0, or the slot of the first gene after the origin (1..count-1), decided by a checksum of the case """
    count = len(case["genes"])
    if case.get("split_regions") or count < 2:
        return 0
    digest = zlib.crc32(json.dumps([g["tokens"] for g in case["genes"]]).encode())
    if digest % 3:
        return 0
    return 1 + (digest // 3) % (count - 1)


def build_cluster_record(case):
    """ genes in biological order of the main strand; on the reverse strand the first gene has the
        highest coordinates """
    genes = case["genes"]
    count = len(genes)
    # a third of the single-region clusters lie on a circular record with the origin between two of their genes
    # (the region crosses the origin; 2.6 kb of the ring stay outside it)
    cut = cluster_origin_cut(case)
    length = 600 + GENE_SPACING * count + (2000 if cut else 0)
    record = DummyRecord(seq="A" * length, record_id="c14_record", circular=bool(cut))
    shift = length - (300 + GENE_SPACING * cut - 100) if cut else 0
    placed = []
    for k, gene in enumerate(genes):
        slot = k if case["strand"] == 1 else count - 1 - k
        strand = -case["strand"] if gene.get("flipped") else case["strand"]
        size = G.protein_length(gene["tokens"])
        start = (300 + GENE_SPACING * slot + shift) % length
        cds = DummyCDS(start=start, end=start + 3 * size, strand=strand, locus_tag=f"gene{k}", translation="M" * size)
        record.add_cds_feature(cds)
        placed.append({"cds": cds, "slot": slot, "strand": strand, "tokens": gene["tokens"],
                       "domains": G.make_domains(gene["tokens"])})
    if cut:
        first = min((g for g in placed if g["slot"] < cut), key=lambda g: g["slot"])["cds"]
        last = max((g for g in placed if g["slot"] >= cut), key=lambda g: g["slot"])["cds"]
        sub = DummySubRegion(start=int(first.location.start) - 50, end=int(last.location.end) + 50, record_length=length)
        assert sub.location.start == 0 and len(sub.location.parts) == 2, sub.location
        record.add_subregion(sub)
        record.add_region(DummyRegion(candidate_clusters=[], subregions=[sub]))
        return record, placed
    if case.get("split_regions") and count > 1:
        border = 300 + GENE_SPACING * (count // 2) - 100
        spans = [(0, border), (border + 50, length)]
    else:
        spans = [(0, length)]
    for start, end in spans:
        sub = DummySubRegion(start=start, end=end)
        record.add_subregion(sub)
        record.add_region(DummyRegion(candidate_clusters=[], subregions=[sub]))
    return record, placed


def run_pipeline(record, placed):
    hits = {g["cds"].get_name(): g["domains"] for g in placed if g["domains"]}
    with patch.object(di, "find_ab_motifs", return_value={}), patch.object(di, "get_database_path", return_value=""), \
            patch.object(di, "find_domains", return_value=hits), patch.object(di, "find_subtypes", return_value={}):
        return di.generate_domains(record)


def feature_view(feature) -> dict:
    return {"domains": [d.get_name() for d in feature.domains], "type": str(feature.module_type),
            "complete": feature.is_complete(), "starter": feature.is_starter_module(),
            "final": feature.is_final_module(), "iterative": feature.is_iterative(),
            "location": str(feature.location), "parents": list(feature.parent_cds_names),
            "monomers": list(feature.monomers)}


def run_cluster(ctx, case):
    S.case = case
    S.combine_crashed = None
    ctx.count("op:pipeline")
    record, placed = build_cluster_record(case)
    if record.is_circular():
        ctx.count("class:pipeline-region-across-origin")
    facts = {"strand": case["strand"], "genes": [g["tokens"] for g in case["genes"]],
             "flipped": [bool(g.get("flipped")) for g in case["genes"]], "split_regions": bool(case.get("split_regions"))}
    S.built_lists = {}
    try:
        results = run_pipeline(record, placed)
    except Exception as err:  # pylint: disable=broad-except
        S.built_lists = None
        ctx.case(("cluster", case), nontrivial=True)
        if S.combine_crashed is err or (S.combine_crashed is not None and type(err) is type(S.combine_crashed)):
            ctx.count("pipeline:aborted-by-recorded-combine-crash")
        else:
            ctx.violate("pipeline-crash", dict(facts, exception=type(err).__name__, message=str(err)[:200]), case)
        return
    built, S.built_lists = S.built_lists, None
    by_name = {g["cds"].get_name(): g for g in placed}
    all_modules = [(cds, m) for cds, res in results.cds_results.items() for m in res.modules]
    # what the record keeps = what was built and merged, minus the documented noise (single-domain modules)
    for name, gene in by_name.items():
        res = results.cds_results.get(gene["cds"])
        if not gene["domains"]:
            if res is not None:
                ctx.violate("pipeline-result-for-gene-without-domains", facts, case)
            continue
        kept = [m for m in built.get(name, []) if len(m.components) > 1]
        if res is None or [id(m) for m in res.modules] != [id(m) for m in kept]:
            ctx.violate("pipeline-modules-lost-or-added",
                        dict(facts, gene=gene["tokens"], kept=[tokens_of(comps_of(m)) for m in kept],
                             reported=[tokens_of(comps_of(m)) for m in res.modules] if res else None), case)
        elif res.domain_hmms != gene["domains"]:
            ctx.violate("pipeline-domains-lost-or-added", dict(facts, gene=gene["tokens"]), case)
    ctx.case(("cluster", case), nontrivial=bool(all_modules), sample=case)

    # every domain at most once, every module listed once, components of a gene in order
    owner = {id(d): name for name, g in by_name.items() for d in g["domains"]}
    seen_domains, seen_modules = set(), set()
    slots = sorted(g["slot"] for g in placed)
    for cds, module in all_modules:
        mfacts = dict(facts, module=tokens_of(comps_of(module)), loci=[c.locus for c in module.components])
        if id(module) in seen_modules:
            ctx.violate("pipeline-module-listed-twice", mfacts, case)
        seen_modules.add(id(module))
        for comp in module.components:
            if owner.get(id(comp.domain)) != comp.locus:
                ctx.violate("pipeline-component-of-wrong-gene", mfacts, case)
            if id(comp.domain) in seen_domains:
                ctx.violate("pipeline-domain-in-two-modules", mfacts, case)
            seen_domains.add(id(comp.domain))
        loci = [name for name, _ in itertools.groupby(c.locus for c in module.components)]
        if len(set(loci)) != len(loci):
            ctx.violate("pipeline-merge-interleaves-genes", mfacts, case)
            continue
        for name in loci:
            starts = [c.domain.query_start for c in module.components if c.locus == name]
            if starts != sorted(starts):
                ctx.violate("pipeline-module-order-within-gene", mfacts, case)
        if loci[0] != cds.get_name():
            ctx.violate("pipeline-module-filed-under-downstream-gene", mfacts, case)
        for up_name, down_name in zip(loci, loci[1:]):
            up, down = by_name[up_name], by_name[down_name]
            if up["strand"] != down["strand"]:
                ctx.violate("pipeline-merge-different-strands", mfacts, case)
                continue
            ctx.count("class:pipeline-merge-forward-strand" if up["strand"] == 1
                      else "class:pipeline-merge-reverse-strand")
            if (down["slot"] - up["slot"]) * up["strand"] != 1:
                ctx.violate("pipeline-merge-upstream-downstream-order", dict(mfacts, slots=[up["slot"], down["slot"]]), case)
            if up["cds"].region is not down["cds"].region:
                ctx.violate("pipeline-merge-across-regions", mfacts, case)
        if len(module.components) > 1:
            ctx.count("pipeline:modules")

    # secmet Module features
    try:
        results.add_to_record(record)
    except Exception as err:  # pylint: disable=broad-except
        ctx.violate("add-to-record-crash", dict(facts, exception=type(err).__name__, message=str(err)[:200]), case)
        return
    features = list(record.get_modules())
    if len(features) != len(all_modules):
        ctx.violate("feature-count", dict(facts, features=len(features), modules=len(all_modules)), case)
    by_domains = {tuple(d.get_name() for d in f.domains): f for f in features}
    for cds, module in all_modules:
        ctx.count("op:feature")
        names = []
        for comp in module.components:
            res = results.cds_results[by_name[comp.locus]["cds"]]
            names.append(res.domain_features[comp.domain].get_name())
        comps = comps_of(module)
        mfacts = dict(facts, module=tokens_of(comps))
        feature = by_domains.get(tuple(names))
        if feature is None:
            ctx.violate("feature-domains-in-module-order", mfacts, case)
            continue
        if _unpinned(L.labels_of(comps)):
            continue
        labels = L.labels_of(comps)
        starter = L.starter_of(comps)
        if any(L.nrps_specific(l) for l in labels):
            kind = "nrps"
        elif any(L.pks_specific(l) for l in labels):
            kind = "pks"
        elif starter is not None and starter[0] == "CAL_domain":
            kind = "cal"
        else:
            kind = "unknown"
        first = bool(module.to_json()["first_in_cds"])
        end_labels = [l for l in labels if l in L.ENDS]
        expected = {
            "type": kind, "complete": L.expect_complete(comps, first),
            "final": bool(end_labels) and end_labels[0] in L.TERMINATING,
            "iterative": starter is not None and starter[1] == "Iterative-KS",
            "parents": [name for name, _ in itertools.groupby(c.locus for c in module.components)],
        }
        got = feature_view(feature)
        wrong = sorted(k for k, v in expected.items() if got[k] != v)
        if got["starter"] != module.is_starter_module():
            wrong.append("starter")
        locs = [d.location for d in feature.domains]
        if len(feature.location.parts) > 1 and record.is_circular():
            # a module over the origin: the feature covers its domains and nothing outside the arc from the first
            # pre-origin domain to the last post-origin one (the strand of such a location is not specified)
            ctx.count("class:module-feature-across-origin")
            pre = [l for l in locs if int(l.start) >= len(record.seq) // 2]
            post = [l for l in locs if int(l.start) < len(record.seq) // 2]
            parts = sorted((int(p.start), int(p.end)) for p in feature.location.parts)
            if not pre or not post or parts != [(0, max(int(l.end) for l in post)),
                                                (min(int(l.start) for l in pre), len(record.seq))]:
                wrong.append("location")
        elif int(feature.location.start) != min(int(l.start) for l in locs) \
                or int(feature.location.end) != max(int(l.end) for l in locs) \
                or feature.location.strand != by_name[module.components[0].locus]["strand"]:
            wrong.append("location")
        if wrong:
            ctx.violate("feature-flags", dict(mfacts, wrong=wrong, got={k: got[k] for k in wrong if k in got}), case)
        # the feature's own saved form
        ctx.count("op:feature-roundtrip")
        try:
            bio = feature.to_biopython()
            again = ModuleFeature.from_biopython(bio[0], record=record)
        except Exception as err:  # pylint: disable=broad-except
            ctx.violate("feature-roundtrip-crash", dict(mfacts, exception=type(err).__name__, message=str(err)[:200]), case)
            continue
        if feature_view(again) != got or any(a is not b for a, b in zip(again.domains, feature.domains)):
            ctx.violate("feature-roundtrip", dict(mfacts, before=got, after=feature_view(again)), case)

    # saved results of the whole record, reloaded onto a fresh copy of the record
    ctx.count("op:results-reload")
    saved = results.to_json()
    record2, placed2 = build_cluster_record(case)
    try:
        text = json.dumps(saved)
        again = di.NRPSPKSDomains.from_json(json.loads(text), record2)
        if again is None:
            raise ValueError("saved results refused")
        again.add_to_record(record2)
    except Exception as err:  # pylint: disable=broad-except
        ctx.violate("results-reload-crash", dict(facts, exception=type(err).__name__, message=str(err)[:200]), case)
        return
    if json.loads(json.dumps(again.to_json())) != json.loads(text):
        ctx.violate("results-reload-json-differs", facts, case)
    before = {cds.get_name(): [signature(m) for m in res.modules] for cds, res in results.cds_results.items()}
    after = {cds.get_name(): [signature(m) for m in res.modules] for cds, res in again.cds_results.items()}
    if before != after:
        ctx.violate("results-reload-predicate-differs", facts, case)
    feats_before = sorted((json.dumps(feature_view(f), sort_keys=True) for f in features))
    feats_after = sorted((json.dumps(feature_view(f), sort_keys=True) for f in record2.get_modules()))
    if feats_before != feats_after:
        ctx.violate("results-reload-features-differ", facts, case)


def run_case(ctx, case):
    kind = case["kind"]
    if kind == "gene":
        run_gene(ctx, case)
    elif kind == "pair":
        run_pair(ctx, case)
    elif kind == "cluster":
        run_cluster(ctx, case)
    else:
        raise ValueError(f"unknown case kind {kind}")


def _drive(ctx, case):
    try:
        run_case(ctx, case)
    except Exception as err:  # pylint: disable=broad-except
        import traceback
        ctx.violate("harness-error", {"exception": type(err).__name__, "message": str(err)[:200],
                                      "trace": traceback.format_exc()[-600:]}, case)


# --------------------------------------------------------------------------
# workload
# --------------------------------------------------------------------------

def exhaustive_words(ctx):
    """ yields (index, word) of this process' share of the enumerated gene words """
    plans = [(G.EXHAUSTIVE, (1, 2, 3)), (G.EXHAUSTIVE_MINI, (4,))]
    if ctx.tier == "thorough":
        plans = [(G.EXHAUSTIVE, (1, 2, 3, 4)), (G.EXHAUSTIVE_MINI, (5,))]
    index = 0
    for alphabet, lengths in plans:
        for n in lengths:
            for word in itertools.product(alphabet, repeat=n):
                index += 1
                if index % ctx.nworkers == ctx.worker:
                    yield list(word)


def exhaustive_pairs(ctx):
    alphabet, total = (G.EXHAUSTIVE_MINI, 3) if ctx.tier == "quick" else (G.EXHAUSTIVE, 4)
    index = 0
    for size in range(2, total + 1):
        for cut in range(1, size):
            for word in itertools.product(alphabet, repeat=size):
                index += 1
                if index % ctx.nworkers == ctx.worker:
                    strand = 1 if index % 2 else -1
                    yield {"kind": "pair", "head": list(word[:cut]), "tail": list(word[cut:]), "strands": [strand, strand]}


def _phase(ctx, name, items, until):
    """ yields items until they run out or until the share `until` of the soft time budget is used:
        every phase gets its turn (at least 64 items) whatever the machine load; a cut phase is
        counted, never hidden """
    limit = ctx.budget_s * until
    done = 0
    for item in items:
        if done >= 64 and done % 16 == 0 and ctx.budget_s - ctx.time_left() > limit:
            ctx.budget_hit = True
            ctx.count("budget_cut:" + name)
            break
        yield item
        done += 1
    ctx.count("cases:" + name, done)


def _random_genes(ctx, rng, alphabet_all, count):
    for _ in range(count):
        case = {"kind": "gene", "tokens": G.gen_word(rng, alphabet_all)}
        if rng.random() < 0.2:
            case["order"] = list(range(len(case["tokens"])))
            rng.shuffle(case["order"])
        yield case


def run(ctx):
    install(ctx)
    alphabet_all = sorted(set().union(*mi.CLASSIFICATIONS.values()))
    for word in _phase(ctx, "exhaustive-gene-words", exhaustive_words(ctx), 0.35):
        _drive(ctx, {"kind": "gene", "tokens": word})
    for case in _phase(ctx, "exhaustive-gene-pairs", exhaustive_pairs(ctx), 0.45):
        _drive(ctx, case)
    ctx.exhaustive = not (ctx.counters.get("budget_cut:exhaustive-gene-words")
                          or ctx.counters.get("budget_cut:exhaustive-gene-pairs"))
    rng = ctx.rng("clusters")
    clusters = (G.gen_cluster(rng, alphabet_all) for _ in range(ctx.quota(1000, 160000)))
    for case in _phase(ctx, "clusters", clusters, 0.65):
        _drive(ctx, case)
    for case in _phase(ctx, "random-genes", _random_genes(ctx, ctx.rng("genes"), alphabet_all,
                                                          ctx.quota(7000, 1200000)), 0.85):
        _drive(ctx, case)
    rng = ctx.rng("pairs")
    pairs = (G.gen_pair(rng, alphabet_all) for _ in range(ctx.quota(5000, 800000)))
    for case in _phase(ctx, "random-pairs", pairs, 1.0):
        _drive(ctx, case)
    ctx.extra["exhaustive_part"] = ("gene words and gene pairs as in RULE, share of this process: index mod "
                                    f"{ctx.nworkers}")


def replay(ctx, case):
    install(ctx)
    _drive(ctx, case)
