"""C15 ORF scanning finds exactly the open reading frames of the searched sequence.

Two observation points on the real code in antismash.common.all_orfs:

* scan_orfs(seq, direction, offset, minimum_length, record_length): the window handed to the
  scanner is cut out of a record by the harness (inside, touching an end, crossing the origin with
  a negative or a positive offset), reverse-complemented by the harness for direction -1, and the
  returned locations are compared with vf.models.orf_ref: same multiset of (base set on the record,
  nucleotides read from the record on the reported strand in the reported part order).
* find_all_orfs(record, area, min_length, max_overlap) on generated gene layouts: every returned
  feature must be an ORF when read from the record, at least min_length long, overlap every
  existing gene by at most max_overlap bases, lie inside the area, carry the translation of
  its own nucleotides (first residue M); and the set of returned ORFs must be the set the reference
  finds in the gaps between consecutive genes (widened by max_overlap).

The record sequence is read by the oracle with its own complement table and part-order walk
(orf_ref.read_sequence); Biopython's location.extract on the same record is evaluated next to it.
"""
from __future__ import annotations

import itertools
import json
import zlib
import traceback

from Bio.Seq import Seq

from antismash.common import all_orfs
from antismash.common.secmet.locations import CompoundLocation, FeatureLocation
from antismash.common.secmet.test.helpers import DummyCDS, DummyRecord, DummySubRegion

from vf import findings
from vf.models import orf_ref as R

PROPERTY = "C15"
LEVEL = "exploration"
PARALLEL = True
RULE = ("scan: records of 12..150 nt of random DNA enriched in start/stop codons and their reverse complements "
        "(upper, lower, mixed case; IUPAC ambiguity codes), a window (offset, length) inside the record, touching "
        "its start or end, or crossing the origin with negative or positive offset, either strand, record_length "
        "given or omitted, minimum_length in {0,3,6,60, length of an ORF of the window, that +-1}; exhaustive: "
        "every string over ACGT of length <= 7 (quick) / <= 9 (thorough) as the scanned string on both strands "
        "at four placements (at 0 without record length, inside, across the origin with negative and with positive "
        "offset) and minimum lengths {0,3,6,7,9,10}; find: records of 60..420 nt, linear or circular, 0-6 genes "
        "(overlapping, nested, tail-overlapping by allowance-1/allowance/allowance+1, shorter than twice the allowance, "
        "at the record ends, two-exon, origin-spanning), area none / simple / origin-spanning, max_overlap in "
        "{0,3,10,25}, min_length as above. Non-trivial: the reference finds at least one ORF; distinct by the "
        "scanned string, strand, placement and minimum (scan) or the whole layout (find).")
ASSUMPTIONS = [
    "Start codons are exactly ATG/GTG/TTG and stop codons exactly TAA/TAG/TGA after upper-casing; ambiguity "
    "codes never make a start or stop for the scanner (they may end a translation, see below).",
    "The scanned window is not longer than the record and an ORF is shorter than the record (an ORF covering "
    "the whole ring through a rotated window is counted as skipped:orf-covers-whole-ring, not decided).",
    "For direction -1 the caller hands over the reverse complement of the window, as find_all_orfs does.",
    "A gene's extent includes its introns; an origin-spanning gene has two extents, [first exon start, L) and "
    "[0, last exon end). A gene belongs to a searched stretch when one of its exons has a base in it. 'Gaps "
    "between existing genes' are the stretches between consecutive gene extents of the searched range, each "
    "widened by max_overlap on both sides; the whole-record search reads the record as a line, an "
    "origin-spanning area as one stretch through the origin (joined before the minimum length is applied).",
    "'Overlap with a gene' is the longest run of consecutive ORF bases that are exon bases of that gene, i.e. "
    "the overlap at one end of the ORF (on a small ring an ORF may touch one gene with both ends).",
    "When a gene of the searched range is not longer than 2*max_overlap the widened gaps on its two sides run "
    "into each other and the property does not say which stretches are the gaps: such layouts are counted as "
    "unspecified:gene-not-longer-than-twice-allowance and only the per-ORF clauses (is an ORF, minimum length, "
    "allowance, inside the area, translation, no crash) are decided.",
    "Returning the same ORF twice (once per overlapping gap) is counted (observed:...), not a deviation.",
    "The translation of an ORF ends at the first codon all of whose readings are stops (ambiguity codes); "
    "codons with several possible amino acids give X.",
    "Biopython's Seq/SimpleLocation/CompoundLocation are trusted for .parts/.start/.end/.strand.",
]
REQUIRED = ["op:scan_orfs", "op:find_all_orfs", "op:translation", "op:biopython_extract",
            "window:inside", "window:touches-start", "window:touches-end",
            "window:crosses-origin-negative-offset", "window:crosses-origin-positive-offset",
            "strand:1", "strand:-1", "frame:0", "frame:1", "frame:2",
            "minimum:exact", "minimum:exact+1", "minimum:0",
            "orf:wrapped-forward", "orf:wrapped-reverse", "case:lower", "case:ambiguity-codes",
            "exhaustive:strings",
            "area:none", "area:simple", "area:origin-spanning",
            "layout:overlapping-genes", "layout:gene-at-record-end", "layout:origin-spanning-gene",
            "layout:orf-overlaps-gene-within-allowance", "layout:gap-through-origin"]

scan_orfs = all_orfs.scan_orfs
find_all_orfs = all_orfs.find_all_orfs


# ---------------------------------------------------------------------------
# known mechanisms on the current tree (see notes/agents/C15-findings.json)
# ---------------------------------------------------------------------------

@findings.classifier("c15_exact_minimum_dropped")
def _k_exact_minimum(clause, facts):
    """ `end - start < minimum_length` with an inclusive end: an ORF of exactly the minimum length is
        dropped. Must not hide: a missing ORF of any other length. """
    return (clause in ("scan-missing-orf", "find-missing-orf")
            and facts.get("orf_len") is not None and facts.get("orf_len") == facts.get("minimum_length"))


@findings.classifier("c15_reverse_wrap_part_order")
def _k_reverse_wrap(clause, facts):
    """ a reverse-strand ORF crossing the origin is returned as [x:L),[0:y) (forward order), so reading
        the location gives the two halves swapped. Must not hide: wrong bases, forward-strand wraps,
        or a reverse wrap whose swapped parts do not read as the ORF either. """
    return (clause in ("scan-extract-mismatch", "find-extract-mismatch")
            and facts.get("strand") == -1 and facts.get("orf_wraps") is True
            and facts.get("parts_in_forward_order") is True and facts.get("swapped_parts_read_ok") is True)


@findings.classifier("c15_gap_restarts_inside_earlier_gene")
def _k_gap_restart(clause, facts):
    """ find_intergenic_areas sets `last = cds.end - padding` without max(): a later-sorted gene that
        ends inside an earlier gene moves the start of the next gap back into the earlier gene.
        Must not hide: excess overlap into a gene that does not contain the end of a later-sorted
        gene, or into an origin-spanning gene; missing/unexpected ORFs away from such a gene. """
    if not facts.get("gene_ends_inside_earlier_starting_gene"):
        return False
    if clause == "find-overlap-exceeds-allowance":
        return facts.get("overlapped_gene_contains_later_gene_end") is True
    if clause == "find-unexpected-orf":
        return facts.get("reaches_into_gene_containing_later_gene_end") is True
    if clause == "find-missing-orf":
        return facts.get("longer_version_reaches_into_gene_containing_later_gene_end") is True
    return False


@findings.classifier("c15_origin_spanning_gene_as_whole_record")
def _k_origin_gene(clause, facts):
    """ a gene spanning the origin has location.start == 0 and location.end == L; the linear gap walk
        takes it for a gene covering the whole record: sorted first it blocks the whole searched
        range (ORFs missing), sorted later its stretch after the origin is not protected, and the
        allowance is granted on both sides of the origin for one gap. Must not hide: missing ORFs
        when no origin-spanning gene intersects the searched range; excess overlap into other genes. """
    if clause == "find-missing-orf":
        return facts.get("origin_spanning_gene_in_scope") is True
    if clause == "find-overlap-exceeds-allowance":
        return facts.get("overlapped_gene_spans_origin") is True
    if clause == "find-unexpected-orf":
        return facts.get("reaches_into_origin_spanning_gene") is True
    return False


@findings.classifier("c15_origin_area_assert_short_gene")
def _k_origin_assert(clause, facts):
    """ _find_cross_origin_intergenic asserts a single gap at each side of the origin; a gene no longer
        than the allowance next to the origin yields two. Must not hide: any other crash. """
    return (clause == "find-crash" and facts.get("exception") == "AssertionError"
            and facts.get("raised_in") == "_find_cross_origin_intergenic"
            and facts.get("short_gene_next_to_origin") is True)


@findings.classifier("c15_origin_gap_filtered_before_join")
def _k_origin_gap_filter(clause, facts):
    """ the minimum gap length is applied to the stretches before and after the origin separately,
        before they are joined. Must not hide: missing ORFs in gaps whose both sides pass the filter,
        unexpected ORFs that are not a cut-off piece of such a gap's ORF. """
    if clause == "find-missing-orf":
        return facts.get("gap_through_origin") is True and facts.get("gap_side_shorter_than_minimum") is True
    if clause == "find-unexpected-orf":
        return facts.get("cut_from_orf_of_origin_gap_with_side_below_minimum") is True
    return False


@findings.classifier("c15_allowance_on_both_sides_of_origin")
def _k_allowance_twice(clause, facts):
    """ for a gap running through the origin next to a gene that itself spans the origin, the allowed overlap
        is granted once before and once after the origin, so an ORF through the origin may overlap that one
        gene by up to twice the allowance. Must not hide: excess overlap of ORFs that do not wrap, or into
        genes that do not span the origin. """
    return (clause == "find-overlap-exceeds-allowance" and facts.get("overlapped_gene_spans_origin") is True
            and facts.get("orf_wraps") is True)


# ---------------------------------------------------------------------------
# sequence generation
# ---------------------------------------------------------------------------

_SIGNALS = ["ATG", "GTG", "TTG", "TAA", "TAG", "TGA"]
_SIGNALS += [R.revcomp(c) for c in _SIGNALS]
_AMBIGUOUS = "NRYSWKMBDHVX"


def gen_dna(rng, n, style=None, ambiguous=_AMBIGUOUS):
    density = rng.choice([0.05, 0.12, 0.2, 0.3])
    out: list[str] = []
    while len(out) < n:
        if rng.random() < density:
            out.extend(rng.choice(_SIGNALS))
        else:
            out.append(rng.choice("ACGT"))
    chars = out[:n]
    style = style or rng.choice(["upper"] * 6 + ["lower", "mixed", "ambiguous", "ambiguous"])
    if style == "lower":
        chars = [c.lower() for c in chars]
    elif style == "mixed":
        chars = [c.lower() if rng.random() < 0.5 else c for c in chars]
    elif style == "ambiguous":
        for _ in range(max(1, n // 12)):
            chars[rng.randrange(n)] = rng.choice(ambiguous)
    return "".join(chars), style


# ---------------------------------------------------------------------------
# scan_orfs oracle
# ---------------------------------------------------------------------------

def window_kind(offset, wlen, length):
    if offset < 0:
        return "crosses-origin-negative-offset"
    if offset + wlen > length:
        return "crosses-origin-positive-offset"
    if offset == 0 and wlen == length:
        return "whole-record"
    if offset == 0:
        return "touches-start"
    if offset + wlen == length:
        return "touches-end"
    return "inside"


def _loc_parts(loc):
    return [(int(p.start), int(p.end)) for p in loc.parts]


def _part_order_facts(record, parts, strand, expected_nuc):
    """ forward order of a location wrapped over the origin: [x:L) first, [0:y) second """
    fwd = len(parts) == 2 and parts[0][1] == len(record) and parts[1][0] == 0
    swapped = R.read_sequence(record, list(reversed(parts)), strand).upper() == expected_nuc
    return {"parts_in_forward_order": fwd, "swapped_parts_read_ok": swapped}


def evaluate_scan(ctx, record, offset, wlen, direction, minimum, pass_length, scanned=None, ref_all=None,
                  biopython=True):
    """ one call of the real scan_orfs on a window of `record`; records deviations """
    length = len(record)
    positions = R.window_positions(offset, wlen, length)
    if scanned is None:
        chunk = "".join(record[p] for p in positions)
        scanned = chunk if direction == 1 else R.revcomp(chunk)
    if ref_all is None:
        ref_all = R.orfs_of(scanned)
    case = {"op": "scan", "record": record, "offset": offset, "wlen": wlen, "direction": direction,
            "minimum_length": minimum, "pass_record_length": pass_length}
    ctx.count("op:scan_orfs")
    try:
        got = scan_orfs(scanned, direction, offset, minimum_length=minimum,
                        record_length=length if pass_length else None)
    except Exception as err:  # pylint: disable=broad-except
        ctx.violate("scan-crash", {"exception": type(err).__name__, "message": str(err)[:200],
                                   "window": window_kind(offset, wlen, length), "strand": direction}, case)
        return
    kind = window_kind(offset, wlen, length)
    base = {"strand": direction, "window": kind, "minimum_length": minimum, "record_length_given": pass_length,
            "L": length, "wlen": wlen}

    expected: dict = {}
    for start, end in ref_all:
        if end - start < minimum:
            continue
        if direction == 1:
            reading = [positions[i] for i in range(start, end)]
        else:
            reading = [positions[wlen - 1 - i] for i in range(start, end)]
        wraps = any(reading[i + 1] - reading[i] != direction for i in range(len(reading) - 1))
        if wraps and end - start >= length:
            ctx.count("skipped:orf-covers-whole-ring")
            return
        ctx.count(f"frame:{start % 3}")
        if wraps:
            ctx.count("orf:wrapped-forward" if direction == 1 else "orf:wrapped-reverse")
        key = frozenset(reading)
        expected.setdefault(key, []).append((scanned[start:end].upper(), end - start, wraps, start % 3))

    seen: dict = {}
    for loc in got:
        parts = _loc_parts(loc)
        strands = {p.strand for p in loc.parts} | {loc.strand}
        if strands != {direction}:
            ctx.violate("scan-strand", dict(base, location=str(loc)), case)
        bad = [p for p in parts if not 0 <= p[0] < p[1] <= (length if pass_length else offset + wlen)]
        if bad or len(parts) > 2 or (len(parts) == 2 and (sorted(parts)[0][0] != 0 or sorted(parts)[1][1] != length)):
            ctx.violate("scan-illformed-location", dict(base, location=str(loc)), case)
            continue
        key = frozenset(R.read_positions(parts, direction))
        nuc = R.read_sequence(record, parts, direction).upper()
        seen.setdefault(key, []).append((nuc, loc, parts))

    for key, items in expected.items():
        nuc, orf_len, wraps, frame = items[0]
        facts = dict(base, orf_len=orf_len, orf_wraps=wraps, frame=frame)
        if key not in seen:
            ctx.violate("scan-missing-orf", facts, case)
            continue
        if len(seen[key]) != len(items):
            ctx.violate("scan-duplicate-orf", dict(facts, reported=len(seen[key])), case)
        got_nuc, loc, parts = seen[key][0]
        if got_nuc != nuc:
            ctx.violate("scan-extract-mismatch", dict(facts, location=str(loc), read=got_nuc, orf=nuc,
                                                      **_part_order_facts(record, parts, direction, nuc)), case)
        elif biopython:
            ctx.count("op:biopython_extract")
            try:
                bio = str(loc.extract(Seq(record))).upper()
            except Exception as err:  # pylint: disable=broad-except
                bio = f"<{type(err).__name__}>"
            if bio != nuc:
                ctx.violate("scan-biopython-extract-mismatch", dict(facts, location=str(loc), read=bio, orf=nuc), case)
    for key, items in seen.items():
        if key not in expected:
            nuc, loc, parts = items[0]
            ctx.violate("scan-spurious-orf", dict(base, location=str(loc), read=nuc, orf_len=len(key),
                                                  reads_as_orf=R.is_orf(nuc) is None,
                                                  below_minimum=len(key) < minimum), case)


def gen_scan_case(rng):
    length = rng.choice([12, 15, 18, 21, 24, 30, 30, 45, 60, 60, 90, 90, 120, 150])
    if rng.random() < 0.3:
        length += rng.randrange(0, 3)
    record, style = gen_dna(rng, length)
    placement = rng.choice(["inside", "start", "end", "negative", "negative", "positive", "positive", "whole"])
    if placement == "whole":
        wlen = length
        offset = 0 if rng.random() < 0.5 else rng.choice([-1, 1]) * rng.randrange(1, length)
    else:
        wlen = rng.randrange(min(9, length - 2), length + (1 if placement in ("negative", "positive") else 0))
        wlen = max(3, wlen)
        if placement == "inside":
            wlen = min(wlen, length - 2)
            offset = rng.randrange(1, length - wlen)
        elif placement == "start":
            offset = 0
        elif placement == "end":
            offset = length - wlen
        elif placement == "negative":
            offset = -rng.randrange(1, wlen)
        else:
            offset = length - rng.randrange(1, wlen)
    crossing = offset < 0 or offset + wlen > length
    direction = rng.choice([1, -1])
    pass_length = True if crossing else rng.random() < 0.6
    positions = R.window_positions(offset, wlen, length)
    chunk = "".join(record[p] for p in positions)
    scanned = chunk if direction == 1 else R.revcomp(chunk)
    ref = R.orfs_of(scanned)
    choice = rng.random()
    how = "fixed"
    if ref and choice < 0.6:
        start, end = rng.choice(ref)
        delta = rng.choice([0, 0, 0, 1, 1, -1])
        minimum = end - start + delta
        how = {0: "exact", 1: "exact+1", -1: "exact-1"}[delta]
    else:
        minimum = rng.choice([0, 0, 3, 6, 9, 12, 60])
    return {"op": "scan", "record": record, "offset": offset, "wlen": wlen, "direction": direction,
            "minimum_length": minimum, "pass_record_length": pass_length}, style, how, bool(ref)


def run_scan_case(ctx, case, style=None, how=None, has_orf=None):
    record = case["record"]
    length = len(record)
    kind = window_kind(case["offset"], case["wlen"], length)
    ctx.count("window:" + kind)
    ctx.count(f"strand:{case['direction']}")
    if how:
        ctx.count("minimum:" + (how if how != "fixed" else str(case["minimum_length"])))
    if style in ("lower", "mixed"):
        ctx.count("case:lower")
    if style == "ambiguous":
        ctx.count("case:ambiguity-codes")
    if has_orf is None:
        positions = R.window_positions(case["offset"], case["wlen"], length)
        chunk = "".join(record[p] for p in positions)
        has_orf = bool(R.orfs_of(chunk if case["direction"] == 1 else R.revcomp(chunk)))
    ctx.case(("scan", record, case["offset"], case["wlen"], case["direction"], case["minimum_length"],
              case["pass_record_length"]), nontrivial=has_orf, sample=case if has_orf else None)
    evaluate_scan(ctx, record, case["offset"], case["wlen"], case["direction"], case["minimum_length"],
                  case["pass_record_length"])


# ---------------------------------------------------------------------------
# exhaustive small strings
# ---------------------------------------------------------------------------

_EXH_MINIMA_ORF = (0, 3, 6, 7, 9, 10)
_EXH_MINIMA_NONE = (0, 6)


def _placements(n):
    """ (offset, record length, pass record_length) for a window of n bases """
    out = [(0, n, False)]
    if n >= 1:
        out.append((2, n + 4, True))                         # inside
    if n >= 2:
        out.append((-(n // 2), n + 1, True))                 # across the origin, negative offset
        out.append((n + 2 - (n + 1) // 2, n + 2, True))      # across the origin, positive offset
    return out


def _record_for(chunk, offset, length):
    """ a record of `length` bases carrying `chunk` at the window, C elsewhere """
    chars = ["C"] * length
    for i, char in enumerate(chunk):
        chars[(offset + i) % length] = char
    return "".join(chars)


def exhaustive_string(ctx, text):
    """ `text` is the string handed to scan_orfs, on both strands, all placements """
    n = len(text)
    ref = R.orfs_of(text)
    ctx.case(text or "<empty>", nontrivial=bool(ref), sample=None)
    ctx.count("exhaustive:strings")
    minima = _EXH_MINIMA_ORF if ref else _EXH_MINIMA_NONE
    for direction in (1, -1):
        chunk = text if direction == 1 else R.revcomp(text)
        for offset, length, pass_length in _placements(n):
            record = _record_for(chunk, offset, length)
            for minimum in minima:
                evaluate_scan(ctx, record, offset, n, direction, minimum, pass_length, scanned=text, ref_all=ref,
                              biopython=bool(ref))


def exhaustive(ctx, max_len, extra_orf_lengths=()):
    index = 0
    for n in range(0, max_len + 1):
        for letters in itertools.product("ACGT", repeat=n):
            index += 1
            if index % ctx.nworkers != ctx.worker:
                continue
            if index % 512 == 0 and ctx.time_left() <= 0:
                ctx.budget_hit = True
                ctx.exhaustive = False
                return
            exhaustive_string(ctx, "".join(letters))
    # quick tier: strings of length 8 and 9 that contain an ORF, built constructively
    starts, stops = sorted(R.STARTS), sorted(R.STOPS)
    for n in extra_orf_lengths:
        built = set()
        for start, stop in itertools.product(starts, stops):
            free = n - 6
            for lead in range(free + 1):
                for fill in itertools.product("ACGT", repeat=free):
                    fill = "".join(fill)
                    built.add(fill[:lead] + start + stop + fill[lead:])
            if n == 9:
                for mid in itertools.product("ACGT", repeat=3):
                    built.add(start + "".join(mid) + stop)
        for text in sorted(built):
            exhaustive_string(ctx, text)
    if ctx.exhaustive is None:
        ctx.exhaustive = True


# ---------------------------------------------------------------------------
# find_all_orfs oracle
# ---------------------------------------------------------------------------

def _mk_location(parts, strand):
    locs = [FeatureLocation(s, e, strand) for s, e in parts]
    return locs[0] if len(locs) == 1 else CompoundLocation(locs)


def gene_extents(parts, strand, length):
    """ extents of a gene on the line [0, L): one (start, end), or two for an origin-spanning gene.
        `parts` are in biological order. """
    fwd = list(parts) if strand == 1 else list(reversed(parts))
    split = next((i for i in range(len(fwd) - 1) if fwd[i + 1][0] < fwd[i][0]), None)
    if split is None:
        return [(min(s for s, _ in fwd), max(e for _, e in fwd))], False
    upper, lower = fwd[:split + 1], fwd[split + 1:]
    return [(min(s for s, _ in upper), length), (0, max(e for _, e in lower))], True


def _contains_end_of_other(extent, others):
    """ another gene starts at or after this one's start and ends before this one's end """
    return any(other != extent and extent[0] <= other[0] and other[1] < extent[1] for other in others)


def _segments(length, area):
    if area is None:
        return [(0, length)]
    if area[0] < area[1]:
        return [(area[0], area[1])]
    return [(area[0], length), (0, area[1])]


def _touches(exons, lo, hi):
    return any(s < hi and e > lo for s, e in exons)


def reference_windows(length, genes, area, minimum, allowance):
    """ windows (offset, wlen, notes) the reference searches. `genes` are (exons, extents) pairs; a
        gene belongs to a searched segment when one of its exons has a base in it, and then counts
        with its extent (introns included) """
    segments = _segments(length, area)
    per_segment = []
    for lo, hi in segments:
        spans = [ext for exons, exts in genes if _touches(exons, lo, hi) for ext in exts if ext[0] < hi and ext[1] > lo]
        per_segment.append(R.gaps_between(lo, hi, spans, allowance))
    windows = []
    if len(segments) == 2 and per_segment[0] and per_segment[1] \
            and per_segment[0][-1][1] == length and per_segment[1][0][0] == 0:
        before = per_segment[0].pop()
        after = per_segment[1].pop(0)
        short_side = (before[1] - before[0] < minimum) or (after[1] - after[0] < minimum)
        windows.append((before[0] - length, (length - before[0]) + after[1], {"through_origin": True,
                                                                             "short_side": short_side}))
    for gaps in per_segment:
        windows.extend((s, e - s, {"through_origin": False, "short_side": False}) for s, e in gaps)
    return [w for w in windows if w[1] >= minimum], segments


def longest_run_inside(reading, gene_bases):
    """ longest stretch of consecutive ORF bases that lie in the gene: the overlap at one end of the ORF
        (an ORF on a small ring may touch the same gene with both ends) or the whole ORF if inside """
    best = run = 0
    for position in reading:
        run = run + 1 if position in gene_bases else 0
        best = max(best, run)
    return best


def evaluate_find(ctx, case):
    """ one call of the real find_all_orfs on a generated layout; returns True when the reference
        expects at least one ORF """
    seq = case["seq"]
    length = len(seq)
    circular = case["circular"]
    minimum = case["min_length"]
    allowance = case["max_overlap"]
    area = case["area"]
    genes = [([tuple(p) for p in g["parts"]], g["strand"]) for g in case["genes"]]

    record = DummyRecord(seq=seq, circular=circular)
    for i, (parts, strand) in enumerate(genes):
        record.add_cds_feature(DummyCDS(location=_mk_location(parts, strand), translation="M", locus_tag=f"g{i}"))
    area_feature = None
    if area is not None:
        area_feature = DummySubRegion(area[0], area[1], record_length=length)
        if (area[0] + area[1] + len(genes)) % 2 == 0:
            # the searched area is one of the record's own (as the protoclusters the RiPP modules search): it then
            # knows the genes it contains, which are not all the genes that reach into it
            record.add_subregion(area_feature)
            ctx.count("class:searched-area-belongs-to-the-record")

    extents_per_gene = [gene_extents(parts, strand, length) for parts, strand in genes]
    gene_info = [(parts, exts) for (parts, _), (exts, _) in zip(genes, extents_per_gene)]
    windows, segments = reference_windows(length, gene_info, area, minimum, allowance)
    in_scope = [any(_touches(parts, lo, hi) for lo, hi in segments) for parts, _ in gene_info]
    scope = [ext for (exts, _), inside in zip(extents_per_gene, in_scope) if inside for ext in exts]
    origin_gene_in_scope = any(spanning and inside for (_, spanning), inside in zip(extents_per_gene, in_scope))
    nested = any(_contains_end_of_other(ext, scope) for ext in scope)
    short_gene = any(inside and sum(e - s for s, e in exts) <= 2 * allowance
                     for (exts, _), inside in zip(extents_per_gene, in_scope))
    area_kind = "none" if area is None else ("simple" if area[0] < area[1] else "origin-spanning")
    base = {"L": length, "circular": circular, "area": area_kind, "minimum_length": minimum,
            "max_overlap": allowance, "genes": len(genes), "origin_spanning_gene_in_scope": origin_gene_in_scope,
            "gene_ends_inside_earlier_starting_gene": nested}

    # what the reference expects
    expected: dict = {}
    for offset, wlen, notes in windows:
        positions = R.window_positions(offset, wlen, length)
        chunk = "".join(seq[p] for p in positions)
        if notes["through_origin"]:
            ctx.count("layout:gap-through-origin")
        for direction in (1, -1):
            scanned = chunk if direction == 1 else R.revcomp(chunk)
            for start, end in R.orfs_of(scanned, minimum):
                if direction == 1:
                    reading = [positions[i] for i in range(start, end)]
                else:
                    reading = [positions[wlen - 1 - i] for i in range(start, end)]
                key = (frozenset(reading), direction)
                entry = expected.setdefault(key, {"nuc": scanned[start:end].upper(), "count": 0, "notes": notes,
                                                  "wraps": any(reading[i + 1] - reading[i] != direction
                                                               for i in range(len(reading) - 1))})
                entry["count"] += 1

    ctx.count("op:find_all_orfs")
    ctx.count("area:" + area_kind)
    try:
        features = find_all_orfs(record, area_feature, min_length=minimum, max_overlap=allowance)
    except Exception as err:  # pylint: disable=broad-except
        frames = traceback.extract_tb(err.__traceback__)
        near_origin = any(e - s <= allowance and (e <= allowance or s >= length - allowance) for s, e in scope)
        ctx.violate("find-crash", dict(base, exception=type(err).__name__, message=str(err)[:200],
                                       raised_in=frames[-1].name, short_gene_next_to_origin=near_origin), case)
        return bool(expected)

    decide_gaps = not short_gene
    if short_gene:
        # the gaps on both sides of such a gene, each widened by the allowance, run into each other:
        # which stretches are "the gaps" is not fixed by the property; only per-ORF clauses are decided
        ctx.count("unspecified:gene-not-longer-than-twice-allowance")

    area_bases = None
    if area is not None:
        area_bases = set()
        for lo, hi in segments:
            area_bases.update(range(lo, hi))
    # exon bases decide an overlap; extents (with introns) only say where gaps are
    extent_sets = [(set().union(*(range(s, e) for s, e in parts)), exts, spanning)
                   for (parts, _), (exts, spanning) in zip(genes, extents_per_gene)]

    seen: dict = {}
    reaches_k3: dict = {}
    within_allowance = False
    for feature in features:
        loc = feature.location
        parts = _loc_parts(loc)
        strand = loc.strand
        facts = dict(base, location=str(loc), strand=strand)
        if strand not in (1, -1) or {p.strand for p in loc.parts} != {strand} or len(parts) > 2 \
                or any(not 0 <= s < e <= length for s, e in parts) \
                or (len(parts) == 2 and (sorted(parts)[0][0] != 0 or sorted(parts)[1][1] != length)):
            ctx.violate("find-illformed-location", facts, case)
            continue
        reading = R.read_positions(parts, strand)
        bases = frozenset(reading)
        as_reported = R.read_sequence(seq, parts, strand).upper()
        wraps = len(parts) > 1
        facts.update(orf_len=len(bases), orf_wraps=wraps)
        key = (bases, strand)
        seen[key] = seen.get(key, 0) + 1

        # per-gene facts; overlap is measured along the ring (the reported part order may be wrong)
        if wraps:
            along = [p for part in sorted(parts, reverse=True) for p in range(*part)]
        else:
            along = sorted(bases)
        into_origin_gene = False
        into_k3_gene = False
        for gene_bases, exts, spanning in extent_sets:
            if any(s <= p < e for s, e in exts for p in (along[0], along[-1])) or bases & gene_bases:
                # reaches into the gene's extent (exon or intron)
                into_origin_gene = into_origin_gene or spanning
                into_k3_gene = into_k3_gene or ((not spanning) and _contains_end_of_other(tuple(exts[0]), scope))
            if not bases & gene_bases:
                continue
            shared = longest_run_inside(along, gene_bases)
            contains_later_end = (not spanning) and _contains_end_of_other(tuple(exts[0]), scope)
            if shared <= allowance:
                within_allowance = True
            else:
                ctx.violate("find-overlap-exceeds-allowance",
                            dict(facts, overlap=shared, gene_extents=exts, overlapped_gene_spans_origin=spanning,
                                 overlapped_gene_contains_later_gene_end=contains_later_end), case)
        reaches_k3[key] = into_k3_gene
        if area_bases is not None and not bases <= area_bases:
            ctx.violate("find-outside-area", dict(facts, outside=len(bases - area_bases)), case)
        if len(bases) < minimum:
            ctx.violate("find-shorter-than-minimum", facts, case)

        # is it an ORF, and one of the expected ones?
        ref = expected.get(key)
        if ref is not None:
            if as_reported != ref["nuc"]:
                ctx.violate("find-extract-mismatch", dict(facts, read=as_reported[:60], orf=ref["nuc"][:60],
                                                          **_part_order_facts(seq, parts, strand, ref["nuc"])), case)
        else:
            reason = R.is_orf(as_reported)
            if reason is not None and wraps:
                swapped = R.read_sequence(seq, parts[::-1], strand).upper()
                if R.is_orf(swapped) is None:
                    ctx.violate("find-extract-mismatch", dict(facts, read=as_reported[:60], orf=swapped[:60],
                                                              **_part_order_facts(seq, parts, strand, swapped)), case)
                    reason = None
            if reason is not None:
                ctx.violate("find-not-an-orf", dict(facts, reason=reason, read=as_reported[:60]), case)
            elif decide_gaps:
                longer = [k for k in expected if k[1] == strand and bases < k[0]]
                ctx.violate("find-unexpected-orf",
                            dict(facts, read=as_reported[:60],
                                 reaches_into_origin_spanning_gene=into_origin_gene,
                                 reaches_into_gene_containing_later_gene_end=into_k3_gene,
                                 cut_from_orf_of_origin_gap_with_side_below_minimum=any(
                                     expected[k]["notes"]["through_origin"] and expected[k]["notes"]["short_side"]
                                     for k in longer)), case)

        # translation of the location as reported (whatever it reads), first residue M
        ctx.count("op:translation")
        protein = R.translate_until_stop(as_reported) or R.translate(as_reported)
        want = "M" + protein[1:]
        if feature.translation != want:
            ctx.violate("find-translation-mismatch", dict(facts, translation=feature.translation[:40],
                                                          expected=want[:40], read=as_reported[:60]), case)
        ctx.count("op:biopython_extract")
        try:
            bio = str(loc.extract(Seq(seq))).upper()
        except Exception as err:  # pylint: disable=broad-except
            bio = f"<{type(err).__name__}>"
        if bio != as_reported:
            ctx.violate("find-biopython-extract-mismatch", dict(facts, read=bio[:60], own=as_reported[:60]), case)
    if within_allowance:
        ctx.count("layout:orf-overlaps-gene-within-allowance")

    for key, ref in expected.items():
        bases, strand = key
        if key in seen:
            if seen[key] > 1:
                # the property does not forbid reporting an ORF once per (overlapping) gap it lies in
                ctx.count("observed:same-orf-returned-twice" if seen[key] > ref["count"]
                          else "observed:orf-in-two-overlapping-gaps")
            continue
        if not decide_gaps:
            continue
        longer = [k for k in seen if k[1] == strand and bases < k[0]]
        ctx.violate("find-missing-orf",
                    dict(base, strand=strand, orf_len=len(bases), orf_wraps=ref["wraps"],
                         orf=[min(bases), max(bases) + 1] if not ref["wraps"] else "wrapped",
                         gap_through_origin=ref["notes"]["through_origin"],
                         gap_side_shorter_than_minimum=ref["notes"]["short_side"],
                         longer_version_reported=bool(longer),
                         longer_version_reaches_into_gene_containing_later_gene_end=any(reaches_k3.get(k)
                                                                                         for k in longer)), case)
    return bool(expected)


def gen_find_case(rng):
    length = rng.choice([60, 90, 120, 150, 200, 240, 300, 420])
    if rng.random() < 0.3:
        length += rng.randrange(0, 3)
    circular = rng.random() < 0.6
    # no X here: Biopython refuses to translate it, and find_all_orfs translates what it finds
    seq, _ = gen_dna(rng, length, style=rng.choice(["upper"] * 5 + ["lower", "ambiguous"]), ambiguous=_AMBIGUOUS[:-1])
    allowance = rng.choice([0, 3, 10, 10, 10, 25])
    grid = rng.choice([1, 1, 3, 5, 10])

    def snap(x):
        return max(0, min(length, (x // grid) * grid))

    genes: list = []
    taken = set()

    def add(parts, strand):
        parts = [(s, e) for s, e in parts if e > s]
        if not parts or any(not 0 <= s < e <= length for s, e in parts):
            return
        key = (tuple(parts), strand)
        if key in taken:
            return
        taken.add(key)
        genes.append({"parts": [list(p) for p in parts], "strand": strand})

    count = rng.choice([0, 1, 1, 2, 2, 3, 3, 4, 5, 6])
    previous = None
    for _ in range(count):
        strand = rng.choice([1, -1])
        kind = rng.choice(["plain", "plain", "plain", "plain", "at-start", "at-end", "nested", "tail", "tail",
                           "two-exon", "origin", "origin"] + (["short"] if rng.random() < 0.3 else []))
        if kind in ("nested", "tail") and previous is None:
            kind = "plain"
        if kind == "origin" and (not circular or any(len(g["parts"]) > 1 and g.get("origin") for g in genes)):
            kind = "plain"
        if kind == "plain":
            size = rng.randrange(2 * allowance + 6, max(2 * allowance + 7, length // 3))
            start = snap(rng.randrange(0, max(1, length - size)))
            span = (start, min(length, start + size))
            add([span], strand)
        elif kind == "short":
            size = rng.randrange(3, max(4, 2 * allowance + 2))
            start = snap(rng.randrange(0, max(1, length - size)))
            span = (start, min(length, start + size))
            add([span], strand)
        elif kind == "at-start":
            span = (0, snap(rng.randrange(6, max(7, length // 3))) or 6)
            add([span], strand)
        elif kind == "at-end":
            span = (snap(rng.randrange(length - length // 3, length - 6)), length)
            add([span], strand)
        elif kind == "nested":
            s, e = previous
            if e - s < 8:
                continue
            a = rng.randrange(s, e - 3)
            b = rng.choice([e, e - 1, rng.randrange(a + 3, e + 1), max(a + 3, e - rng.randrange(0, allowance + 2))])
            span = (a, min(e, max(a + 3, b)))
            add([span], strand)
            span = previous
        elif kind == "tail":
            s, e = previous
            lap = rng.choice([allowance - 1, allowance, allowance + 1, 1, 2 * allowance, 2 * allowance + 1, 0, -3])
            a = max(0, e - lap)
            span = (a, min(length, a + rng.randrange(6, 60)))
            add([span], strand)
        elif kind == "two-exon":
            size = rng.randrange(20, max(21, length // 3))
            start = snap(rng.randrange(0, max(1, length - size)))
            end = min(length, start + size)
            cut_a = rng.randrange(start + 3, end - 8) if end - start > 14 else None
            if cut_a is None:
                continue
            cut_b = rng.randrange(cut_a + 1, end - 3)
            parts = [(start, cut_a), (cut_b, end)]
            add(parts if strand == 1 else parts[::-1], strand)
            span = (start, end)
        else:  # origin-spanning
            before = rng.choice([1, 3, allowance or 2, rng.randrange(4, max(5, length // 5))])
            after = rng.choice([1, 3, allowance or 2, rng.randrange(4, max(5, length // 5))])
            parts = [(length - before, length), (0, after)]
            # further exons on one or both sides of the origin (the gene's extent reaches to the outermost ones)
            if rng.random() < 0.4 and length >= 90:
                if rng.random() < 0.6:
                    far = length - before - rng.randrange(4, max(5, length // 6))
                    parts.insert(0, (max(after + 12, far - rng.randrange(6, max(7, length // 6))), far))
                if rng.random() < 0.6 and parts[0][0] - after > 30:
                    near = after + rng.randrange(4, max(5, length // 8))
                    parts.append((near, min(parts[0][0] - 8, near + rng.randrange(6, max(7, length // 6)))))
            before_count = len(genes)
            add(parts if strand == 1 else parts[::-1], strand)
            if len(genes) == before_count:
                continue
            genes[-1]["origin"] = True
            span = (0, max(e for s, e in parts if s < length // 2))
        previous = span

    # area
    roll = rng.random()
    area = None
    if roll < 0.35:
        area = None
    elif roll < 0.7 or not circular:
        a = rng.choice([0, snap(rng.randrange(0, length // 2))])
        b = rng.choice([length, snap(rng.randrange(a + 12, length + 1)) if a + 12 < length else length])
        if genes and rng.random() < 0.3:
            gs = [p for g in genes for p in g["parts"]]
            a = min(a, rng.choice(gs)[0])
        if b - a >= 6:
            area = [a, b]
    else:
        b = rng.choice([3, allowance + 1, rng.randrange(6, length // 2)])
        a = rng.choice([length - 3, length - allowance - 1, rng.randrange(length // 2 + 1, length - 6)])
        if 0 < b < a < length:
            area = [a, b]

    # minimum length: fixed, or the exact length of an ORF of the intergenic space
    minimum = rng.choice([0, 0, 6, 9, 15, 30, 60])
    how = "fixed"
    if rng.random() < 0.45:
        info = [([tuple(p) for p in g["parts"]], gene_extents([tuple(p) for p in g["parts"]], g["strand"], length)[0])
                for g in genes]
        windows, _ = reference_windows(length, info, area, 0, allowance)
        lengths = []
        for offset, wlen, _notes in windows:
            chunk = "".join(seq[p] for p in R.window_positions(offset, wlen, length))
            lengths.extend(e - s for text in (chunk, R.revcomp(chunk)) for s, e in R.orfs_of(text))
        if lengths:
            delta = rng.choice([0, 0, 1, -1])
            minimum = rng.choice(lengths) + delta
            how = {0: "exact", 1: "exact+1", -1: "exact-1"}[delta]
    for g in genes:
        g.pop("origin", None)
    return {"op": "find", "seq": seq, "circular": circular, "genes": genes, "area": area,
            "min_length": minimum, "max_overlap": allowance}, how


def ranges_beside_a_section_of_an_origin_gene(case):
    """ the same record searched in a range that begins just after the section of an origin-crossing gene lying after
        the origin (or ends just before its section lying before the origin): that section is wholly outside the
        range. Every fourth such case, chosen from the case itself. """
    length = len(case["seq"])
    if not case["circular"] or zlib.crc32(json.dumps(case, sort_keys=True).encode()) % 4:
        return
    for gene in case["genes"]:
        parts = [tuple(p) for p in gene["parts"]]
        after = [p for p in parts if p[0] == 0]
        before = [p for p in parts if p[1] == length]
        if not after or not before or len(parts) < 2:
            continue
        step = (0, 1, 3, case["max_overlap"])[zlib.crc32(str(parts).encode()) % 4]
        begin = after[0][1] + step
        # (with an allowance reaching from the section left out into the range, and with the case's own)
        if begin + 12 < length:
            yield dict(case, area=[begin, length])
            yield dict(case, area=[begin, length], max_overlap=begin + 21)
        end = before[0][0] - step
        if end > 12:
            yield dict(case, area=[0, end])
            yield dict(case, area=[0, end], max_overlap=length - end + 21)
        return


def run_find_case(ctx, case, how=None):
    length = len(case["seq"])
    extents = []
    for g in case["genes"]:
        exts, spanning = gene_extents([tuple(p) for p in g["parts"]], g["strand"], length)
        extents.extend(exts)
        if spanning:
            ctx.count("layout:origin-spanning-gene")
        if any(s == 0 or e == length for s, e in exts):
            ctx.count("layout:gene-at-record-end")
    ordered = sorted(extents)
    if any(ordered[i + 1][0] < max(e for _, e in ordered[:i + 1]) for i in range(len(ordered) - 1)):
        ctx.count("layout:overlapping-genes")
    if how and how != "fixed":
        ctx.count("minimum:find-" + how)
    try:
        nontrivial = evaluate_find(ctx, case)
    except Exception as err:  # pylint: disable=broad-except
        import traceback
        ctx.notes.append("harness error in evaluate_find: " + traceback.format_exc()[-600:])
        ctx.count("harness-error")
        ctx.violate("harness-error", {"exception": type(err).__name__, "message": str(err)[:200]}, case)
        nontrivial = False
    ctx.case(("find", case), nontrivial=bool(nontrivial), sample={k: v for k, v in case.items()} if nontrivial else None)


# ---------------------------------------------------------------------------
# directed cases: the literal situations the property names
# ---------------------------------------------------------------------------

def directed(ctx):
    orf = "ATGAAACCCGGGTAA"  # 15 nt
    for filler in ("C", "c", "N"):
        for lead in range(0, 4):
            for trail in range(0, 4):
                window = filler * lead + (orf if filler != "c" else orf.lower()) + filler * trail
                for direction in (1, -1):
                    chunk = window if direction == 1 else R.revcomp(window)
                    n = len(chunk)
                    for length, offset in ((n + 5, 2), (n + 5, 0), (n + 5, 5), (n + 5, -lead - 7), (n + 5, n - 1),
                                           (n, 0), (n + 1, -1), (n + 1, 1)):
                        record = _record_for(chunk, offset, length)
                        for minimum in (0, 14, 15, 16):
                            case = {"op": "scan", "record": record, "offset": offset, "wlen": n,
                                    "direction": direction, "minimum_length": minimum, "pass_record_length": True}
                            run_scan_case(ctx, case, style="lower" if filler == "c" else None,
                                          how={14: "exact-1", 15: "exact", 16: "exact+1"}.get(minimum, "fixed"),
                                          has_orf=True)


# ---------------------------------------------------------------------------
# entry points
# ---------------------------------------------------------------------------

def run(ctx):
    if ctx.worker == 0:
        directed(ctx)
    if ctx.tier == "quick":
        exhaustive(ctx, 7, extra_orf_lengths=(8, 9))
        ctx.extra["exhaustive_part"] = "all ACGT strings of length 0..7, plus all strings of length 8/9 built around a 6/9 nt ORF"
    else:
        exhaustive(ctx, 9)
        ctx.extra["exhaustive_part"] = "all ACGT strings of length 0..9 (split over workers by index)"
    rng = ctx.rng("scan")
    for _ in ctx.cases(ctx.quota(12000, 1200000)):
        case, style, how, has_orf = gen_scan_case(rng)
        run_scan_case(ctx, case, style, how, has_orf)
    rng = ctx.rng("find")
    for _ in ctx.cases(ctx.quota(6000, 400000)):
        case, how = gen_find_case(rng)
        run_find_case(ctx, case, how)
        for variant in ranges_beside_a_section_of_an_origin_gene(case):
            ctx.count("class:range-leaves-out-one-section-of-an-origin-gene")
            run_find_case(ctx, variant, None)


def replay(ctx, case):
    if case.get("op") == "scan":
        run_scan_case(ctx, case)
    elif case.get("op") == "find":
        run_find_case(ctx, case)
    else:
        print("unknown case", case)
