"""C07 Detection is invariant under origin rotation and rule order.

Metamorphic monitor over executions of the real pipeline (detect_protoclusters_and_signatures ->
add_protocluster -> create_candidate_clusters -> create_regions):
 (R) a circular world vs the same world re-indexed by k (every gene shifted, genes cut by the new origin
     become two-part locations): coordinate-free outcomes (gene names) must be equal whenever every region
     of both runs spans less than half the record;
 (O) the same world with its ruleset permuted or sub-selected: every rule present in both must report the
     same protoclusters (core, extent), unless one of its superiors is present in only one ruleset.
"""
from __future__ import annotations

import itertools

from antismash.common.hmm_rule_parser import cluster_prediction as CP

from vf import core, findings, instrument
from vf.checks import c03
from vf.gen import locs as G
from vf.gen import worlds as W
from vf.models import ring

PROPERTY = "C07"
LEVEL = "exploration"
PARALLEL = True
RULE = ("C03 worlds (circular only for rotation): each world is run at 4 (quick) / 8 (thorough) rotations chosen to "
        "cut through a gene, a protocluster core, a neighbourhood and empty space, plus k=1 and k=L-1; and with all "
        "permutations of <= 4 rules (6 random otherwise) and every leave-one-out sub-selection. Non-trivial: the "
        "rotation cuts a gene, core or neighbourhood of a world with >= 1 protocluster, or the ruleset has >= 2 rules "
        "with >= 1 protocluster; distinct by (world, transformation).")
ASSUMPTIONS = [
    "Rotation comparisons are made only when every region of both runs spans less than half the record (as the "
    "property states); other runs are counted as skipped.",
    "Outcomes are compared coordinate-free: anchoring genes per rule, protoclusters as (product, genes inside the "
    "core, member genes), candidate clusters as (kind, member products, genes), regions as gene sets.",
    "Rulesets are permuted after parsing (the grammar requires superiors to be defined first).",
]
REQUIRED = ["op:rotation-compare", "op:order-compare", "op:subset-compare", "cut:gene", "cut:core", "cut:neighbourhood",
            "cut:empty", "rotation:with-protoclusters", "order:with-protoclusters", "op:shipped-selection-in-history"]


def rotate_world(world, k: int):
    length = world["L"]
    out = dict(world)
    genes = {}
    for name, gene in world["genes"].items():
        parts = []
        for s, e in gene["loc"]["parts"]:
            n = e - s
            s2 = (s - k) % length
            if s2 + n <= length:
                pieces = [[s2, s2 + n]]
            else:
                pieces = [[s2, length], [0, s2 + n - length]]
            for piece in pieces:
                if parts and parts[-1][1] == piece[0]:
                    parts[-1][1] = piece[1]
                else:
                    parts.append(piece)
        genes[name] = {"loc": {"parts": parts, "strand": gene["loc"]["strand"]}}
    out["genes"] = genes
    out["rotation"] = k
    return out


def run_pipeline(world, order=None):
    """ returns (outcome dict, results, record) or raises """
    W.quiet()
    c03.CAP.reset()
    record = W.build_record(world)
    ruleset = W.build_ruleset(world, order=order)
    results = CP.detect_protoclusters_and_signatures(record, ruleset)
    results.annotate_cds_features()
    for proto in results.protoclusters:
        record.add_protocluster(proto)
    record.create_candidate_clusters()
    record.create_regions()
    return results, record


def outcome(world, results, record):
    length = world["L"]
    wrap = length if world["circular"] else None
    genes = {c.get_name(): c.location for c in record.get_cds_features()}

    def inside(loc):
        ivs = ring.parts_of(loc)
        return sorted(g for g, gl in genes.items() if ring.covers(ivs, ring.parts_of(gl)))
    out = {
        "anchors": {rule: sorted(v) for rule, v in sorted((c03.CAP.anchors or {}).items()) if v},
        "protoclusters": sorted([p.product, inside(p.core_location), sorted(c.get_name() for c in p.cds_children)]
                                for p in record.get_protoclusters()),
        "candidates": sorted([str(c.kind), sorted(p.product for p in c.protoclusters),
                              sorted(g.get_name() for g in c.cds_children)] for c in record.get_candidate_clusters()),
        "regions": sorted(sorted(g.get_name() for g in r.cds_children) for r in record.get_regions()),
    }
    spans = [ring.total_len(ring.span(r.location, wrap)) for r in record.get_regions()]
    big = any(2 * s >= length for s in spans)
    # a protocluster that only existed between the stages (removed as inferior afterwards) with a core of at least
    # half the record: the structural fact of known finding C07-K1 (the mechanism of C03-K3 seen through rotation)
    staged = [p for stage in (c03.CAP.post_ext, c03.CAP.pre_removal) for p in (stage or [])]
    final_ids = {id(p) for p in (c03.CAP.final or [])}
    out["_intermediate_core_spans_half_record"] = bool(wrap) and any(
        id(p) not in final_ids and 2 * ring.total_len(ring.span(p.core_location, wrap)) >= length for p in staged)
    del results
    return out, big


def per_rule_protoclusters(results):
    per = {}
    for p in results.protoclusters:
        per.setdefault(p.product, []).append([str(p.core_location), str(p.location)])
    return {k: sorted(v) for k, v in per.items()}


def choose_rotations(rng, world, record, count):
    length = world["L"]
    picks = []
    genes = list(world["genes"].values())

    def inside_interval(ivs):
        s, e = rng.choice(ivs)
        return rng.randrange(s, e) if e - s > 1 else s
    if genes:
        g = rng.choice(genes)
        ivs = [p for p in g["loc"]["parts"] if p[1] - p[0] > 1]
        if ivs:
            picks.append(("gene", inside_interval(ivs) + 1))
    protos = record.get_protoclusters() if record is not None else []
    if protos:
        p = rng.choice(protos)
        picks.append(("core", inside_interval(ring.parts_of(p.core_location))))
        extent = ring.normalise(ring.parts_of(p.location))
        core = ring.normalise(ring.parts_of(p.core_location))
        nb = [(s, e) for s, e in extent]
        # bases of the extent outside the core
        outside = []
        for s, e in nb:
            cur = s
            for cs, ce in core:
                if ce <= cur or cs >= e:
                    continue
                if cs > cur:
                    outside.append((cur, cs))
                cur = max(cur, ce)
            if cur < e:
                outside.append((cur, e))
        if outside:
            picks.append(("neighbourhood", inside_interval(outside)))
    # empty space: a base covered by no gene
    occupied = ring.normalise([tuple(p) for g in genes for p in g["loc"]["parts"]])
    free = []
    cur = 0
    for s, e in occupied:
        if s > cur:
            free.append((cur, s))
        cur = max(cur, e)
    if cur < length:
        free.append((cur, length))
    free = [(s, e) for s, e in free if e - s > 2]
    if free:
        picks.append(("empty", inside_interval(free)))
    picks.extend([("edge", 1), ("edge", length - 1), ("half", length // 2)])
    rng.shuffle(picks)
    # keep one of each named class first
    ordered = []
    for cls in ("gene", "core", "neighbourhood", "empty"):
        for p in picks:
            if p[0] == cls:
                ordered.append(p)
                break
    ordered += [p for p in picks if p not in ordered]
    return [(cls, k % length) for cls, k in ordered if 0 < k % length][:count]


def classify_cut(world, record, k):
    classes = set()
    for g in world["genes"].values():
        for s, e in g["loc"]["parts"]:
            if s < k < e:
                classes.add("gene")
    for p in record.get_protoclusters():
        if any(s < k < e for s, e in ring.parts_of(p.core_location)):
            classes.add("core")
        elif any(s < k < e for s, e in ring.parts_of(p.location)):
            classes.add("neighbourhood")
    return classes or {"empty"}


def run_world(ctx, world, index):
    rng = ctx.rng("transform", index)
    try:
        base_results, base_record = run_pipeline(world)
    except Exception as err:  # pylint: disable=broad-except
        ctx.count("base-run-raised:" + type(err).__name__)
        ctx.violate("pipeline-crash", {**core.crash_facts(err), "transform": "none",
                                       "circular": world["circular"]}, world)
        return
    base_out, base_big = outcome(world, base_results, base_record)
    n_protos = len(base_record.get_protoclusters())
    # ---- (R) rotations ---------------------------------------------------------------
    if world["circular"]:
        n_rot = 4 if ctx.tier == "quick" else 8
        for cls, k in choose_rotations(rng, world, base_record, n_rot):
            rotated = rotate_world(world, k)
            cuts = classify_cut(world, base_record, k)
            try:
                rot_results, rot_record = run_pipeline(rotated)
            except Exception as err:  # pylint: disable=broad-except
                ctx.violate("pipeline-crash", {**core.crash_facts(err),
                                               "transform": "rotation", "k": k, "cuts": sorted(cuts)}, rotated)
                continue
            rot_out, rot_big = outcome(rotated, rot_results, rot_record)
            if base_big or rot_big:
                ctx.count("skipped:region-spans-half-the-record")
                continue
            ctx.count("op:rotation-compare")
            for c in cuts:
                ctx.count("cut:" + c)
            if n_protos:
                ctx.count("rotation:with-protoclusters")
            ctx.case(("rot", world, k), nontrivial=bool(n_protos) and bool(cuts - {"empty"}),
                     sample={"world": world, "rotation": k, "cuts": sorted(cuts)} if n_protos else None)
            for level in ("anchors", "protoclusters", "candidates", "regions"):
                if base_out[level] != rot_out[level]:
                    ctx.violate("rotation-changes-" + level,
                                {"k": k, "cuts": sorted(cuts), "L": world["L"], "base": base_out[level], "rotated": rot_out[level],
                                 "n_protoclusters": n_protos,
                                 "intermediate_core_spans_half_record": base_out["_intermediate_core_spans_half_record"]
                                 or rot_out["_intermediate_core_spans_half_record"],
                                 "any_gene_cut": "gene" in cuts}, {"world": world, "rotation": k})
                    break
    # ---- (O) rule order and sub-selection -----------------------------------------------
    names = [r["name"] for r in world["rules"]]
    if len(names) >= 2:
        base_per_rule = per_rule_protoclusters(base_results)
        perms = list(itertools.permutations(names))
        if len(names) > 4:
            perms = [tuple(rng.sample(names, len(names))) for _ in range(6)]
        else:
            perms = [p for p in perms if list(p) != names]
            rng.shuffle(perms)
            perms = perms[:6 if ctx.tier == "quick" else 24]
        superiors = {r["name"]: set(r["superiors"]) for r in world["rules"]}
        for order in perms:
            try:
                res, _rec = run_pipeline(world, order=list(order))
            except Exception as err:  # pylint: disable=broad-except
                ctx.violate("pipeline-crash", {**core.crash_facts(err),
                                               "transform": "permutation", "order": list(order)}, world)
                continue
            ctx.count("op:order-compare")
            if n_protos:
                ctx.count("order:with-protoclusters")
            ctx.case(("perm", world, order), nontrivial=bool(n_protos))
            per = per_rule_protoclusters(res)
            for name in names:
                if per.get(name, []) != base_per_rule.get(name, []):
                    ctx.violate("rule-order-changes-protoclusters",
                                {"rule": name, "order": list(order), "base_order": names, "base": base_per_rule.get(name, []),
                                 "permuted": per.get(name, []), "cutoffs_in_order": [r["cutoff_kb"] for r in world["rules"]]},
                                {"world": world, "order": list(order)})
        for dropped in names:
            subset = [n for n in names if n != dropped]
            try:
                res, _rec = run_pipeline(world, order=subset)
            except Exception as err:  # pylint: disable=broad-except
                ctx.violate("pipeline-crash", {**core.crash_facts(err),
                                               "transform": "subset", "dropped": dropped}, world)
                continue
            ctx.count("op:subset-compare")
            per = per_rule_protoclusters(res)
            for name in subset:
                if dropped in superiors[name]:
                    ctx.count("exempt:superior-dropped")
                    continue
                if per.get(name, []) != base_per_rule.get(name, []):
                    ctx.violate("sub-selection-changes-protoclusters",
                                {"rule": name, "dropped": dropped, "base": base_per_rule.get(name, []),
                                 "subset": per.get(name, [])}, {"world": world, "order": subset})


def _ruleset_view(ruleset):
    return {"rules": [(r.name, r.category, r.cutoff, r.neighbourhood) for r in ruleset.rules],
            "multipliers": (ruleset.multipliers.cutoff, ruleset.multipliers.neighbourhood)}


def shipped_selection_history(ctx, rng):
    """ the shipped rules through the real get_ruleset, asked for a series of selections in one process (as
        library use and the reuse checks do): every answer must be the one a fresh process gives for the same
        options, and must hold exactly the rules of that strictness selected by name and category """
    from types import SimpleNamespace
    from antismash.detection import hmm_detection

    def options(strictness="relaxed", names=(), categories=(), taxon="bacteria", cmul=1.0, nmul=1.0):
        return SimpleNamespace(hmmdetection_strictness=strictness, hmmdetection_limit_to_rules=list(names),
                               hmmdetection_limit_to_categories=list(categories), taxon=taxon,
                               hmmdetection_fungal_cutoff_multiplier=cmul,
                               hmmdetection_fungal_neighbourhood_multiplier=nmul)

    def fresh(opts):
        hmm_detection._RULESETS.clear()  # pylint: disable=protected-access
        view = _ruleset_view(hmm_detection.get_ruleset(opts))
        hmm_detection._RULESETS.clear()  # pylint: disable=protected-access
        return view

    full = {level: fresh(options(level)) for level in ("strict", "relaxed", "loose")}
    names_all = [r[0] for r in full["loose"]["rules"]]
    cats_all = sorted({r[1] for r in full["loose"]["rules"]})
    both = sorted(set(names_all) & set(cats_all))      # identifiers that are a rule name and a category
    pool = []
    for ident in both[:3]:
        pool += [dict(names=[ident]), dict(categories=[ident])]
    a, b = rng.sample(names_all, 2)
    cat = rng.choice(cats_all)
    pool += [dict(names=[a, b]), dict(names=[b, a]), dict(names=[a], categories=[cat]), dict(names=[a, cat]),
             dict(categories=[cat]), dict(), dict(strictness="strict"), dict(strictness="loose"),
             dict(strictness="strict", names=[a]), dict(strictness="loose", names=[a]),
             dict(taxon="fungi", nmul=1.5), dict(taxon="fungi", cmul=2.0, nmul=1.5, names=[a, b]),
             dict(taxon="fungi", cmul=1.0, nmul=1.0, categories=[cat])]
    sequence = pool + rng.sample(pool, len(pool))
    expected = {}
    for kwargs in pool:
        expected[repr(sorted(kwargs.items()))] = fresh(options(**kwargs))
    hmm_detection._RULESETS.clear()  # pylint: disable=protected-access
    try:
        for step, kwargs in enumerate(sequence):
            ctx.count("op:shipped-selection-in-history")
            opts = options(**kwargs)
            case = {"selection_history": [sorted(k.items()) for k in sequence[:step + 1]]}
            ok, ruleset = ctx.guard("get-ruleset-crash", case, hmm_detection.get_ruleset, opts)
            if not ok:
                return
            got = _ruleset_view(ruleset)
            want = expected[repr(sorted(kwargs.items()))]
            if got != want:
                ctx.violate("selection-answer-depends-on-earlier-requests",
                            {"step": step, "request": sorted(kwargs.items()),
                             "got_rules": [r[0] for r in got["rules"]][:12], "fresh_rules": [r[0] for r in want["rules"]][:12],
                             "got_n": len(got["rules"]), "fresh_n": len(want["rules"]),
                             "multipliers": [got["multipliers"], want["multipliers"]]}, case)
                return
            level = kwargs.get("strictness", "relaxed")
            names, cats = set(kwargs.get("names", ())), set(kwargs.get("categories", ()))
            selected = [r[0] for r in full[level]["rules"] if (not names or r[0] in names) and (not cats or r[1] in cats)]
            if [r[0] for r in got["rules"]] != selected:
                ctx.violate("selection-holds-exactly-the-selected-rules",
                            {"request": sorted(kwargs.items()), "got": [r[0] for r in got["rules"]][:12],
                             "expected": selected[:12]}, case)
                return
    finally:
        hmm_detection._RULESETS.clear()  # pylint: disable=protected-access


def run(ctx):
    if ctx.worker == 0:
        ctx.guard("harness-or-crash", {"selection_history": "setup"}, shipped_selection_history, ctx, ctx.rng("selection"))
    c03.install_stage_monitors(ctx)
    try:
        rng = ctx.rng("worlds")
        for i in ctx.cases(ctx.quota(700, 50000), every=4):
            world = W.gen_world(rng, circular=True if rng.random() < 0.8 else None, allow_multipliers=False,
                                 lengths=[12000, 30000, 60000, 100000], nb_choices=[1, 1, 2, 3, 5, 20])
            ctx.guard("harness-or-crash", world, run_world, ctx, world, i)
    finally:
        instrument.uninstall_all()


def replay(ctx, case):
    if "selection_history" in case:
        shipped_selection_history(ctx, ctx.rng("selection"))
        return
    c03.install_stage_monitors(ctx)
    try:
        world = case.get("world", case)
        run_world(ctx, world, 0)
    finally:
        instrument.uninstall_all()


@findings.classifier("c07_intermediate_core_spans_half_record")
def _c07_intermediate_half(clause, facts):
    """ the mechanism of C03-K3 seen through rotation: a chain / extended core of at least half a circular record gets
        the hull on the complementary side, which depends on where the origin lies; when that protocluster is itself
        removed as inferior, only the set of inferior protoclusters it swallowed shows the difference although
        every reported region is small. Must not hide: rotation dependence without such an intermediate
        protocluster in either run. """
    return clause in ("rotation-changes-protoclusters", "rotation-changes-candidates", "rotation-changes-regions") \
        and facts.get("intermediate_core_spans_half_record") is True


del G
