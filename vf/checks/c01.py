"""C01 Rule conditions evaluate to their documented boolean meaning.

A class-wide monitor on DetectionRule.detect evaluates the reference semantics (vf.models.rules_ref)
on exactly the arguments of each call: hit layout from results_by_id, gene positions from
feature_by_id, ring/line distance from circular_origin, the AST from a registry filled by the
generator (rule name -> AST the text was rendered from). The workload renders generated ASTs to
text, parses them with the real parser and calls detect for every gene carrying hits.
"""
from __future__ import annotations

import zlib

from antismash.common.hmm_rule_parser import rule_parser
from antismash.common.hmm_rule_parser.structures import ProfileHit
from antismash.common.secmet.test.helpers import DummyCDS

from vf import instrument
from vf.gen import locs as G
from vf.gen import rules as RG
from vf.models import ring
from vf.models import rules_ref as R

PROPERTY = "C01"
LEVEL = "exploration"
PARALLEL = True
RULE = ("condition ASTs of depth <= 4 over 7 profile names with every node kind (not/and/or/groups/cds/minimum/"
        "minscore; minscore and minimum only outside cds as in the documented grammar), rendered to text with "
        "minimal or redundant parentheses and parsed by the real parser; 1-9 genes per layout on a line or ring, "
        "gene-to-gene gaps drawn from {0, 1, cutoff-1, cutoff, cutoff+1, cutoff/2}, pairs in range only across "
        "the origin, origin-spanning genes, bitscores around the minscore thresholds, duplicate hits of a "
        "profile with different scores. Every gene with hits is evaluated. Non-trivial: >= 2 operators in the "
        "rule and a neighbour at distance within cutoff+-1; distinct by (rule text, layout).")
ASSUMPTIONS = [
    "The reference semantics is the module docstring read as in DESIGN.md C01 (multiplicity of minimum across "
    "genes; reasons survive negation).",
    "Distances come from the ring model on gene locations (nearest exons); genes are single-exon, two-part origin-spanning, or of 3-4 exons with another gene inside an intron.",
    "minscore inside cds(...) is outside the documented grammar and is not generated.",
]
REQUIRED = ["monitor:DetectionRule.detect", "op:met", "op:reasons", "boundary:distance==cutoff",
            "boundary:distance==cutoff-1", "boundary:in-range-only-across-origin", "node:cds", "node:min",
            "node:score", "node:not", "class:gene-inside-intron-of-a-gene-with-hits", "history:accessors-read-between-evaluations", "outcome:anchors", "outcome:met-without-reason", "outcome:not-met"]

REGISTRY: dict[str, list] = {}


def _node_kinds(ast, out):
    out.add(ast[0])
    if ast[0] in ("not", "cds"):
        _node_kinds(ast[1], out)
    elif ast[0] in ("and", "or"):
        for x in ast[1]:
            _node_kinds(x, out)
    return out


def _count_ops(ast) -> int:
    if ast[0] in ("not", "cds"):
        return 1 + _count_ops(ast[1])
    if ast[0] in ("and", "or"):
        return len(ast[1]) - 1 + sum(_count_ops(x) for x in ast[1])
    return 1 if ast[0] in ("min", "score") else 0


def oracle_detect(ctx, rule, cds_name, features, results, circular_origin, outcome, ast=None, case=None):
    ast = ast if ast is not None else REGISTRY.get(rule.name)
    if ast is None:
        ctx.count("skipped:rule-without-registered-ast")
        return
    wrap = circular_origin or None
    hits = {}
    for name, plist in results.items():
        per = {}
        for h in plist:
            per[h.query_id] = max(per.get(h.query_id, float("-inf")), h.bitscore)
        hits[name] = per
    me = features[cds_name].location
    nearby = {cds_name: []}
    boundary = set()
    for other, feat in features.items():
        if other == cds_name:
            continue
        dist = ring.distance(me, feat.location, wrap)
        if dist < rule.cutoff:
            nearby[cds_name].append(other)
            if wrap and ring.distance(me, feat.location, None) >= rule.cutoff:
                boundary.add("in-range-only-across-origin")
        if dist == rule.cutoff:
            boundary.add("distance==cutoff")
        elif dist == rule.cutoff - 1:
            boundary.add("distance==cutoff-1")
        elif dist == rule.cutoff + 1:
            boundary.add("distance==cutoff+1")
    for b in boundary:
        ctx.count("boundary:" + b)
    # the cds() clause evaluates neighbours locally: they need their own (empty) neighbour lists
    for other in nearby[cds_name]:
        nearby.setdefault(other, [])
    exp_met = R.evaluate(ast, cds_name, hits, nearby)
    exp_reasons = R.reasons(ast, cds_name, hits)
    ctx.count("op:met")
    if case is None:
        case = {"rule": RG.render(ast), "cutoff": rule.cutoff, "circular_origin": circular_origin, "gene": cds_name,
                "genes": {n: G.to_case(f.location) for n, f in features.items()}, "hits": hits}
    facts = {"rule": str(rule.conditions), "gene": cds_name, "wrap": wrap, "cutoff": rule.cutoff,
             "node_kinds": sorted(_node_kinds(ast, set())), "boundary": sorted(boundary),
             "nearby": sorted(nearby[cds_name])}
    if bool(outcome.met) != exp_met:
        ctx.violate("met-equals-documented-formula", dict(facts, got=bool(outcome.met), expected=exp_met), case)
        return boundary
    ctx.count("op:reasons")
    if set(outcome.matches) != exp_reasons:
        ctx.violate("reasons-are-own-hits-of-rule-profiles",
                    dict(facts, got=sorted(outcome.matches), expected=sorted(exp_reasons), met=exp_met), case)
    if exp_met and exp_reasons:
        ctx.count("outcome:anchors")
    elif exp_met:
        ctx.count("outcome:met-without-reason")
    else:
        ctx.count("outcome:not-met")
    return boundary


def install_detect_monitor(ctx):
    def post(self, args, kwargs, result):
        names = ["cds_name", "feature_by_id", "results_by_id", "circular_origin"]
        bound = dict(zip(names, args))
        bound.update(kwargs)
        oracle_detect(ctx, self, bound["cds_name"], bound["feature_by_id"], bound["results_by_id"],
                      bound.get("circular_origin"), result)
    instrument.monitor_method(rule_parser.DetectionRule, "detect", post, ctx)


def build_inputs(layout):
    feats = {}
    for name, g in layout["genes"].items():
        feats[name] = DummyCDS(location=G.from_case(g["loc"]), locus_tag=name)
    results = {}
    for name, hs in layout["hits"].items():
        if not hs:
            continue
        plist = []
        for prof, score in hs.items():
            plist.append(ProfileHit(name, prof, score, 1e-5))
            if isinstance(score, int) and score % 10 == 5 and score > 6:
                # a second, weaker hit of the same profile on the same gene (dynamic profiles may report several):
                # it lies on the other side of the minscore thresholds {10, 20, 30} and comes before or after the
                # stronger one (decided by a checksum of the names, so that a case replays identically)
                weaker = ProfileHit(name, prof, score - 6, 1e-3)
                if zlib.crc32(f"{name}/{prof}".encode()) % 2:
                    plist.append(weaker)
                else:
                    plist.insert(len(plist) - 1, weaker)
                if zlib.crc32(f"{prof}/{name}".encode()) % 3 == 0:
                    plist.append(ProfileHit(name, prof, 1, 1e-1))       # and a third, negligible one listed last
        results[name] = plist
    return feats, results


def run_case(ctx, case):
    ast = case["ast"]
    text = case["text"]
    cutoff_kb = case["cutoff_kb"]
    try:
        rules = rule_parser.Parser(f"RULE r CATEGORY cat CUTOFF {cutoff_kb} NEIGHBOURHOOD 1 CONDITIONS {text}",
                                   set(RG.PROFILES), {"cat"}).rules
    except (ValueError, SyntaxError) as err:
        msg = str(err)
        if "repeated" in msg or "positive" in msg:
            ctx.count("skipped:rejected-by-parser(repeated/all-negated)")
            return
        ctx.violate("generated-rule-rejected", {"message": msg[:200], "text": text}, case)
        return
    rule = rules[0]
    REGISTRY[rule.name] = ast
    for kind in _node_kinds(ast, set()):
        ctx.count("node:" + kind)
    layout = case["layout"]
    feats, results = build_inputs(layout)
    wrap = layout["L"] if layout["circular"] else 0
    near_boundary = False
    if "m0" in layout["genes"] and "m1" in layout["genes"] and (layout["hits"].get("m0") or layout["hits"].get("m1")):
        ctx.count("class:gene-inside-intron-of-a-gene-with-hits")
    for gene in sorted(results):
        # the name handed over is equal to the key of the gene, not the same object (names come from parsed tables)
        asked = gene[:1] + gene[1:]
        ok, res = ctx.guard("detect-crash", case, rule.detect, asked, feats, results, circular_origin=wrap)
        # the class-wide monitor has evaluated the oracle on this call
    # read-only use between evaluations (the pipeline reads the profiles of every rule to validate and to collect the
    # dynamic profiles, and renders rule texts for the outputs): the profiles are those written in the rule, and
    # the same rule object judges the same arrangement as before (the monitor evaluates the oracle on every call)
    if zlib.crc32(text.encode()) % 2 == 0:
        ok, got = ctx.guard("accessor-crash", case, lambda: (set(rule.conditions.profiles), rule.conditions.get_hit_string(),
                                                              rule.contains_positive_condition(), str(rule.conditions),
                                                              rule.reconstruct_rule_text()))
        if ok:
            ctx.count("history:accessors-read-between-evaluations")
            if got[0] != R.profiles(ast):
                ctx.violate("profiles-of-rule", {"got": sorted(got[0]), "expected": sorted(R.profiles(ast)), "text": text}, case)
            for gene in sorted(results):
                ctx.guard("detect-crash", case, rule.detect, gene, feats, results, circular_origin=wrap)
    # history: the same rule object meets other arrangements in which genes of the same names carry other hits (as
    # one ruleset meets every record of a run), then the first arrangement again; the monitor judges every call
    for other in case.get("later_layouts", []) + ([layout] if case.get("later_layouts") else []):
        ctx.count("history:same-rule-object-on-another-arrangement")
        feats2, results2 = build_inputs(other)
        wrap2 = other["L"] if other["circular"] else 0
        for gene in sorted(results2):
            ctx.guard("detect-crash", dict(case, layout=other), rule.detect, gene, feats2, results2, circular_origin=wrap2)
    # non-triviality from the layout
    genes = list(feats.values())
    for i, a in enumerate(genes):
        for b in genes[i + 1:]:
            d = ring.distance(a.location, b.location, wrap or None)
            if abs(d - rule.cutoff) <= 1:
                near_boundary = True
    ctx.case((text, cutoff_kb, layout), nontrivial=_count_ops(ast) >= 2 and near_boundary,
             sample={"rule": text, "cutoff": rule.cutoff, "layout": layout})


def gen_case(rng):
    ast = RG.gen_ast(rng, RG.PROFILES, rng.choice([1, 2, 3, 3, 4]))
    tries = 0
    while not R.has_positive(ast) and tries < 10:
        ast = RG.gen_ast(rng, RG.PROFILES, rng.choice([1, 2, 3]))
        tries += 1
    cutoff_kb = rng.choice([1, 2, 3])
    text = RG.render(ast, rng, extra_parens=rng.choice([0.0, 0.0, 0.3]))
    layout = RG.gen_hit_layout(rng, RG.PROFILES, [cutoff_kb * 1000])
    case = {"ast": ast, "text": text, "cutoff_kb": cutoff_kb, "layout": layout}
    if rng.random() < 0.3:
        # the same genes with the hits dealt out differently, and an unrelated arrangement with the same gene names
        shuffled = dict(layout, hits=dict(zip(layout["hits"], rng.sample(list(layout["hits"].values()), len(layout["hits"])))))
        case["later_layouts"] = [shuffled, RG.gen_hit_layout(rng, RG.PROFILES, [cutoff_kb * 1000])][:rng.choice([1, 2])]
    return case


def run(ctx):
    install_detect_monitor(ctx)
    try:
        rng = ctx.rng("cases")
        for _ in ctx.cases(ctx.quota(16000, 500000)):
            case = gen_case(rng)
            ctx.guard("harness-or-crash", case, run_case, ctx, case)
    finally:
        instrument.uninstall_all()


def replay(ctx, case):
    install_detect_monitor(ctx)
    try:
        if "ast" in case:
            run_case(ctx, case)
        else:
            print("case was observed through the monitor inside another workload:", case)
    finally:
        instrument.uninstall_all()
