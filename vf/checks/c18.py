"""C18 Parallel execution gives the sequential result, in order.

Offline check of a recorded history. The workload (real `parallel_function`, `parallel_execute`,
`pre_process_sequences`, `sanitise_sequence`, `ensure_cds_info`) runs in child processes
(`python -m vf.c18_workers plan history`), because `parallel_execute` calls `os.setpgid` and because
a misbehaving pool may hang: every child is started with a watchdog. Each task reports
(payload, pid, t_start, t_end) from CLOCK_MONOTONIC; this module reads the history and decides:
payload/order equality with the sequential run, canonical-dump equality for Records that crossed the
process boundary, failures surfacing as exceptions, and it records which completion orders occurred.
"""
from __future__ import annotations

import json
import os
import re
import shutil
import signal
import subprocess
import sys
import tempfile
import time

from vf import c18_workers as W

PROPERTY = "C18"
LEVEL = "exploration"
PARALLEL = False   # the workload itself uses up to 16 worker processes
RULE = ("scenarios = (function, k workers, batch of n argument lists, per-task delay pattern). Grid: k in 1..16 x "
        "n in {0, 1, k-1, k, k+1, 3k}; every cell runs a pure arithmetic function and one Record function "
        "(identity, sanitise_sequence, ensure_cds_info with a gene-finding-shaped callback, a CDS-taking function, the "
        "unwrapped real functions, pre_process_sequences with config cpus=k) on generated Records (linear/circular, "
        "dirty/blank sequences, multi-exon and origin-spanning CDS, protoclusters/candidates/regions incl. "
        "origin-spanning ones, caches warmed or cold). Delays are drawn so that late-submitted tasks finish first. "
        "Failure scenarios: tasks raising (5 exception kinds, one or several raisers), tasks sleeping past an integer "
        "timeout, workers dying by os._exit/SIGKILL under a timeout, parallel_execute exit codes and its timeout. "
        "Non-trivial: the observed completion order differed from submission order, or a failure had to surface, or "
        "a warmed _SectionedCDSTuple crossed the boundary with k >= 2. Distinct by (kind, function, k, n, delay "
        "pattern, observed completion permutation).")
ASSUMPTIONS = [
    "fork start method (Linux default of the pinned Python 3.12); all processes share CLOCK_MONOTONIC, so t_end "
    "values of different workers are comparable and define the observed completion order.",
    "A dying worker without a timeout makes multiprocessing.Pool wait forever; this is a hang, not a wrong list, and "
    "is exercised only with a timeout (restriction stated in DESIGN.md section 0).",
    "With cpus == 1 parallel_function documents that the timeout is ignored; the full ordered list it returns is not a "
    "shorter or reordered list, so timeout scenarios use k >= 2.",
    "'Surfaces as an error' is read as: the call raises. Which of several raising tasks is reported is not "
    "constrained (recorded only). A call with timeout T that has neither returned nor raised after the child "
    "watchdog (no progress for >= 25 x T) is recorded as 'no-error-within-bound'.",
    "'Same content' of a Record is equality of a canonical dump of its whole object graph (every slot of every "
    "reachable object, aliasing included, set members order-normalised) plus a view through its public accessors; "
    "the per-task trace annotation added by the harness's gene finder is removed before dumping.",
    "The sequential run of Record functions happens in the recording child on an independent build of the same "
    "specs (functions mutate their arguments); arithmetic expectations are recomputed by the checker.",
]
REQUIRED = [
    "op:arith_equal", "op:record_equal", "op:raise_surfaced", "op:timeout_surfaced", "op:death_surfaced",
    "op:execute_codes_equal", "op:execute_timeout_surfaced", "op:pre_process_equal",
    "schedule:completion_order_not_submission_order", "schedule:record_completion_order_not_submission_order",
    "schedule:execute_completion_order_not_submission_order",
    "schedule:distinct_worker_pids_gt_1",
    "pickle:sectioned_tuple_crossed", "pickle:origin_spanning_area_crossed", "pickle:origin_spanning_cds_crossed",
    "pickle:all_three_sections_filled", "pickle:genes_added_in_worker", "pickle:skip_set_in_worker",
    "grid:arith_complete", "grid:cpus1_cells", "children_clean",
    "op:plain_equal_with_calls_returning_nothing", "op:plain_equal_with_default_workers_of_1_core_machine",
]

KS = list(range(1, 17))
AMINOS = "ACDEFGHIKLMNPQRSTVWY"
PRODUCTS = ["T1PKS", "NRPS", "terpene", "RiPP-like"]
RECORD_FNS = ["echo", "sanitise", "ensure", "cds_probe", "raw_sanitise", "raw_ensure", "pre_process", "children_echo"]
EXC_KINDS = ["ValueError", "KeyError", "AntismashInputError", "C18Error", "ZeroDivisionError"]


def batches(k):
    return sorted({n for n in (0, 1, k - 1, k, k + 1, 3 * k) if n >= 0})


GRID = [(k, n) for k in KS for n in batches(k)]


def relation(n, k):
    if n == 0:
        return "empty"
    if n == 3 * k:
        return "3k"
    if n < k:
        return "lt"
    if n == k:
        return "eq"
    return "gt"


# --------------------------------------------------------------------------
# generators (all randomness from ctx.rng)
# --------------------------------------------------------------------------

PATTERNS = ["desc", "front", "first", "random", "alt", "none"]


def gen_delays(rng, n, pattern, unit=0.001):
    """ per-task delays in seconds; early tasks are slower so that later ones can overtake """
    if n == 0:
        return []
    if pattern == "none":
        return [0] * n
    if pattern == "desc":
        step = min(rng.choice([1, 2, 4]), max(1, 60 // n))
        return [round(unit * step * (n - 1 - i), 4) for i in range(n)]
    if pattern == "front":
        return [round(unit * rng.choice([5, 10, 20, 30]), 4) if i < max(1, n // 2) else 0 for i in range(n)]
    if pattern == "first":
        return [round(unit * 30, 4)] + [0] * (n - 1)
    if pattern == "alt":
        return [round(unit * rng.choice([8, 16]), 4) if i % 2 == 0 else 0 for i in range(n)]
    return [round(unit * rng.choice([0, 1, 3, 10, 25]), 4) for _ in range(n)]


def pick_pattern(rng, control=0.08):
    if rng.random() < control:
        return "none"
    return rng.choice(PATTERNS[:-1])


def _translation(rng, bases):
    return "M" + "".join(rng.choice(AMINOS) for _ in range(max(1, bases // 3 - 1)))


def _gen_cds(rng, length, circular, density, force_span=False):
    """ CDS on a 100-base grid: single exon, two exons, and (circular) one crossing the origin """
    slots = length // 100
    cds = []
    spanning = circular and (force_span or rng.random() < 0.6)
    if spanning:
        strand = rng.choice([1, -1])
        tail, head = [length - 30, length], [0, 30]
        cds.append({"parts": [tail, head] if strand == 1 else [head, tail], "strand": strand, "tag": "span",
                    "translation": _translation(rng, 60), "gene": rng.random() < 0.5, "slot": None})
    for slot in range(slots):
        if spanning and slot in (0, slots - 1):
            continue
        if rng.random() > density:
            continue
        base = 100 * slot
        strand = rng.choice([1, -1])
        if rng.random() < 0.25:
            parts = [[base + 5, base + 35], [base + 50, base + 50 + 3 * rng.randint(5, 14)]]
            if strand == -1:
                parts.reverse()
        else:
            parts = [[base + 5, base + 5 + 3 * rng.randint(8, 30)]]
        cds.append({"parts": parts, "strand": strand, "tag": f"g{slot:03d}",
                    "translation": _translation(rng, sum(e - s for s, e in parts)),
                    "gene": rng.random() < 0.5, "pfam": rng.random() < 0.3, "slot": slot})
    return cds


def _span(cds, length):
    starts = [s for s, _ in cds["parts"]]
    ends = [e for _, e in cds["parts"]]
    if cds["slot"] is None:      # the origin-spanning one
        return [length - 30, 30]
    return [min(starts), max(ends)]


def _surround(core, nb, length, circular):
    start, end = core
    if start < end:
        covered = end - start + 2 * nb
        if not circular or covered >= length - 10:
            return [max(0, start - nb), min(length, end + nb)]
        new_start, new_end = start - nb, end + nb
        if new_start < 0:
            new_start += length
        if new_end > length:
            new_end -= length
        if new_start == new_end:
            return [max(0, start - nb), min(length, end + nb)]
        return [new_start, new_end]
    # wrapping core
    covered = (length - start) + end + 2 * nb
    if covered >= length - 10:
        nb = max(0, (length - 10 - (length - start) - end) // 2 - 1)
    return [start - nb, end + nb]


def gen_record_spec(rng, index, flavour, big=False, showcase=False):  # pylint: disable=too-many-branches
    """ showcase: a circular record whose origin-spanning gene is the core of a warmed origin-spanning
        protocluster with genes on both sides (all three sections of the sectioned tuples filled) """
    length = 100 * (rng.randint(200, 500) if big else rng.randint(6, 24))
    circular = showcase or rng.random() < (0.75 if flavour == "regions" else 0.5)
    spec = {"id": f"r{index:03d}", "seed": rng.getrandbits(32), "length": length, "circular": circular,
            "dirt": rng.choice([0, 0, 3, 40]), "index": index + 1, "flavour": flavour}
    if rng.random() < 0.15:
        spec["original_id"] = f"orig_{index}"
    if flavour == "blank":
        spec["blank"] = True
        return spec
    if flavour == "skipped":
        spec["skip"] = "skipped by generator"
        spec["gene_plan"] = []
        return spec
    if flavour == "plain":      # no CDS: the gene finder adds them (or none: record gets skipped)
        plan = []
        if rng.random() < 0.8:
            for cds in _gen_cds(rng, min(length, 3000), circular and length <= 3000, 0.4):
                parts = ",".join(f"{s}:{e}" for s, e in cds["parts"])
                plan.append(f"{cds['tag']}|{cds['strand']}|{parts}|{cds['translation']}")
        spec["gene_plan"] = plan
        spec["gapless"] = rng.random() < 0.9     # removed gaps shift the end below the planned genes: the finder raises
        spec["misc"] = [[10, 20]] if rng.random() < 0.5 else []
        return spec
    cds = _gen_cds(rng, length, circular, 0.9 if showcase else 0.6, force_span=showcase)
    if not cds:
        cds = _gen_cds(rng, length, circular, 1.0)
    spec["gene_plan"] = []
    spec["misc"] = [[10, 20]] if rng.random() < 0.5 else []
    if flavour == "regions":
        protos = []
        cores = rng.sample(cds, min(len(cds), rng.randint(1, 3)))
        if circular and cds[0]["slot"] is None and (showcase or rng.random() < 0.85) and cds[0] not in cores:
            cores.append(cds[0])
        for core_cds in cores:
            product = rng.choice(PRODUCTS)
            core_cds["core"] = product
            core = _span(core_cds, length)
            nb = 100 * rng.randint(0, 3) + rng.choice([0, 20, 50])
            if showcase and core_cds is cds[0]:
                nb = 100 * rng.randint(1, 2)
            protos.append({"core": core, "surround": _surround(core, nb, length, circular), "product": product,
                           "cutoff": 100 * rng.randint(0, 2), "neighbourhood": nb})
        spec["protoclusters"] = protos
        if rng.random() < 0.3:
            a = rng.randrange(0, length // 100)
            b = rng.randrange(a + 1, length // 100 + 1)
            spec["subregions"] = [[100 * a, 100 * b]]
        spec["warm"] = showcase or rng.random() < 0.8
    for entry in cds:
        entry.pop("slot", None)
    spec["cds"] = cds
    spec["pick"] = rng.randrange(len(cds))
    return spec


FLAVOURS = {
    "echo": ["regions", "regions", "regions", "annotated", "plain", "blank"],
    "sanitise": ["regions", "annotated", "plain", "blank", "regions"],
    "raw_sanitise": ["plain", "annotated", "blank", "regions"],
    "ensure": ["plain", "plain", "annotated", "regions", "skipped"],
    "raw_ensure": ["plain", "plain", "annotated", "regions", "skipped"],
    "cds_probe": ["regions", "regions", "annotated"],
    "children_echo": ["regions", "regions", "annotated"],
    "pre_process": ["plain", "plain", "annotated", "blank", "plain"],
}


def gen_record_scenario(rng, sid, fn, k, n, pattern):
    records = []
    for i in range(n):
        flavour = rng.choice(FLAVOURS[fn])
        big = fn == "raw_sanitise" and pattern != "none" and i < max(1, n // 2) and flavour == "plain"
        records.append(gen_record_spec(rng, i, flavour, big=big))
    if n and "regions" in FLAVOURS[fn]:
        i = rng.randrange(n)
        records[i] = gen_record_spec(rng, i, "regions", showcase=True)
    scenario = {"sid": sid, "kind": "record", "fn": fn, "k": k, "n": n, "pattern": pattern,
                "records": records, "delays": gen_delays(rng, n, pattern),
                "generator_args": rng.random() < 0.5, "via_config": rng.random() < 0.3}
    if fn == "pre_process":
        scenario["minlength"] = rng.choice([0, 0, 1000])
        if n >= 2 and rng.random() < 0.6:
            # identifiers that have to be cleaned and then collide: the names given to later records depend on the
            # names given to earlier ones
            spellings = ["scaf(7)", "scaf[7]", "scaf=7", "scaf;7", "scaf 7"]
            for record, spelling in zip(rng.sample(records, min(n, rng.randint(2, 4))), spellings):
                record["id"] = spelling
            scenario["colliding_ids"] = True
    return scenario


def gen_plan(ctx, round_index, quick):  # pylint: disable=too-many-locals,too-many-statements
    """ (main plan, [hazard plans]) for one round """
    rng = ctx.rng("plan", round_index)
    counter = [0]

    def sid(prefix):
        counter[0] += 1
        return f"{round_index}.{prefix}{counter[0]}"

    main = []
    # A. arithmetic on the whole grid
    for k, n in GRID:
        pattern = pick_pattern(rng)
        delays = gen_delays(rng, n, pattern)
        args = [[i, rng.randint(-50, 50), rng.randint(0, 9), delays[i]] for i in range(n)]
        main.append({"sid": sid("a"), "kind": "arith", "k": k, "n": n, "pattern": pattern, "args": args,
                     "generator_args": rng.random() < 0.4, "via_config": rng.random() < 0.2})
    # B. record functions: every cell gets one function; the assignment rotates with the round
    # (quick tier: a third of the cells, spread over every batch class and all k; which third depends on the seed)
    turn = 0
    for k, n in GRID:
        if quick and (k + batches(k).index(n) + ctx.seed) % 3:
            continue
        fn = RECORD_FNS[(turn + round_index + ctx.seed) % len(RECORD_FNS)]
        turn += 1
        main.append(gen_record_scenario(rng, sid("r"), fn, k, n, pick_pattern(rng)))
    # C. raising tasks
    raise_cells = [(k, n) for k in (1, 2, 5, 16) for n in sorted({1, k, 3 * k})]
    if not quick:
        raise_cells = [(k, n) for k, n in GRID if n > 0]
    for k, n in raise_cells:
        count = 1 if rng.random() < 0.6 else min(n, rng.randint(2, 3))
        where = rng.choice(["first", "last", "middle", "random"])
        if count == 1:
            index = {"first": 0, "last": n - 1, "middle": n // 2, "random": rng.randrange(n)}[where]
            raisers = {str(index): rng.choice(EXC_KINDS)}
        else:
            raisers = {str(i): rng.choice(EXC_KINDS) for i in rng.sample(range(n), count)}
        pattern = pick_pattern(rng)
        main.append({"sid": sid("x"), "kind": "raise", "k": k, "n": n, "pattern": pattern, "raisers": raisers,
                     "delays": gen_delays(rng, n, pattern), "generator_args": rng.random() < 0.4})
    # F. parallel_execute exit codes
    exec_ks = (1, 3, 16) if quick else (1, 2, 3, 4, 7, 8, 12, 16)
    for k in exec_ks:
        for n in batches(k) if not quick else sorted({0, 1, k, 3 * k}):
            pattern = rng.choice(["desc", "front", "random", "first"])
            delays = gen_delays(rng, n, pattern, unit=0.002)
            main.append({"sid": sid("e"), "kind": "execute", "k": k, "n": n, "pattern": pattern,
                         "codes": [(7 * i + rng.randint(0, 5)) % 120 for i in range(n)], "delays": delays,
                         "verbose": rng.random() < 0.5})

    repeat_rng = ctx.rng("repeat", round_index)       # (its own stream: the scenarios below keep theirs)
    for k in (1, 3):
        n = repeat_rng.choice([2, 3, 5])
        main.append({"sid": sid("e"), "kind": "execute", "k": k, "n": n, "pattern": "repeat", "repeat": True,
                     "codes": list(range(1, n + 1)), "delays": [0.0] * n, "verbose": False})

    # hazards: each plan runs in its own child with its own watchdog
    # functions whose return value is plain (nothing at all for some calls, as of a function working by side effect
    # or a lookup without an answer), also with the number of workers left to the default of a machine of m cores
    plain_rng = ctx.rng("plain", round_index)
    for k in (1, 2, 5, 16):
        for n in (2, k + 1, 3 * k):
            main.append({"sid": sid("n"), "kind": "plain", "k": k, "n": n,
                         "delays": gen_delays(plain_rng, n, pick_pattern(plain_rng)), "via_config": plain_rng.random() < 0.3})
    for machine in (1, 2, 3):
        main.append({"sid": sid("n"), "kind": "plain", "k": machine, "n": 4, "delays": [0.0] * 4, "default_of_machine": machine})
    hazards = []
    k = rng.choice([2, 3, 4])
    sleepers = [{"sid": sid("s"), "kind": "sleep", "k": k, "n": k, "sleeps": [2.5] * k, "timeout": 1,
                 "pattern": "all-slow"}]
    k = rng.choice([4, 6, 9, 16])
    n = rng.choice([k + 1, 3 * k])
    slow = rng.randrange(n)
    sleepers.append({"sid": sid("s"), "kind": "sleep", "k": k, "n": n, "timeout": 1, "pattern": "one-slow",
                     "sleeps": [2.5 if i == slow else 0.001 * rng.randint(0, 5) for i in range(n)],
                     "generator_args": True})
    # a batch of one job with several workers requested: the timeout applies all the same
    sleepers.append({"sid": sid("s"), "kind": "sleep", "k": rng.choice([2, 3, 8, 16]), "n": 1, "timeout": 1,
                     "pattern": "single-job", "sleeps": [2.5], "generator_args": rng.random() < 0.5})
    k = rng.choice([2, 3])
    sleepers.append({"sid": sid("e"), "kind": "execute", "k": k, "n": k + 1, "pattern": "one-slow", "timeout": 1,
                     "codes": [3] * (k + 1), "delays": [0.01] * k + [2.5], "verbose": False})
    hazards.append(sleepers)
    deaths = []
    for how in ("exit", "kill"):
        k = rng.choice([2, 3, 5, 8, 16])
        n = rng.choice([k, k + 1, 3 * k])
        victims = sorted(rng.sample(range(n), rng.choice([1, 1, 2]) if n > 1 else 1))
        pattern = pick_pattern(rng)
        deaths.append({"sid": sid("d"), "kind": "die", "k": k, "n": n, "victims": victims, "how": how, "timeout": 1,
                       "pattern": pattern, "delays": gen_delays(rng, n, pattern)})
    if quick:
        hazards = [sleepers + deaths]    # one child: the sleeping scenarios report before a death could hang it
    else:
        hazards.append(deaths)
    return main, hazards


# --------------------------------------------------------------------------
# running a plan in a child, reading its history
# --------------------------------------------------------------------------

class Child:
    """ one recording child process: started at construction, collected by finish() """
    def __init__(self, plan, watchdog_s, stall_s):
        self.plan, self.watchdog_s, self.stall_s = plan, watchdog_s, stall_s
        self.tmp = tempfile.mkdtemp(prefix="vf-c18-", dir="/tmp")
        self.hist_path = os.path.join(self.tmp, "history.jsonl")
        self.err_path = os.path.join(self.tmp, "stderr.txt")
        plan_path = os.path.join(self.tmp, "plan.json")
        with open(plan_path, "w", encoding="utf-8") as handle:
            json.dump(plan, handle)
        with open(self.hist_path, "w", encoding="utf-8"):
            pass
        cmd = [sys.executable, "-X", "faulthandler", "-m", "vf.c18_workers", plan_path, self.hist_path,
               os.path.join(self.tmp, "scratch")]
        self.started = time.monotonic()
        self.err = open(self.err_path, "w", encoding="utf-8")  # pylint: disable=consider-using-with
        # own process group: parallel_execute's setpgid(0, 0) becomes a no-op and leftovers can be reaped
        self.proc = subprocess.Popen(cmd, stdout=subprocess.DEVNULL, stderr=self.err, process_group=0)  # pylint: disable=consider-using-with

    def finish(self):
        """ returns (end events by sid, in-flight sid or None, status dict).
            Watchdog: the whole child may take watchdog_s; no scenario may take longer than stall_s
            (the history file is written at every begin/end). Time is a watchdog only. """
        status = {"watchdog_fired": False, "returncode": None, "stderr_tail": "", "waited_s": 0}
        try:
            while True:
                try:
                    self.proc.wait(timeout=0.2)
                    break
                except subprocess.TimeoutExpired:
                    pass
                now = time.monotonic()
                quiet = time.time() - os.path.getmtime(self.hist_path)
                if not os.path.getsize(self.hist_path):
                    quiet = 0       # still importing: only the overall watchdog applies
                if now - self.started > self.watchdog_s or quiet > self.stall_s:
                    status["watchdog_fired"] = True
                    status["waited_s"] = round(min(quiet, now - self.started), 1)
                    break
            try:
                os.killpg(self.proc.pid, signal.SIGKILL)
            except (ProcessLookupError, PermissionError):
                pass
            self.proc.wait()
            self.err.close()
            status["returncode"] = self.proc.returncode
            status["wall"] = time.monotonic() - self.started
            with open(self.err_path, encoding="utf-8", errors="replace") as handle:
                status["stderr_tail"] = handle.read()[-600:]
            begun, ended, bye = [], {}, False
            with open(self.hist_path, encoding="utf-8") as handle:
                for line in handle:
                    try:
                        event = json.loads(line)
                    except ValueError:
                        continue
                    if event["ev"] == "begin":
                        begun.append(event["sid"])
                    elif event["ev"] == "end":
                        ended[event["sid"]] = event
                    elif event["ev"] == "bye":
                        bye = True
                    elif event["ev"] == "hello":
                        status["child_pid"] = event["pid"]
            in_flight = [sid for sid in begun if sid not in ended]
            status["bye"] = bye
            return ended, (in_flight[0] if in_flight else None), status
        finally:
            if not self.err.closed:
                self.err.close()
            shutil.rmtree(self.tmp, ignore_errors=True)


# --------------------------------------------------------------------------
# the offline checker
# --------------------------------------------------------------------------

class Book:
    """ schedule evidence accumulated over all scenarios """
    def __init__(self):
        self.perms = set()
        self.perm_examples = {}
        self.pids = set()
        self.classes = {"identity": 0, "reversed": 0, "other": 0}
        self.grid = {}
        self.fn_cells = {}
        self.max_overlap = 0
        self.last_order = None

    def order(self, timing):
        """ timing: [[pid, t0, t1], ...] -> completion order as a tuple of submission indices """
        return tuple(sorted(range(len(timing)), key=lambda i: (timing[i][2], i)))

    def note(self, scope, k, n, timing):
        order = self.order(timing)
        self.last_order = order
        self.pids.update(t[0] for t in timing)
        identity = order == tuple(range(n))
        if n >= 2:
            if identity:
                self.classes["identity"] += 1
            elif order == tuple(reversed(range(n))):
                self.classes["reversed"] += 1
            else:
                self.classes["other"] += 1
            if not identity:
                key = (scope, k, n, order)
                if key not in self.perms:
                    self.perms.add(key)
                    if n <= 8 and len(self.perm_examples) < 24:
                        self.perm_examples.setdefault(f"{scope} k={k} n={n}", list(order))
        events = sorted([(t[1], 1) for t in timing] + [(t[2], -1) for t in timing])
        running = 0
        for _, step in events:
            running += step
            self.max_overlap = max(self.max_overlap, running)
        return order, identity


def base_facts(sc, **extra):
    facts = {"kind": sc["kind"], "k": sc["k"], "n": sc["n"], "batch_vs_k": relation(sc["n"], sc["k"]),
             "pattern": sc.get("pattern"), "generator_args": bool(sc.get("generator_args")),
             "via_config": bool(sc.get("via_config")), "timeout": sc.get("timeout")}
    if "fn" in sc:
        facts["fn"] = sc["fn"]
    facts.update(extra)
    return facts


def _strip_indices(path):
    return re.sub(r"\[\d+\]", "[]", path)


def check_arith(ctx, book, sc, ev):
    n, k = sc["n"], sc["k"]
    ctx.count("op:arith")
    if ev["outcome"] != "returned":
        ctx.violate("parallel-raised-sequential-returned",
                    base_facts(sc, exception=ev.get("exc_type"), message=ev.get("exc_msg")), sc)
        return False
    if ev.get("malformed"):
        ctx.violate("result-not-a-list-of-results", base_facts(sc, returned=ev.get("returned"), repr=ev.get("repr")), sc)
        return False
    expected = [dict(W.arith_value(*a[:3]), cfg=f"{W.CONFIG_MARKER}/{sc['sid']}") for a in sc["args"]]      # the sequential run
    got = ev["payloads"]
    order, identity = book.note("arith", k, n, ev["timing"])
    facts = base_facts(sc, completion_order_is_submission_order=identity, returned_len=len(got))
    if len(got) != n:
        ctx.violate("length-differs", facts, sc)
        return False
    if got != expected:
        bad = [i for i in range(n) if got[i] != expected[i]]
        canon = sorted(json.dumps(x, sort_keys=True) for x in got)
        facts.update(first_bad_index=bad[0], bad_count=len(bad),
                     same_multiset=canon == sorted(json.dumps(x, sort_keys=True) for x in expected),
                     equals_completion_order=got == [expected[i] for i in order])
        ctx.violate("order-or-value-differs", facts, sc)
        return False
    ctx.count("op:arith_equal")
    book.grid.setdefault(k, set()).add(n)
    if k == 1:
        ctx.count("grid:cpus1_cells")
        if n and {t[0] for t in ev["timing"]} == {ev["child_pid"]}:
            ctx.count("cpus1:ran_in_calling_process")
    if n >= 2 and not identity:
        ctx.count("schedule:completion_order_not_submission_order")
        ctx.count(f"schedule:non_identity:{relation(n, k)}")
    elif n >= 2:
        ctx.count("schedule:completion_order_was_submission_order")
    return not identity and n >= 2


def check_plain(ctx, sc, ev):
    ctx.count("op:plain")
    facts = base_facts(sc, default_of_machine=sc.get("default_of_machine"))
    if ev["outcome"] != "returned":
        ctx.violate("parallel-raised-sequential-returned", dict(facts, exception=ev.get("exc_type"), message=ev.get("exc_msg")), sc)
        return False
    expected = [W.plain_value(i) for i in range(sc["n"])]       # the sequential run
    if ev.get("plain") != expected:
        ctx.violate("order-or-value-differs", dict(facts, returned=repr(ev.get("plain"))[:200], expected=repr(expected)[:200]), sc)
        return False
    ctx.count("op:plain_equal_with_calls_returning_nothing")
    if sc.get("default_of_machine"):
        ctx.count(f"op:plain_equal_with_default_workers_of_{sc['default_of_machine']}_core_machine")
    return True


def check_record(ctx, book, sc, ev):  # pylint: disable=too-many-return-statements,too-many-branches
    n, k, fn = sc["n"], sc["k"], sc["fn"]
    ctx.count("op:record")
    ctx.count(f"op:record:{fn}")
    if ev["outcome"] == "build_failed" and ev.get("exc_type") not in ("ValueError", "SecmetInvalidInputError"):
        # building and warming the records is real antiSMASH code: a refusal (ValueError) is the layout's business,
        # anything else is a crash in what the batch was about to hand to the workers
        ctx.violate("record-for-the-batch-crashes-while-built",
                    dict(base_facts(sc), exception=ev.get("exc_type"), message=ev.get("exc_msg")), sc)
        return False
    if ev["outcome"] == "build_failed":
        ctx.count("skipped:record_build_failed")
        if len(ctx.notes) < 5:
            ctx.notes.append(f"record build failed: {ev.get('exc_type')}: {ev.get('exc_msg')}"[:300])
        return False
    shapes = ev.get("shapes", [])
    seq_raised = ev.get("seq_outcome") == "raised"
    facts = base_facts(sc)
    if ev["outcome"] == "not_picklable":
        ctx.violate("record-content-crosses-the-process-boundary",
                    dict(facts, what=ev.get("what"), index=ev.get("index"), exception=ev.get("exc_type"),
                         message=ev.get("exc_msg")), sc)
        return False
    if seq_raised and ev["outcome"] == "returned":
        ctx.violate("sequential-raised-parallel-returned", dict(facts, sequential_exception=ev.get("seq_exc")), sc)
        return False
    if seq_raised:
        ctx.count("op:record_both_raised")
        if ev.get("exc_type") != ev["seq_exc"][0]:
            ctx.violate("exception-altered", dict(facts, sequential_exception=ev["seq_exc"],
                                                  exception=ev.get("exc_type"), message=ev.get("exc_msg")), sc)
        return True
    if ev["outcome"] != "returned":
        ctx.violate("parallel-raised-sequential-returned",
                    dict(facts, exception=ev.get("exc_type"), message=ev.get("exc_msg")), sc)
        return False
    if ev.get("malformed"):
        ctx.violate("result-not-a-list-of-results", dict(facts, returned=ev.get("returned")), sc)
        return False
    tasks = ev["tasks"]
    if len(tasks) != ev["seq_len"]:
        ctx.violate("length-differs", dict(facts, returned_len=len(tasks), sequential_len=ev["seq_len"]), sc)
        return False
    timing = [[t["pid"], t["t0"], t["t1"]] for t in tasks if "pid" in t]
    identity = True
    if len(timing) == len(tasks) and tasks:
        _, identity = book.note("record:" + fn, k, len(tasks), timing)
    elif timing:
        book.pids.update(t[0] for t in timing)
        traced = [i for i, t in enumerate(tasks) if "pid" in t]
        done = sorted(traced, key=lambda i: tasks[i]["t1"])
        identity = done == traced
    facts["completion_order_is_submission_order"] = identity
    ids = [t["id"] for t in tasks]
    seq_ids = [t.get("seq_id") for t in tasks]
    if fn == "pre_process":
        # argument order: the record returned at position i is the record handed in at position i (for every
        # number of workers, one included)
        ctx.count("op:pre_process_positions")
        positions = [t.get("record_index") for t in tasks]
        if positions != list(range(1, len(tasks) + 1)):
            ctx.violate("record-order-differs", dict(facts, returned_positions=positions, same_multiset=True), sc)
            return False
    if ids != seq_ids:
        ctx.violate("record-order-differs", dict(facts, same_multiset=sorted(map(str, ids)) == sorted(map(str, seq_ids))), sc)
        return False
    ok = True
    unstable = set(ev.get("unstable_builds", []))
    ctx.count("skipped:record_build_not_reproducible", len(unstable))
    for i, task in enumerate(tasks):
        if i in unstable:
            continue
        if task["digest"] != task["seq_digest"]:
            ok = False
            shape = shapes[i] if i < len(shapes) else {}
            ctx.violate("record-content-differs",
                        dict(facts, shape=shape, differing_paths=sorted({_strip_indices(d["path"]) for d in task.get("diff", [])}),
                             first_difference=(task.get("diff") or [None])[0]), sc)
            break
    if not ok:
        return False
    ctx.count("op:record_equal")
    ctx.count("op:record_tasks_equal", len(tasks) - len(unstable))
    if fn == "pre_process":
        ctx.count("op:pre_process_equal")
    book.fn_cells.setdefault(fn, set()).add((k, n))
    crossed = k >= 2
    interesting = False
    for shape in shapes:
        if not crossed:
            break
        if shape.get("sectioned_tuples"):
            ctx.count("pickle:sectioned_tuple_crossed")
            interesting = True
            if len(shape.get("sections_filled", [])) == 3:
                ctx.count("pickle:all_three_sections_filled")
        if shape.get("origin_spanning_area"):
            ctx.count("pickle:origin_spanning_area_crossed")
        if shape.get("origin_spanning_cds"):
            ctx.count("pickle:origin_spanning_cds_crossed")
        if shape.get("multi_exon_cds"):
            ctx.count("pickle:multi_exon_cds_crossed")
        if shape.get("regions"):
            ctx.count("pickle:record_with_regions_crossed")
    if crossed and fn in ("ensure", "raw_ensure", "pre_process"):
        for spec in sc["records"]:
            if spec.get("flavour") == "plain" and spec.get("gene_plan"):
                ctx.count("pickle:genes_added_in_worker")
            if spec.get("flavour") == "plain" and not spec.get("gene_plan"):
                ctx.count("pickle:skip_set_in_worker")
    if crossed and fn in ("sanitise", "raw_sanitise", "pre_process"):
        for spec in sc["records"]:
            if spec.get("blank"):
                ctx.count("pickle:skip_set_in_worker")
    if len(tasks) >= 2 and timing and not identity:
        ctx.count("schedule:record_completion_order_not_submission_order")
        interesting = True
    return interesting


def check_raise(ctx, book, sc, ev):
    ctx.count("op:raise")
    facts = base_facts(sc, raisers=len(sc["raisers"]), exception_kinds=sorted(set(sc["raisers"].values())))
    if ev["outcome"] == "returned":
        ctx.violate("exception-not-surfaced", dict(facts, returned=ev.get("returned")), sc)
        return False
    possible = {W.expected_exception(int(i), kind): int(i) for i, kind in sc["raisers"].items()}
    got = (ev["exc_type"], ev["exc_msg"])
    if got not in possible:
        ctx.violate("exception-altered", dict(facts, exception=ev["exc_type"], message=ev["exc_msg"]), sc)
        return False
    ctx.count("op:raise_surfaced")
    ctx.count(f"raise:{ev['exc_type']}")
    if len(possible) > 1:
        ctx.count("raise:first_in_submission_order" if possible[got] == min(possible.values())
                  else "raise:later_raiser_reported")
    return True


def check_hazard(ctx, book, sc, ev, what):
    ctx.count(f"op:{what}")
    facts = base_facts(sc, how=sc.get("how"))
    if ev["outcome"] == "returned":
        clause = "timeout-returned-a-result" if what == "timeout" else "worker-death-returned-a-result"
        ctx.violate(clause, dict(facts, returned=ev.get("returned"), wall_s=round(ev.get("wall", 0), 1)), sc)
        return False
    ctx.count(f"op:{what}_surfaced")
    if ev["exc_type"] == "RuntimeError":
        ctx.count(f"{what}:RuntimeError")
    else:
        ctx.count(f"{what}:other_error:{ev['exc_type']}")
    return True


def check_execute(ctx, book, sc, ev):
    n, k = sc["n"], sc["k"]
    if sc.get("timeout") is not None:
        ctx.count("op:execute_timeout")
        if ev["outcome"] == "returned":
            ctx.violate("timeout-returned-a-result", base_facts(sc, returned=ev.get("returned"), codes=ev.get("codes")), sc)
            return False
        ctx.count("op:execute_timeout_surfaced")
        return True
    ctx.count("op:execute")
    facts = base_facts(sc, verbose=bool(sc.get("verbose")))
    if ev["outcome"] != "returned":
        ctx.violate("parallel-raised-sequential-returned",
                    dict(facts, exception=ev.get("exc_type"), message=ev.get("exc_msg")), sc)
        return False
    codes = ev.get("codes")
    if codes is None or len(codes) != n:
        ctx.violate("length-differs", dict(facts, returned=ev.get("returned")), sc)
        return False
    if sc.get("repeat"):
        ctx.count("op:execute_repeated_command")
        facts["repeated_command"] = True
        if ev.get("ran") != n:
            ctx.violate("call-not-executed", dict(facts, executed=ev.get("ran"), calls=n), sc)
            return False
        if k == 1 and codes != list(range(1, n + 1)):
            ctx.violate("return-codes-differ", dict(facts, got=codes[:8], sequential=list(range(1, n + 1))[:8]), sc)
            return False
        if sorted(codes) != list(range(1, n + 1)):
            ctx.count("schedule:execute_repeated_command_counts_raced")
        return False
    stamps = ev.get("stamps") or []
    identity = True
    if n >= 2 and all(s for s in stamps):
        order = tuple(sorted(range(n), key=lambda i: (stamps[i], i)))
        identity = order == tuple(range(n))
        if not identity:
            book.perms.add(("execute", k, n, order))
            book.last_order = order
    if codes != sc["codes"]:
        ctx.violate("return-codes-differ", dict(facts, same_multiset=sorted(codes) == sorted(sc["codes"]),
                                                completion_order_is_submission_order=identity), sc)
        return False
    ctx.count("op:execute_codes_equal")
    if not identity:
        ctx.count("schedule:execute_completion_order_not_submission_order")
    return not identity


def check_history(ctx, book, plan, ended, in_flight, status):
    """ decide every scenario of a plan from the recorded history; returns True when the child was clean """
    clean = True
    for sc in plan:
        ev = ended.get(sc["sid"])
        if ev is None:
            if sc["sid"] == in_flight and status["watchdog_fired"] and sc.get("timeout") is not None:
                ctx.count("op:" + sc["kind"])
                ctx.violate("no-error-within-bound", base_facts(sc, how=sc.get("how"), waited_s=status["waited_s"]), sc)
                ctx.case((sc["kind"], sc["k"], sc["n"], "hang"), nontrivial=True)
            else:
                clean = False
                ctx.count("skipped:scenario_not_run")
            continue
        if ev["outcome"] in ("harness_error", "unknown-kind"):
            clean = False
            ctx.count("harness_error")
            if len(ctx.notes) < 5:
                ctx.notes.append(f"harness error in {sc['kind']}/{sc.get('fn')}: {ev.get('exc_msg', '')[-400:]}")
            continue
        ev["child_pid"] = status.get("child_pid")
        kind = sc["kind"]
        book.last_order = None
        if kind == "arith":
            nontrivial = check_arith(ctx, book, sc, ev)
        elif kind == "record":
            nontrivial = check_record(ctx, book, sc, ev)
        elif kind == "plain":
            nontrivial = check_plain(ctx, sc, ev)
        elif kind == "raise":
            nontrivial = check_raise(ctx, book, sc, ev)
        elif kind == "sleep":
            nontrivial = check_hazard(ctx, book, sc, ev, "timeout")
        elif kind == "die":
            nontrivial = check_hazard(ctx, book, sc, ev, "death")
        else:
            nontrivial = check_execute(ctx, book, sc, ev)
        key = [kind, sc.get("fn"), sc["k"], sc["n"], sc.get("pattern"), sc.get("how"), sorted(sc.get("raisers", {}).items()),
               ev["outcome"], list(book.last_order) if book.last_order is not None else None]
        sample = None
        if nontrivial and len(ctx.samples) < 4:
            sample = {"kind": kind, "fn": sc.get("fn"), "k": sc["k"], "n": sc["n"], "pattern": sc.get("pattern"),
                      "outcome": ev["outcome"], "exception": ev.get("exc_type")}
            if ev.get("timing"):
                sample["completion_order"] = list(book.order(ev["timing"]))
        ctx.case(key, nontrivial=bool(nontrivial), sample=sample)
    if in_flight is not None and not any(sc["sid"] == in_flight and sc.get("timeout") is not None for sc in plan):
        clean = False
    if status["watchdog_fired"]:
        ctx.count("child_watchdog_fired")
        if len(ctx.notes) < 5:
            ctx.notes.append(f"child watchdog fired after {status['waited_s']}s while scenario {in_flight} was in flight")
    elif not status.get("bye"):
        clean = False
        ctx.count("child_died")
        if len(ctx.notes) < 5:
            ctx.notes.append(f"child ended early rc={status['returncode']} in flight={in_flight}: {status['stderr_tail'][-300:]}")
    return clean


HAZARD_STALL_S = 25     # >= 15 x the timeouts used (1 s)
MAIN_STALL_S = 90


def run_round(ctx, book, round_index, quick):
    main, hazards = gen_plan(ctx, round_index, quick)
    # the hazard children mostly sleep: they run next to the main child
    children = [Child(plan, 30 + HAZARD_STALL_S * len(plan), HAZARD_STALL_S) for plan in hazards]
    children.insert(0, Child(main, 200 if quick else 400, MAIN_STALL_S))
    clean = True
    for child in children:
        ended, in_flight, status = child.finish()
        clean = check_history(ctx, book, child.plan, ended, in_flight, status) and clean
        ctx.count("children_run")
    return clean


def publish(ctx, book):
    ctx.extra["completion_permutations_distinct"] = len(book.perms)
    ctx.extra["completion_permutation_examples"] = book.perm_examples
    ctx.extra["completion_order_classes_batches_of_2_or_more"] = book.classes
    ctx.extra["worker_pids_distinct"] = len(book.pids)
    ctx.extra["max_tasks_in_progress_at_once"] = book.max_overlap
    ctx.extra["grid_covered_arith"] = {str(k): sorted(v) for k, v in sorted(book.grid.items())}
    ctx.extra["grid_cells_per_record_function"] = {fn: len(cells) for fn, cells in sorted(book.fn_cells.items())}
    ctx.extra["grid_cells_total"] = len(GRID)
    if len(book.pids) > 1:
        ctx.count("schedule:distinct_worker_pids_gt_1")
    if all(set(batches(k)) <= book.grid.get(k, set()) for k in KS):
        ctx.count("grid:arith_complete")


def run(ctx):
    book = Book()
    quick = ctx.tier == "quick"
    rounds = ctx.quota(1, 10)
    clean = True
    for i in ctx.cases(rounds, every=1):
        if not quick and i > 0 and ctx.time_left() < 75:
            ctx.budget_hit = True
            break
        clean = run_round(ctx, book, i, quick) and clean
        ctx.count("rounds")
    if clean:
        ctx.count("children_clean")
    publish(ctx, book)


def replay(ctx, case):
    book = Book()
    child = Child([case], 120, 60)
    ended, in_flight, status = child.finish()
    check_history(ctx, book, child.plan, ended, in_flight, status)
    publish(ctx, book)
