"""C06 Regions are the disjoint connected components of overlapping areas.

Real Record objects are driven through call histories (add_protocluster, add_subregion, add_cds_feature,
create_candidate_clusters, create_regions, clear_*, strip_antismash_annotations). Two monitors observe them:

* a Record invariant evaluated after EVERY public mutator exit (wrappers on the real class, so the calls that
  clear_* and create_* make internally are observed too): the four area lists are in location order, numbers are
  list positions + 1, get_*_number / get_*(n) / feature.get_*_number() identify the same object, a feature that is
  no longer in the record has no number, every parent / region back link points into the current lists and is
  mirrored by the parent's child list, regions are pairwise disjoint;
* a reference oracle (vf/models/regions_ref.py: union-find over "share a base" on the ring) evaluated whenever the
  regions were (re)created from the current areas, explicitly or by a clear_*: every area in exactly one region,
  a region's members are exactly one component, its location is the span (= union of bases) of that component.
"""
from __future__ import annotations

import functools
import itertools
import json
import logging
import zlib

from antismash.common.secmet.features import Region
from antismash.common.secmet.record import Record

from vf import core, findings, instrument
from vf.gen import c06_worlds as G
from vf.gen import layout as W
from vf.models import regions_ref as M

PROPERTY = "C06"
LEVEL = "exploration"
PARALLEL = True
RULE = ("Worlds: (grid) the C05 layouts - 0-6 protoclusters of 1-4 core genes and 0-3 neighbouring genes on a gene grid, "
        "shared/nested/identical coordinates, cores and extents crossing the origin - plus 0-3 subregions placed at "
        "boundary coincidences (adjacent, one shared base, nested, whole record); (dense) 1-8 areas (subregions and "
        "gene-less protoclusters) at arbitrary coordinates on records of 30-90 bases with derived relations "
        "(adjacent, one shared base, identical, nested, same start/end, origin-crossing, whole record); linear and "
        "circular. Each world is run as the pipeline's own build (shuffled insertion order) and as a random history of "
        "5-25 further calls, legal by construction. Non-trivial: >= 2 areas with >= 1 overlap at a region creation, or "
        "a history with a clear followed by a create; distinct by world + history.")
ASSUMPTIONS = [
    "Location order is the order of start coordinates, an area crossing the origin of a circular record starting "
    "before it (x - L); the order of areas with equal starts is not constrained.",
    "Areas share a base iff some part intervals intersect; areas that only touch (end == start) are not linked.",
    "A history is legal when create_candidate_clusters is called only while the record holds no candidate cluster "
    "and create_regions only while it holds no region (the pipeline's use); areas are new objects on every add.",
    "After an area is added to a record that already has regions the regions are stale until the next clear/create: "
    "then only the invariant (links, numbering, disjointness) is checked, not the component oracle.",
    "Candidate cluster formation itself is C05's subject: the candidate clusters produced by the real "
    "create_candidate_clusters are taken as given areas.",
]
REQUIRED = ["op:invariant", "op:components", "op:membership", "op:region-location", "op:order", "op:numbering",
            "op:removed-number-lookup", "op:parent-link", "op:cds-region-link", "op:regions-disjoint",
            "topology:linear", "topology:circular",
            "shape:disjoint-components", "shape:nested", "shape:chained", "shape:adjacent-not-linked",
            "shape:linked-only-through-origin-crossing-area", "shape:component-covers-record",
            "shape:area-is-whole-record", "shape:component-longer-than-half", "shape:origin-crossing-area",
            "shape:several-stretches-on-pre-origin-side",
            "hist:clear-then-create", "hist:implicit-recreate", "hist:area-added-after-regions",
            "hist:cds-added-after-regions", "hist:create-regions-from-handed-areas", "hist-op:add_protocluster", "hist-op:add_subregion",
            "hist-op:add_cds_feature", "hist-op:create_candidate_clusters", "hist-op:create_regions",
            "hist-op:clear_regions", "hist-op:clear_candidate_clusters", "hist-op:clear_protoclusters",
            "hist-op:clear_subregions", "hist-op:strip_antismash_annotations", "hist-op:add_region", "hist-op:run_detection",
            "add_region:overlapping-a-region", "add_region:clear-of-all-regions",
            "monitor:Record.add_region", "monitor:Record.add_candidate_cluster", "monitor:Record.create_regions"]

MUTATORS = ("add_protocluster", "add_candidate_cluster", "add_subregion", "add_region", "add_cds_feature",
            "create_candidate_clusters", "create_regions", "clear_regions", "clear_candidate_clusters",
            "clear_protoclusters", "clear_subregions", "strip_antismash_annotations")

KINDS = {
    "protocluster": ("get_protoclusters", "get_protocluster_number", "get_protocluster", "get_protocluster_number"),
    "candidate_cluster": ("get_candidate_clusters", "get_candidate_cluster_number", "get_candidate_cluster",
                          "get_candidate_cluster_number"),
    "subregion": ("get_subregions", "get_subregion_number", "get_subregion", "get_subregion_number"),
    "region": ("get_regions", "get_region_number", "get_region", "get_region_number"),
}


def _s(loc) -> str:
    return str(loc)


class Session:
    """ harness state for the record currently under observation """

    def __init__(self, ctx, case, record):
        self.ctx = ctx
        self.case = case
        self.record = record
        self.length = case["L"]
        self.circular = case["circular"]
        self.seen = {kind: {} for kind in KINDS}      # id -> object, everything that ever was in a list
        self.done: list = []                           # ops executed so far (for facts)
        self.depth = 0                                 # nesting of monitored mutators
        self.reported: set = set()                     # (clause, kind): one report per history
        self.current_op = None                         # the outermost call being executed

    def facts(self, **more):
        ops = self.done + ([self.current_op] if self.current_op else [])
        out = {"circular": self.circular, "L": self.length, "during_or_after": ops[-1] if ops else None,
               "calls_so_far": len(ops),
               "some_clear_was_called": any(op.startswith("clear_") or op.startswith("strip") for op in ops)}
        out.update(more)
        return out

    def violate(self, clause, facts):
        """ an invariant clause is reported once per history and list kind (the state stays broken afterwards) """
        key = (clause, facts.get("kind"), facts.get("parent_was_in_record_before"))
        if key in self.reported:
            return
        self.reported.add(key)
        self.ctx.violate(clause, facts, self.case)


SESSION: Session | None = None


# ------------------------------------------------------------------------------------------------------------
# monitor 1: Record invariant after every public mutator
# ------------------------------------------------------------------------------------------------------------

def check_invariant(sess: Session, record, where: str, outermost: bool = True) -> None:
    ctx = sess.ctx
    ctx.count("op:invariant")
    length = sess.length
    lists = {kind: list(getattr(record, names[0])()) for kind, names in KINDS.items()}
    ids = {kind: {id(x) for x in items} for kind, items in lists.items()}
    for kind, items in lists.items():
        sess.seen[kind].update((id(x), x) for x in items)

    # -- location order, numbering, lookups
    for kind, items in lists.items():
        _, number_of, by_number, own_number = KINDS[kind]
        ctx.count("op:order")
        ivs_list = [M.intervals_of(x.location) for x in items]
        keys = [M.order_key(iv, length) for iv in ivs_list]
        # an area covering a whole circular record has no start of its own on the ring: it is compared with the
        # areas that do not cross the origin (as starting at 0) but not with those that do
        whole = [sess.circular and iv == [(0, length)] for iv in ivs_list]
        crossing = [len(iv) == 2 for iv in ivs_list]
        for hidden in (whole, crossing):
            bad = M.in_location_order([k for k, h in zip(keys, hidden) if not h])
            if bad is not None:
                sess.violate("list-in-location-order",
                             sess.facts(kind=kind, where=where, starts=keys, any_whole_record_area=any(whole),
                                        any_origin_crossing_area=any(crossing),
                                        locations=[_s(x.location) for x in items]))
                break
        if len(ids[kind]) != len(items):
            sess.violate("feature-listed-once", sess.facts(kind=kind, where=where))
        for pos, item in enumerate(items):
            ctx.count("op:numbering")
            expected = pos + 1
            try:
                got = getattr(record, number_of)(item)
            except Exception as err:  # pylint: disable=broad-except
                got = type(err).__name__
            try:
                own = getattr(item, own_number)()
            except Exception as err:  # pylint: disable=broad-except
                own = type(err).__name__
            try:
                back = getattr(record, by_number)(expected)
            except Exception as err:  # pylint: disable=broad-except
                back = type(err).__name__
            if got != expected or own != expected:
                sess.violate("number-is-position-in-location-order",
                            sess.facts(kind=kind, where=where, position=expected, record_says=got, feature_says=own,
                                       n=len(items), locations=[_s(x.location) for x in items]))
            if back is not item:
                sess.violate("number-identifies-the-same-feature",
                            sess.facts(kind=kind, where=where, position=expected, n=len(items),
                                       got=back if isinstance(back, str) else _s(back.location)))
            if item.parent_record is not record:
                sess.violate("parent-record-link", sess.facts(kind=kind, where=where))
        # features that left the record have no number any more
        for oid, old in sess.seen[kind].items():
            if oid in ids[kind]:
                continue
            ctx.count("op:removed-number-lookup")
            try:
                got = getattr(record, number_of)(old)
            except ValueError:
                continue
            except Exception as err:  # pylint: disable=broad-except
                got = type(err).__name__
            sess.violate("removed-feature-has-no-number",
                        sess.facts(kind=kind, where=where, number_returned=got, n_current=len(items)))
            break   # one report per list and evaluation

    # -- regions never overlap
    region_ivs = [(r, M.normalise(M.intervals_of(r.location))) for r in lists["region"]]
    for (a, aivs), (b, bivs) in itertools.combinations(region_ivs, 2):
        ctx.count("op:regions-disjoint")
        if M.share_a_base(aivs, bivs):
            sess.violate("regions-never-overlap", sess.facts(where=where, a=_s(a.location), b=_s(b.location)))
    if not outermost:
        # inside create_* / clear_* the new parents exist before they are listed: links are checked when the
        # outermost mutator returns
        ctx.count("op:invariant-nested")
        return

    # -- back links
    def in_list(obj, kind):
        return id(obj) in ids[kind]

    for proto in lists["protocluster"]:
        ctx.count("op:parent-link")
        parent = proto.parent
        if parent is None:
            continue
        if not in_list(parent, "candidate_cluster"):
            sess.violate("parent-link-points-into-current-lists",
                         sess.facts(kind="protocluster", where=where, parent=_s(parent.location),
                                    parent_type=type(parent).__name__,
                                    parent_was_in_record_before=id(parent) in sess.seen["candidate_cluster"]))
        elif not any(p is proto for p in parent.protoclusters):
            sess.violate("parent-lists-its-child", sess.facts(kind="protocluster", where=where))
    for cand in lists["candidate_cluster"]:
        for child in cand.protoclusters:
            ctx.count("op:parent-link")
            if not in_list(child, "protocluster"):
                sess.violate("candidate-child-is-in-the-record",
                             sess.facts(kind="candidate_cluster", where=where, candidate=_s(cand.location),
                                        child=_s(child.location)))
    for kind in ("candidate_cluster", "subregion"):
        for area in lists[kind]:
            ctx.count("op:parent-link")
            parent = area.parent
            if parent is None:
                continue
            if not in_list(parent, "region"):
                sess.violate("parent-link-points-into-current-lists",
                             sess.facts(kind=kind, where=where, parent=_s(parent.location),
                                        parent_type=type(parent).__name__, n_regions=len(lists["region"]),
                                        parent_was_in_record_before=id(parent) in sess.seen["region"]))
            else:
                children = parent.candidate_clusters if kind == "candidate_cluster" else parent.subregions
                if not any(c is area for c in children):
                    sess.violate("parent-lists-its-child", sess.facts(kind=kind, where=where))
    for region in lists["region"]:
        for kind, children in (("candidate_cluster", region.candidate_clusters), ("subregion", region.subregions)):
            for child in children:
                ctx.count("op:parent-link")
                if not in_list(child, kind):
                    sess.violate("region-child-is-in-the-record",
                                sess.facts(kind=kind, where=where, region=_s(region.location),
                                           child=_s(child.location)))
                elif child.parent is not region:
                    sess.violate("region-child-links-back",
                                sess.facts(kind=kind, where=where, region=_s(region.location), child=_s(child.location),
                                           child_parent=None if child.parent is None else _s(child.parent.location)))
    # -- CDS <-> region
    cdses = list(record.get_cds_features())
    cds_ids = {id(c) for c in cdses}
    for cds in cdses:
        ctx.count("op:cds-region-link")
        linked = cds.region
        if linked is not None and not in_list(linked, "region"):
            sess.violate("cds-region-link-points-into-current-list",
                        sess.facts(where=where, cds=_s(cds.location), region=_s(linked.location),
                                   n_regions=len(lists["region"])))
            continue
        civs = M.intervals_of(cds.location)
        holders = [r for r, ivs in region_ivs if all(any(s <= cs and ce <= e for s, e in ivs) for cs, ce in civs)]
        if linked is not None and not any(r is linked for r in holders):
            sess.violate("cds-region-link-contains-the-cds",
                        sess.facts(where=where, cds=_s(cds.location), region=_s(linked.location)))
        elif linked is None and holders:
            rparts = M.intervals_of(holders[0].location)
            meet = len(rparts) == 2 and rparts[1][1] == rparts[0][0]
            sess.violate("cds-inside-a-region-is-linked-to-it",
                         sess.facts(where=where, cds=_s(cds.location), region=_s(holders[0].location),
                                    cds_crosses_origin=len(civs) > 1, region_crosses_origin=len(rparts) > 1,
                                    region_parts_meet_around_the_record=meet,
                                    cds_over_the_meeting_point=meet and any(s < rparts[0][0] < e for s, e in civs)))
        elif linked is not None and cds not in linked.cds_children:
            sess.violate("region-lists-its-cds", sess.facts(where=where, cds=_s(cds.location)))
    for region in lists["region"]:
        for cds in region.cds_children:
            if id(cds) not in cds_ids or cds.region is not region:
                sess.violate("region-cds-links-back", sess.facts(where=where, region=_s(region.location),
                                                                cds=_s(cds.location)))


def _wrap(ctx, name):
    original = Record.__dict__[name]

    @functools.wraps(original)
    def wrapper(self, *args, **kwargs):
        sess = SESSION
        mine = sess is not None and self is sess.record
        if not mine:
            return original(self, *args, **kwargs)
        sess.depth += 1
        try:
            result = original(self, *args, **kwargs)
        finally:
            sess.depth -= 1
        sess.ctx.counters[f"monitor:Record.{name}"] += 1
        try:
            check_invariant(sess, self, name, outermost=sess.depth == 0)
        except Exception as err:  # pylint: disable=broad-except
            sess.ctx.violate("harness-error-in-invariant", core.crash_facts(err), sess.case)
        return result

    setattr(Record, name, wrapper)
    instrument._INSTALLED.append((Record, name, original))  # pylint: disable=protected-access


_INSTALLED = False


def install(ctx) -> None:
    """ recording wrappers on the real class: every exit of a public mutator evaluates the invariant """
    global _INSTALLED
    if _INSTALLED:
        return
    logging.disable(logging.CRITICAL)       # add_region logs every refusal
    for name in MUTATORS:
        _wrap(ctx, name)
    _INSTALLED = True


# ------------------------------------------------------------------------------------------------------------
# monitor 2: the component oracle
# ------------------------------------------------------------------------------------------------------------

def current_areas(record):
    return list(record.get_candidate_clusters()) + list(record.get_subregions())


def area_facts(sess: Session, areas) -> dict:
    ivs = [M.intervals_of(a.location) for a in areas]
    facts = M.shape_facts(ivs, sess.length, sess.circular)
    facts["areas"] = [_s(a.location) for a in areas]
    return facts


def count_shapes(ctx, ivs, comps, length, circular) -> bool:
    """ coverage classes named by the property; returns True if some pair of areas overlaps """
    ctx.count("topology:circular" if circular else "topology:linear")
    any_overlap = False
    if len(comps) > 1:
        ctx.count("shape:disjoint-components")
    crossing = [i for i, a in enumerate(ivs) if len(a) == 2]
    if crossing:
        ctx.count("shape:origin-crossing-area")
    if any(a == [(0, length)] for a in ivs):
        ctx.count("shape:area-is-whole-record")
    for i, j in itertools.combinations(range(len(ivs)), 2):
        a, b = ivs[i], ivs[j]
        if M.share_a_base(a, b):
            any_overlap = True
            na, nb = M.normalise(a), M.normalise(b)
            if na != nb and (all(any(s <= x and y <= e for s, e in na) for x, y in nb)
                             or all(any(s <= x and y <= e for s, e in nb) for x, y in na)):
                ctx.count("shape:nested")
        elif any(e1 == s2 or e2 == s1 or (circular and ((e1 == length and s2 == 0) or (e2 == length and s1 == 0)))
                 for s1, e1 in a for s2, e2 in b):
            ctx.count("shape:adjacent-not-linked")
    for comp in comps:
        if len(comp) >= 3 and M.direct_links(ivs, comp) < len(comp) * (len(comp) - 1) // 2:
            ctx.count("shape:chained")
        span = M.size(M.expected_region(ivs, comp))
        if span == length and len(comp) > 1:
            ctx.count("shape:component-covers-record")
        if circular and 2 * span > length and span < length:
            ctx.count("shape:component-longer-than-half")
        inner = [i for i in comp if i not in crossing]
        if len(inner) >= 2 and len(inner) < len(comp) and len(M.components([ivs[i] for i in inner])) > 1:
            ctx.count("shape:linked-only-through-origin-crossing-area")
    return any_overlap


def check_regions(sess: Session, record, returned=None, handed=None) -> bool:
    """ the regions were just (re)created from the record's areas (or from the areas handed to create_regions):
        compare with the components """
    ctx = sess.ctx
    length, circular = sess.length, sess.circular
    areas = current_areas(record) if handed is None else list(handed)
    regions = list(record.get_regions())
    ivs = [M.intervals_of(a.location) for a in areas]
    for area, iv in zip(areas, ivs):
        reason = M.wellformed_area(iv, length, circular)
        if reason:
            ctx.count("skipped:ill-formed-area")
            ctx.extra.setdefault("ill_formed_area_examples", [])
            if len(ctx.extra["ill_formed_area_examples"]) < 3:
                ctx.extra["ill_formed_area_examples"].append([type(area).__name__, _s(area.location), reason])
            return False
    ctx.count("op:components")
    comps = M.components(ivs)
    shape = M.shape_facts(ivs, length, circular)
    if shape.get("stretches_on_pre_origin_side", 0) >= 2:
        ctx.count("shape:several-stretches-on-pre-origin-side")
    any_overlap = count_shapes(ctx, ivs, comps, length, circular)
    base = sess.facts(areas=[_s(a.location) for a in areas], regions=[_s(r.location) for r in regions], **shape)
    if returned is not None and returned != len(regions):
        ctx.violate("create-regions-returns-the-number-of-regions", dict(base, returned=returned), sess.case)
    # membership
    index = {id(a): i for i, a in enumerate(areas)}
    owners: dict[int, list[int]] = {i: [] for i in range(len(areas))}
    members: list[list[int]] = []
    for r, region in enumerate(regions):
        mine = []
        for child in list(region.candidate_clusters) + list(region.subregions):
            if id(child) not in index:
                ctx.violate("region-child-is-in-the-record", dict(base, child=_s(child.location)), sess.case)
                continue
            mine.append(index[id(child)])
            owners[index[id(child)]].append(r)
        members.append(sorted(mine))
    for i, own in owners.items():
        ctx.count("op:membership")
        if not own:
            ctx.violate("area-lies-in-a-region", dict(base, area=_s(areas[i].location)), sess.case)
        elif len(own) > 1:
            ctx.violate("area-lies-in-one-region-only", dict(base, area=_s(areas[i].location)), sess.case)
        elif areas[i].parent is not regions[own[0]]:
            ctx.violate("area-parent-is-its-region", dict(base, area=_s(areas[i].location)), sess.case)
    comp_of = {i: c for c, comp in enumerate(comps) for i in comp}
    for r, region in enumerate(regions):
        touched = sorted({comp_of[i] for i in members[r]})
        span_sizes = [M.size(M.expected_region(ivs, comps[c])) for c in touched]
        facts = dict(base, region=_s(region.location), n_components_in_region=len(touched),
                     region_members=[_s(areas[i].location) for i in members[r]],
                     member_component_longer_than_half=circular and any(2 * s > length for s in span_sizes),
                     member_crosses_origin=any(len(ivs[i]) == 2 for i in members[r]))
        if len(touched) > 1:
            ctx.violate("same-region-implies-chain-of-overlaps", facts, sess.case)
            continue
        if not touched:
            continue
        ctx.count("op:region-location")
        expected = M.expected_region(ivs, comps[touched[0]])
        got = M.intervals_of(region.location)
        reason = M.wellformed_area(got, length, circular)
        if reason:
            ctx.violate("region-location-wellformed", dict(facts, reason=reason), sess.case)
        elif M.normalise(got) != expected and sorted(members[r]) == comps[touched[0]]:
            ctx.violate("region-location-is-span-of-its-component", dict(facts, expected=expected), sess.case)
    for c, comp in enumerate(comps):
        homes = sorted({r for i in comp for r in owners[i]})
        if len(homes) > 1:
            ctx.violate("chain-of-overlaps-implies-same-region",
                        dict(base, component=[_s(areas[i].location) for i in comp],
                             component_longer_than_half_record=circular and 2 * M.size(M.expected_region(ivs, comp)) > length),
                        sess.case)
    if len(regions) != len(comps):
        ctx.count("observed:region-count-differs-from-components")
    return len(areas) >= 2 and any_overlap


# ------------------------------------------------------------------------------------------------------------
# driver
# ------------------------------------------------------------------------------------------------------------

def make_object(world, op):
    name = op[0]
    if name == "add_cds_feature":
        g = world["genes"][op[1]]
        return W.make_cds(g["name"], g["loc"], g["core"])
    if name == "add_protocluster":
        p = world["protoclusters"][op[1]]
        return W.make_protocluster([tuple(c) for c in p["core"]], [tuple(e) for e in p["extent"]], p["product"],
                                   cutoff=p.get("cutoff", 10), neighbourhood=p.get("neighbourhood", 10))
    if name == "add_subregion":
        s = world["subregions"][op[1]]
        return W.make_subregion([tuple(e) for e in s["extent"]], s["label"])
    return None


def run_history(ctx, case) -> None:
    global SESSION
    install(ctx)
    world = case
    record = W.make_record(world["L"], world["circular"])
    sess = Session(ctx, case, record)
    SESSION = sess
    nontrivial = False
    cleared_since_create = False
    genes_added: set[int] = set()
    built: dict = {}
    try:
        for op in case["ops"]:
            name = op[0]
            had_regions = bool(record.get_regions())
            had_candidates = bool(record.get_candidate_clusters())
            # legality (the generator's model and the real state can only differ after a deviation)
            if (name == "create_regions" and had_regions) or (name == "create_candidate_clusters" and had_candidates) \
                    or (name == "add_cds_feature" and op[1] in genes_added):
                ctx.count("skipped:illegal-op")
                continue
            ctx.count("hist-op:" + name)
            areas_before = current_areas(record)
            try:
                # a caller may hand back the very object that a clear_* removed earlier: every other time a spec
                # comes round again its old object is reused (if it is no longer in the record), else built afresh
                key = (name, op[1]) if len(op) > 1 else None
                old = built.get(key)
                if old is not None and name in ("add_subregion", "add_protocluster") and (len(built) + op[1]) % 2 == 0 \
                        and not any(old is area for area in current_areas(record)):
                    obj = old
                    ctx.count("history:removed-area-object-added-again")
                else:
                    obj = make_object(world, op)
                if key is not None and obj is not None:
                    built[key] = obj
            except ValueError as err:
                ctx.count("skipped:spec-rejected-by-constructor")
                ctx.extra.setdefault("constructor_rejections", [])
                if len(ctx.extra["constructor_rejections"]) < 3:
                    ctx.extra["constructor_rejections"].append([op, str(err)[:120]])
                continue
            sess.current_op = name
            try:
                if name == "create_regions" and (len(sess.done) + world["L"]) % 3 == 0 and current_areas(record):
                    # create_regions also takes the areas to use: every third creation first asks for the regions
                    # of one kind of area only (the other kind given as an explicit empty list), or of every other area
                    cands, subs = list(record.get_candidate_clusters()), list(record.get_subregions())
                    mode = ("candidates-only", "subregions-only", "every-other-area")[(len(sess.done) // 3) % 3]
                    if mode == "candidates-only":
                        subs = []
                    elif mode == "subregions-only":
                        cands = []
                    else:
                        cands, subs = cands[::2], subs[1::2]
                    partial = record.create_regions(candidate_clusters=cands, subregions=subs)
                    ctx.count("hist:create-regions-from-handed-areas")
                    ctx.count("handed:" + mode)
                    if not cands + subs:
                        if partial != 0 or record.get_regions():
                            ctx.violate("no-areas-handed-no-regions", sess.facts(op=name, mode=mode), case)
                    elif check_regions(sess, record, returned=partial, handed=cands + subs):
                        nontrivial = True
                    record.clear_regions()
                result = getattr(record, name)(obj) if obj is not None else getattr(record, name)()
            except Exception as err:  # pylint: disable=broad-except
                recreating = name == "create_regions" or (name in G.OPS_CLEAR and name != "clear_regions" and had_regions)
                facts = sess.facts(op=name, **core.crash_facts(err))
                if recreating:
                    remaining = current_areas(record)
                    facts.update(area_facts(sess, remaining))
                    ctx.count("observed:region-creation-raised")
                    if facts.get("stretches_on_pre_origin_side", 0) >= 2:
                        ctx.count("shape:several-stretches-on-pre-origin-side")
                    ctx.violate("region-creation-succeeds", facts, case)
                else:
                    ctx.violate("mutator-raises", facts, case)
                nontrivial = True
                break
            sess.done.append(name)
            sess.current_op = None
            if name == "add_cds_feature":
                genes_added.add(op[1])
                if had_regions:
                    ctx.count("hist:cds-added-after-regions")
            # which regions must exist now
            if name == "create_regions":
                if cleared_since_create:
                    ctx.count("hist:clear-then-create")
                    nontrivial = True
                if check_regions(sess, record, returned=result):
                    nontrivial = True
            elif name in ("clear_regions", "strip_antismash_annotations"):
                cleared_since_create = True
                if record.get_regions():
                    ctx.violate("clear-regions-leaves-no-region", sess.facts(op=name), case)
                if name == "strip_antismash_annotations" and (current_areas(record) or record.get_protoclusters()):
                    ctx.violate("strip-leaves-no-area", sess.facts(op=name), case)
            elif name in ("clear_candidate_clusters", "clear_protoclusters", "clear_subregions"):
                cleared_since_create = True
                if had_regions:
                    ctx.count("hist:implicit-recreate")
                    if check_regions(sess, record):
                        nontrivial = True
                    if current_areas(record):
                        ctx.count("hist:clear-then-create")
                        nontrivial = True
                elif record.get_regions():
                    ctx.violate("clear-creates-regions-only-if-they-existed", sess.facts(op=name), case)
            elif name in ("add_subregion", "create_candidate_clusters") and had_regions \
                    and len(current_areas(record)) > len(areas_before):
                ctx.count("hist:area-added-after-regions")
                if name == "add_subregion" and (len(sess.done) + op[1]) % 2 == 0:
                    # the caller makes a region of the new subregion itself: add_region takes it when it shares no
                    # base with a region of the record and refuses it otherwise (the monitor on add_region judges
                    # the record afterwards, whatever was decided)
                    new_ivs = M.normalise(M.intervals_of(obj.location))
                    clash = any(M.share_a_base(new_ivs, M.normalise(M.intervals_of(r.location))) for r in record.get_regions())
                    ctx.count("hist-op:add_region")
                    ctx.count("add_region:overlapping-a-region" if clash else "add_region:clear-of-all-regions")
                    sess.current_op = "add_region"
                    try:
                        record.add_region(Region(candidate_clusters=[], subregions=[obj]))
                        refused = False
                    except ValueError:
                        refused = True
                    sess.current_op = None
                    if refused != clash:
                        ctx.violate("add-region-refuses-exactly-overlapping-regions",
                                    sess.facts(op="add_region", new=_s(obj.location), overlaps_existing=clash, refused=refused,
                                               new_crosses_origin=len(new_ivs) > 1 or len(obj.location.parts) > 1,
                                               regions=[_s(r.location) for r in record.get_regions()]), case)
                        if not refused:
                            break       # the record holds overlapping regions now: nothing further can be judged
                    if refused and obj.parent is not None:
                        obj.parent = None       # the refused region object is the caller's to discard
            if name == "create_candidate_clusters" and cleared_since_create:
                ctx.count("hist:clear-then-create")
                nontrivial = True
    finally:
        SESSION = None
    ctx.case(("history", case), nontrivial=nontrivial,
             sample={"L": case["L"], "circular": case["circular"], "style": case.get("style"),
                     "protoclusters": [p["extent"] for p in case["protoclusters"]],
                     "subregions": [s["extent"] for s in case["subregions"]], "ops": case["ops"]} if nontrivial else None)


def run_detection_glue(ctx, case):
    """ the areas reach the record the way the pipeline hands them over: antismash.main.run_detection collects the
        protoclusters and subregions a detection module predicts, forms candidate clusters and regions, and marks
        a record without regions as skipped. The module is a stand-in predicting the world's areas. """
    global SESSION
    from types import SimpleNamespace
    from unittest.mock import patch as mock_patch
    import antismash.main as main_module
    from antismash.common.module_results import DetectionResults
    from antismash.detection import DetectionStage
    install(ctx)
    world = case
    record = W.make_record(world["L"], world["circular"])
    sess = Session(ctx, case, record)
    SESSION = sess
    try:
        for i in range(len(world["genes"])):
            record.add_cds_feature(make_object(world, ["add_cds_feature", i]))
        protos = [make_object(world, ["add_protocluster", i]) for i in range(len(world["protoclusters"]))]
        subs = [make_object(world, ["add_subregion", i]) for i in range(len(world["subregions"]))]

        class Predicted(DetectionResults):
            def get_predicted_protoclusters(self):
                return list(protos)

            def get_predicted_subregions(self):
                return list(subs)

        stub = SimpleNamespace(__name__="vf.stand_in_detection", is_enabled=lambda _options: True,
                               run_on_record=lambda rec, _previous, _options: Predicted(rec.id),
                               regenerate_previous_results=lambda *_args: None)
        stages = {stage: [] for stage in DetectionStage}
        stages[DetectionStage.AREA_FORMATION] = [stub]
        ctx.count("hist-op:run_detection")
        sess.current_op = "run_detection"
        try:
            with mock_patch.object(main_module, "_DETECTION_MODULES", stages):
                main_module.run_detection(record, SimpleNamespace(all_enabled_modules=[stub]), {})
        except Exception as err:  # pylint: disable=broad-except
            facts = sess.facts(op="run_detection", **core.crash_facts(err))
            facts.update(area_facts(sess, current_areas(record)))
            ctx.violate("region-creation-succeeds", facts, case)
            return
        sess.current_op = None
        sess.done.append("run_detection")
        check_regions(sess, record)
        if bool(record.skip) != (not record.get_regions()):
            ctx.violate("record-skipped-exactly-without-regions",
                        sess.facts(skip=record.skip, regions=len(record.get_regions())), case)
        numbers_shown_in_a_file(sess, record, case)
    finally:
        SESSION = None
    ctx.case(("glue", case), nontrivial=len(world["protoclusters"]) + len(world["subregions"]) >= 2)


_AREA_KINDS = {"subregion": ("subregion_number", "get_subregions", "get_subregion"),
               "protocluster": ("protocluster_number", "get_protoclusters", "get_protocluster"),
               "cand_cluster": ("candidate_cluster_number", "get_candidate_clusters", "get_candidate_cluster"),
               "region": ("region_number", "get_regions", "get_region")}


def _identity(record, area):
    kind = type(area).__name__
    if kind == "SubRegion":
        return [_s(area.location), area.label]
    if kind in ("Protocluster", "SideloadedProtocluster"):
        return [_s(area.location), _s(area.core_location), area.product]
    if kind == "CandidateCluster":
        return [_s(area.location), str(area.kind), [[_s(p.location), p.product] for p in area.protoclusters]]
    return [_s(area.location), [_s(c.location) for c in area.candidate_clusters], [[_s(x.location), x.label] for x in area.subregions]]


def numbers_shown_in_a_file(sess: Session, record, case) -> None:
    """ the numbers are written on the features of a file, which lists its features in whatever order: each written
        feature shows the number of the area it was written from, and in the record read from the file that number
        still identifies that area """
    ctx = sess.ctx
    bio = record.to_biopython()
    # the genes of these worlds carry placeholder translations that no file could hold: the areas are what is read
    bio.features = [feature for feature in bio.features if feature.type != "CDS"]
    written = {kind: {} for kind in _AREA_KINDS}
    slots = [i for i, feature in enumerate(bio.features) if feature.type in _AREA_KINDS]
    for i in slots:
        feature = bio.features[i]
        qualifier, _all, by_number = _AREA_KINDS[feature.type]
        number = int(feature.qualifiers[qualifier][0])
        original = getattr(record, by_number)(number)
        ctx.count("op:number-written")
        if _s(original.location) != _s(feature.location) or number in written[feature.type]:
            ctx.violate("written-number-identifies-the-written-area",
                        sess.facts(kind=feature.type, number=number, written=_s(feature.location), area=_s(original.location)), case)
            return
        written[feature.type][number] = _identity(record, original)
    listing = ("reversed", "as-written", "rotated")[zlib.crc32(json.dumps(case, sort_keys=True).encode()) % 3]
    areas = [bio.features[i] for i in slots]
    if listing == "reversed":
        areas.reverse()
    elif listing == "rotated":
        areas = areas[len(areas) // 2:] + areas[:len(areas) // 2]
    for i, feature in zip(slots, areas):
        bio.features[i] = feature
    ctx.count("file-listing:" + listing)
    try:
        reread = Record.from_biopython(bio, taxon="bacteria")
    except Exception as err:  # pylint: disable=broad-except
        ctx.violate("record-reads-back-from-its-own-features", sess.facts(listing=listing, **core.crash_facts(err)), case)
        return
    for kind, (_qualifier, everything, by_number) in _AREA_KINDS.items():
        if len(getattr(reread, everything)()) != len(written[kind]):
            ctx.violate("read-areas-are-the-written-areas",
                        sess.facts(kind=kind, listing=listing, written=len(written[kind]), read=len(getattr(reread, everything)())), case)
            continue
        twins = len({json.dumps(v[:1]) for v in written[kind].values()}) < len(written[kind])
        for number, identity in sorted(written[kind].items()):
            ctx.count("op:number-read-back")
            if twins:
                ctx.count("op:number-read-back-among-identical-coordinates")
            got = _identity(reread, getattr(reread, by_number)(number))
            if got != identity:
                ctx.violate("number-shown-identifies-the-same-area-after-reading",
                            sess.facts(kind=kind, listing=listing, number=number, written=identity, read=got,
                                       identical_coordinates=twins), case)
                break


def run(ctx):
    global _INSTALLED
    rng = ctx.rng("worlds")
    for i in ctx.cases(ctx.quota(2500, 160000)):
        world = G.make_world(rng)
        if not world["protoclusters"] and not world["subregions"]:
            continue
        build = dict(world, ops=G.build_ops(world, rng))
        ctx.guard("harness-or-crash", build, run_history, ctx, build)
        hist = dict(world, ops=G.random_history(world, rng))
        ctx.guard("harness-or-crash", hist, run_history, ctx, hist)
        glue = dict(world, ops=[["run_detection"]])
        ctx.guard("harness-or-crash", glue, run_detection_glue, ctx, glue)
    instrument.uninstall_all()
    _INSTALLED = False


def replay(ctx, case):
    if case.get("ops") == [["run_detection"]]:
        run_detection_glue(ctx, case)
        return
    run_history(ctx, case)


# ------------------------------------------------------------------------------------------------------------
# known findings (classifiers keyed on clause + structural facts)
# ------------------------------------------------------------------------------------------------------------

@findings.classifier("c06_sweep_merges_only_last_section_into_origin_section")
def _c06_first_last_merge(clause, facts):
    """ create_regions sweeps the sorted areas into sections and afterwards merges only the LAST section into the
        origin-crossing first one: when two or more separate stretches of areas hang onto the pre-origin side of the
        origin-crossing areas, the others stay separate and add_region refuses them.
        Must not hide: a failing region creation on linear records, without an origin-crossing area, with fewer than
        two such stretches, or any other exception. """
    return (clause == "region-creation-succeeds" and facts.get("circular") is True
            and facts.get("exception") == "ValueError" and facts.get("message") == "regions cannot overlap"
            and facts.get("stretches_on_pre_origin_side", 0) >= 2)


@findings.classifier("c06_connect_sorts_members_by_record_half")
def _c06_connect_by_half(clause, facts):
    """ connect_locations, given an origin-crossing location, files every other location under pre- or post-origin
        by its distance to the record ends, not by the side it is attached to: once the origin-crossing component is
        longer than half the record a member can land on the wrong side, both sides then overlap and the hull becomes
        the whole record - the region covers bases outside its component, swallows unrelated areas, or collides with
        the next region.
        Must not hide: a wrong region location or foreign members when the region has no origin-crossing member or
        its component is at most half the record; failures on linear records. """
    if facts.get("circular") is not True:
        return False
    if clause in ("region-location-is-span-of-its-component", "same-region-implies-chain-of-overlaps"):
        return facts.get("member_crosses_origin") is True and facts.get("member_component_longer_than_half") is True
    if clause == "region-creation-succeeds":
        return (facts.get("exception") == "ValueError" and facts.get("message") == "regions cannot overlap"
                and facts.get("origin_component_longer_than_half") is True
                and facts.get("stretches_on_pre_origin_side", 0) < 2)
    return False


@findings.classifier("c06_numbering_kept_after_clear")
def _c06_stale_numbers(clause, facts):
    """ clear_protoclusters / clear_candidate_clusters / clear_subregions / clear_regions empty the lists but not
        the numbering dictionaries: get_*_number(feature) of a removed feature still answers with its old number.
        Must not hide: wrong numbers or lookups for features that are in the record. """
    return clause == "removed-feature-has-no-number" and facts.get("some_clear_was_called") is True \
        and isinstance(facts.get("number_returned"), int)


@findings.classifier("c06_whole_record_area_orders_both_ways")
def _c06_whole_record_order(clause, facts):
    """ CDSCollection.__lt__ answers True both ways for an area covering a whole circular record and an
        origin-crossing area (containment shortcut one way, negative start the other way): bisect then files later
        origin-crossing areas on the wrong side of it and the list (and the numbers) leave location order.
        Must not hide: lists out of order without a whole-record area or without an origin-crossing area. """
    return clause == "list-in-location-order" and facts.get("circular") is True \
        and facts.get("any_whole_record_area") is True and facts.get("any_origin_crossing_area") is True


@findings.classifier("c06_protocluster_parent_is_discarded_candidate")
def _c06_discarded_parent(clause, facts):
    """ candidate formation constructs candidates that it then drops as redundant or replaces ('promotion'); the
        constructor already made them the parent of their protoclusters, so right after create_candidate_clusters a
        protocluster's parent can be a candidate that never entered the record.
        Must not hide: a parent link to a candidate or region that WAS in the record and has been cleared. """
    return (clause == "parent-link-points-into-current-lists" and facts.get("kind") == "protocluster"
            and facts.get("parent_was_in_record_before") is False and facts.get("where") == "create_candidate_clusters")


@findings.classifier("c06_whole_record_region_in_two_meeting_parts")
def _c06_meeting_parts(clause, facts):
    """ when the pre- and post-origin sections of a component meet exactly (pre.start == post.end) connect_locations
        returns join{[x:L],[0:x]} instead of [0:L]; a CDS lying over x is inside the region but inside neither part,
        so it is not linked to the region.
        Must not hide: an unlinked CDS inside a region whose parts do not meet, or one that does not lie over the
        meeting point. """
    return clause == "cds-inside-a-region-is-linked-to-it" and facts.get("region_parts_meet_around_the_record") is True \
        and facts.get("cds_over_the_meeting_point") is True
