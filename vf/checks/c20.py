"""C20 A failed or refused write never damages existing results.

Two parts, both executing the real code of /repo:

(W) fault enumeration over the conversion sequence of `AntismashResults.write_to_file` and
    `serialiser.dump_records(..., handle)`.  A fault-free run of a results object counts the conversion
    events (PY_START of `to_json` / `__json__` / `_base_convertor` / `*_to_json` / `gather_record_areas` /
    `dump_records`, observed through `sys.monitoring`, which also sees the callbacks orjson makes while
    serialising) and the auxiliary events (every other function of the antismash package entered during the
    call).  Then the run is repeated once per (position, error kind) with a source-free failpoint: the
    PY_START callback raises at event p, or the PY_RETURN callback of event p plants an un-serialisable
    value into the returned container.  Oracle per fault run: an exception related to the fault reaches the
    caller; the bytes at the pre-existing target are unchanged; the audit-hook trace (`sys.addaudithook`,
    restricted to the target path) contains no write-mode open / remove / rename / truncate of the target;
    a file-object target received no write() call.  Oracle per fault-free run: every such event follows the
    end of the last conversion.
(D) `antismash.main.prepare_output_directory` over every subset of a directory-content alphabet x run mode
    x log file configuration x state of the directory path.  Oracle: refusal (AntismashInputError) exactly
    when something foreign is present; recursive listing with content hashes unchanged after a refusal;
    after an accepted run only top-level `*.region???.gbk` files may have disappeared; audit trace agrees.

One audit hook and one sys.monitoring tool are installed per process (audit hooks cannot be removed); both
have an on/off switch and never raise into the code under test except for the injected faults themselves.
"""
from __future__ import annotations

import atexit
import dataclasses
import fnmatch
import hashlib
import itertools
import json
import logging
import os
import shutil
import sys
import tempfile
import time

import orjson
from Bio.Seq import Seq

from antismash.common import json as as_json
from antismash.common import serialiser
from antismash.common.errors import AntismashInputError
from antismash.common.module_results import ModuleResults
from antismash.common.secmet.record import Record

from vf import findings

PROPERTY = "C20"
LEVEL = "fault_enumeration"
PARALLEL = True

# strict readings of the statement that the current tree does not meet (see notes/agents/C20-findings.json);
# switching one off removes the corresponding dimension from the oracle, not from the workload
STRICT_HIDDEN_ENTRIES = True       # a hidden entry in the output directory is "anything other than ..."
STRICT_REUSE_ELSEWHERE = True      # results reused from another directory do not make this directory's content "reused"

RULE = ("(W) results objects with R records x M modules per record (record r carries the composition rotated by r); "
        "module kinds: plain stub, stub with lazily converted children (to_json/__json__/dataclass/Seq/nested chain, "
        "converted inside orjson through _base_convertor), stub converting children eagerly, None, TTAResults, "
        "SideloadedResults, HMMDetectionResults(RuleDetectionResults from the real rule pipeline driven by a "
        "DynamicProfile); records carry real CDS features, protoclusters, candidates and regions when a real detection "
        "result is present. Quick: R=1 with every ordered composition for M<=2, R=2 with every composition for M<=1 and "
        "4 seeded ordered pairs; thorough: R in 1..3 x (every ordered composition for M<=2 + 24 seeded compositions each "
        "for M=3 and M=4). For each shape and each of {write_to_file, dump_records} x {path target with a pre-existing "
        "file}: one fault-free run, then EVERY conversion event position 1..N x EVERY error kind (TypeError, ValueError, "
        "KeyError, un-serialisable object planted in the value returned at p; plus extra kinds - one rotating with the "
        "position in the quick tier, all in the thorough tier: AttributeError, RecursionError, MemoryError, "
        "KeyboardInterrupt, >64-bit int, lone surrogate, tuple key, reference cycle, child whose to_json raises); the "
        "target variants 'file object' and 'target path missing' get the same sweep (quick: one of them for every other "
        "shape; thorough: all); every auxiliary function entry of 2 (quick) / 8 (thorough) representative shapes is hit "
        "with one rotating (quick) / all three (thorough) exception kinds; natural failures (raw dict instead of "
        "ModuleResults, to_json returning object() / 2**70 / a child that raises, to_json raising) at every (record, "
        "module) index. (D) every subset of {log file, previous json, x.region001.gbk, stray file, stray dir, index.html, "
        "hidden file, near-miss region names} x input in {absent, input/ dir, file named input} x {fresh, reuse json "
        "inside, reuse json elsewhere} x logfile {unset, inside, outside} x cwd {neutral, inside the stray dir} x "
        "{explicit name, name derived from the input}; plus path missing / path is a file (quick tier: all 64 subsets of "
        "the first six elements with input absent / input dir; the two added elements singly next to <= 3 others; a "
        "file named input next to <= 2 elements; fewer log/cwd/name combinations). "
        "A case is non-trivial when a fault fired at a counted position, or the directory path is not an empty "
        "directory; distinct by (variant, shape, event class, position, kind) resp. by the full directory case.")

ASSUMPTIONS = [
    "A conversion failure is an exception raised at the entry of a Python function of the conversion, or an "
    "un-serialisable value in a returned container; failures inside C code of orjson other than through its "
    "default callback or its own type checks are not injected.",
    "Fault granularity for auxiliary code is function entry (PY_START), not every bytecode.",
    "'Reported' is read as: an exception whose cause/context chain contains the injected error (or orjson's "
    "JSONEncodeError for planted values) reaches the caller of write_to_file / dump_records.",
    "Reuse with the JSON inside the output directory: everything in that directory counts as 'the results being "
    "reused' (antiSMASH cannot tell them apart); only top-level *.region???.gbk may then disappear.",
    "Only regular files and directories are generated (no symlinks, devices, unreadable entries); operating-system "
    "write failures (ENOSPC, EACCES) after the target was opened are outside the statement and not injected.",
    "The ordering of _run_antismash (json before annotate_records/write_outputs) is not executed: it needs the "
    "external binaries of the full pipeline.",
]

REQUIRED = ["op:bytes-unchanged", "op:failure-reported", "op:trace-clean-on-failure", "op:faultfree-order",
            "W:fault-in-to_json-phase", "W:fault-in-dumps-phase", "W:kind:TypeError", "W:kind:ValueError",
            "W:kind:KeyError", "W:kind:unser-object", "W:aux-faults", "W:natural-faults", "W:real:tta",
            "W:real:side", "W:real:hmm", "W:target:handle", "W:pre:missing", "audit:write-open-seen",
            "op:dir-refused-unchanged", "op:dir-accepted-only-region-gbk-removed", "D:accepted-own-content-only",
            "D:refused-foreign", "D:refused-foreign:reuse-from-cwd:derived-name", "D:region-gbk-removed-on-reuse", "D:path-is-file", "D:path-missing", "op:E-whole-run-fault"]

INJECT_MESSAGE = "vf-c20 injected conversion failure"
QUICK_PAIRS_FOR_TWO_RECORDS = 4
THOROUGH_SAMPLE_PER_SIZE = 24


# --------------------------------------------------------------------------------------------
# the per-process monitor: audit hook + sys.monitoring tool, both switchable
# --------------------------------------------------------------------------------------------

_WRITE_FLAGS = os.O_WRONLY | os.O_RDWR | os.O_APPEND | os.O_CREAT | os.O_TRUNC
_TWO_PATH_EVENTS = {"os.rename", "shutil.move"}                       # source disappears, destination changes
_DEST_EVENTS = {"os.link", "os.symlink", "shutil.copyfile", "shutil.copymode", "shutil.copystat", "shutil.copytree"}
_ONE_PATH_EVENTS = {"os.remove", "os.truncate", "os.rmdir", "os.mkdir", "os.chmod", "os.chown", "os.utime",
                    "shutil.rmtree", "shutil.make_archive", "shutil.unpack_archive"}
_FS_EVENTS = {"open"} | _TWO_PATH_EVENTS | _DEST_EVENTS | _ONE_PATH_EVENTS

RAISE_KINDS = {
    "TypeError": TypeError, "ValueError": ValueError, "KeyError": KeyError,
    "AttributeError": AttributeError, "RecursionError": RecursionError, "MemoryError": MemoryError,
    "KeyboardInterrupt": KeyboardInterrupt,
}
PLANT_KINDS = ["unser-object", "unser-bigint", "unser-surrogate", "unser-badkey", "unser-cycle", "unser-raising-child"]
CORE_KINDS = ["TypeError", "ValueError", "KeyError", "unser-object"]
EXTRA_KINDS = ["AttributeError", "RecursionError", "MemoryError", "KeyboardInterrupt"] + PLANT_KINDS[1:]
CONV_NAMES = {"to_json", "__json__", "_base_convertor", "gather_record_areas", "dump_records"}
POISON_KEY = "vf_c20_planted"


class _RaisingChild:
    """ planted into a returned container: its conversion fails inside orjson's default callback """
    def to_json(self):
        raise ValueError(INJECT_MESSAGE + " (planted child)")


def _plant(value, kind) -> bool:
    """ makes the (fresh) container returned by a conversion un-serialisable; False if it cannot be done """
    if kind == "unser-badkey":
        if isinstance(value, dict):
            value[(1, 2)] = 1
            return True
        return False
    if kind == "unser-cycle":
        payload = value
    elif kind == "unser-object":
        payload = object()
    elif kind == "unser-bigint":
        payload = 2 ** 70
    elif kind == "unser-surrogate":
        payload = "\ud800"
    elif kind == "unser-raising-child":
        payload = _RaisingChild()
    else:
        return False
    if isinstance(value, dict):
        value[POISON_KEY] = payload
        return True
    if isinstance(value, list):
        value.append(payload)
        return True
    if dataclasses.is_dataclass(value) and not isinstance(value, type):
        fields = dataclasses.fields(value)
        if fields and kind != "unser-cycle":
            try:
                object.__setattr__(value, fields[0].name, payload)
                return True
            except Exception:  # pylint: disable=broad-except
                return False
    return False


class _Monitor:
    def __init__(self):
        self.installed = False
        self.tool = None
        self.root = os.path.dirname(os.path.dirname(os.path.abspath(serialiser.__file__))) + os.sep
        self.own_file = os.path.abspath(__file__)
        self.audit_on = False
        self.mon_on = False
        self.watch_exact = frozenset()
        self.watch_prefix = None
        self.trace = []
        self.codeclass = {}
        self.counts = {"conv": 0, "aux": 0}
        self.fault = None
        self.injected = None
        self.fired = False
        self.fired_qualname = None
        self.armed_frame = None
        self.hook_errors = 0

    # ---- installation ------------------------------------------------------------------
    def install(self):
        if self.tool is not None:
            return
        mon = sys.monitoring
        for tool in (3, 4, 5, 2, 1, 0):
            if mon.get_tool(tool) is None:
                mon.use_tool_id(tool, "vf-c20")
                self.tool = tool
                break
        if self.tool is None:
            raise RuntimeError("no free sys.monitoring tool id")
        mon.register_callback(self.tool, mon.events.PY_START, self._on_start)
        mon.register_callback(self.tool, mon.events.PY_RETURN, self._on_return)
        mon.set_events(self.tool, mon.events.PY_START | mon.events.PY_RETURN)
        mon.restart_events()
        if not self.installed:
            sys.addaudithook(self._audit)
            atexit.register(self.uninstall_monitoring)
        self.installed = True

    def uninstall_monitoring(self):
        """ the audit hook cannot be removed (it stays switched off); the monitoring tool can """
        self.audit_on = self.mon_on = False
        if self.tool is not None:
            mon = sys.monitoring
            mon.set_events(self.tool, 0)
            mon.register_callback(self.tool, mon.events.PY_START, None)
            mon.register_callback(self.tool, mon.events.PY_RETURN, None)
            mon.free_tool_id(self.tool)
            self.tool = None
            self.codeclass = {}

    def reset(self, fault=None, watch_exact=(), watch_prefix=None):
        self.trace = []
        self.counts = {"conv": 0, "aux": 0}
        self.fault = fault
        self.injected = None
        self.fired = False
        self.fired_qualname = None
        self.armed_frame = None
        self.watch_exact = frozenset(watch_exact)
        self.watch_prefix = watch_prefix

    # ---- sys.monitoring ------------------------------------------------------------------
    def _classify(self, code):
        filename = code.co_filename
        name = code.co_name
        if filename == self.own_file:
            return "conv" if name in ("to_json", "__json__") else None
        if not filename.startswith(self.root):
            return None
        rel = filename[len(self.root):]
        if rel == os.path.join("common", "json.py") and name == "dumps":
            return "dumps"
        if name in CONV_NAMES or name.endswith("_to_json"):
            return "conv"
        return "aux"

    def _on_start(self, code, _offset):
        cls = self.codeclass.get(code, 0)
        if cls == 0:
            cls = self.codeclass[code] = self._classify(code)
        if cls is None:
            return sys.monitoring.DISABLE
        if not self.mon_on:
            return None
        if cls == "dumps":
            self.trace.append(("dumps-start",))
            return None
        number = self.counts[cls] + 1
        self.counts[cls] = number
        self.trace.append((cls, number, code.co_qualname))
        fault = self.fault
        if fault is not None and fault[1] == number and fault[0] == cls and not self.fired:
            kind = fault[2]
            self.fired_qualname = code.co_qualname
            maker = RAISE_KINDS.get(kind)
            if maker is not None:
                self.fired = True
                self.injected = maker(INJECT_MESSAGE)
                self.trace.append(("fault", kind))
                raise self.injected
            self.armed_frame = sys._getframe(1)  # pylint: disable=protected-access
        return None

    def _on_return(self, code, _offset, retval):
        cls = self.codeclass.get(code, 0)
        if cls == 0:
            cls = self.codeclass[code] = self._classify(code)
        if cls not in ("conv", "dumps"):
            return sys.monitoring.DISABLE
        if not self.mon_on:
            return None
        if cls == "dumps":
            self.trace.append(("dumps-end",))
            return None
        if self.armed_frame is not None and sys._getframe(1) is self.armed_frame:  # pylint: disable=protected-access
            self.armed_frame = None
            if _plant(retval, self.fault[2]):
                self.fired = True
                self.trace.append(("fault", self.fault[2]))
        return None

    # ---- audit hook ----------------------------------------------------------------------
    def _norm(self, path):
        if isinstance(path, int) or path is None:
            return None
        path = os.fspath(path)
        if isinstance(path, bytes):
            path = os.fsdecode(path)
        return os.path.abspath(path)

    def _audit(self, event, args):
        if not self.audit_on or event not in _FS_EVENTS:
            return
        try:
            detail = ""
            if event == "open":
                path, mode, flags = args[0], args[1], args[2]
                writing = (isinstance(flags, int) and bool(flags & _WRITE_FLAGS)) or \
                          (isinstance(mode, str) and bool(set(mode) & set("wax+")))
                if not writing:
                    return
                paths = [path]
                detail = mode if isinstance(mode, str) else f"flags={flags}"
            elif event in _TWO_PATH_EVENTS:
                paths = [args[0], args[1]]
            elif event in _DEST_EVENTS:
                paths = [args[1]]
            else:
                paths = [args[0]]
            for path in paths:
                norm = self._norm(path)
                if norm is None:
                    continue
                if norm in self.watch_exact or (self.watch_prefix and norm.startswith(self.watch_prefix)):
                    self.trace.append(("fs", event, norm, detail))
                    break
        except Exception:  # pylint: disable=broad-except
            self.hook_errors += 1


_M = _Monitor()


# --------------------------------------------------------------------------------------------
# (W) workload: results objects
# --------------------------------------------------------------------------------------------

class _Leaf:
    def __init__(self, n):
        self.n = n

    def to_json(self):
        return {"leaf": self.n}


class _Dunder:
    def __init__(self, n):
        self.n = n

    def __json__(self):
        return {"dunder": self.n, "items": [self.n, str(self.n)]}


class _Chain:
    """ conversions nested inside orjson: the value returned by one default callback needs the next """
    def __init__(self, depth):
        self.depth = depth

    def to_json(self):
        if self.depth:
            return {"next": _Chain(self.depth - 1)}
        return {"end": True}


@dataclasses.dataclass
class _Data(as_json.JSONBase):
    number: int
    child: object


class StubPlain(ModuleResults):
    def to_json(self):
        return {"record_id": self.record_id, "schema_version": 1, "payload": [1, 2.5, "x", None, True, {"k": [0]}]}

    def add_to_record(self, record):
        pass


class StubLazy(ModuleResults):
    """ children are converted only when orjson reaches them (through _base_convertor) """
    def to_json(self):
        return {"record_id": self.record_id, "leaf": _Leaf(1), "dunder": _Dunder(2), "data": _Data(3, _Leaf(4)),
                "seq": Seq("ACGT"), "list": [_Leaf(5), {"deep": _Chain(2)}]}

    def add_to_record(self, record):
        pass


class StubEager(ModuleResults):
    """ children are converted inside the module's own to_json """
    def to_json(self):
        return {"record_id": self.record_id, "children": [_Leaf(i).to_json() for i in range(2)],
                "dunder": _Dunder(0).__json__()}

    def add_to_record(self, record):
        pass


class StubNatural(ModuleResults):
    """ fails without any injection """
    def __init__(self, record_id, how):
        super().__init__(record_id)
        self.how = how

    def to_json(self):
        if self.how == "returns-object":
            return {"record_id": self.record_id, "bad": object()}
        if self.how == "returns-bigint":
            return {"record_id": self.record_id, "bad": [2 ** 70]}
        if self.how == "lazy-child-raises":
            return {"record_id": self.record_id, "bad": _RaisingChild()}
        raise {"raises-TypeError": TypeError, "raises-ValueError": ValueError,
               "raises-KeyError": KeyError}[self.how](INJECT_MESSAGE + " (natural)")

    def add_to_record(self, record):
        pass


class StubNoConversion(ModuleResults):
    """ a results class that has no JSON conversion of its own (the base class has none to offer) """
    def add_to_record(self, record):
        pass


class StubExtendsBase(ModuleResults):
    """ ... or one that builds on whatever the base class converts """
    def to_json(self):
        data = super().to_json()
        data["payload"] = [1, 2, 3]
        return data

    def add_to_record(self, record):
        pass


NATURAL_KINDS = ["rawdict", "returns-object", "returns-bigint", "lazy-child-raises", "raises-TypeError",
                 "raises-ValueError", "raises-KeyError", "no-conversion", "extends-base-conversion"]
MODULE_KINDS = ["plain", "lazy", "eager", "none", "tta", "side", "hmm"]
REAL_KINDS = {"tta", "side", "hmm"}

_RECORD_CACHE: dict = {}


def _dna(rng, length):
    return "".join(rng.choice("ACGT") for _ in range(length))


def _orf(rng, codons):
    stops = {"TAA", "TAG", "TGA"}
    pool = [a + b + c for a in "ACGT" for b in "ACGT" for c in "ACGT" if a + b + c not in stops]
    return "ATG" + "".join(rng.choice(pool) for _ in range(codons - 2)) + "TAA"


def _bare_record(index):
    key = ("bare", index)
    if key not in _RECORD_CACHE:
        import random
        rng = random.Random(1000 + index)
        rec = Record(Seq(_dna(rng, 60 + 12 * index)))
        rec.id = rec.name = f"bare{index}"
        rec.description = "bare record"
        rec.annotations["molecule_type"] = "DNA"
        rec.annotations["topology"] = "linear"
        if index == 1:
            rec.original_id = "original/bare 1"
        _RECORD_CACHE[key] = (rec, None, None)
    return _RECORD_CACHE[key]


def _rich_record(index):
    """ a real record with CDS features, a rule-detected protocluster, sideloaded areas, candidates, regions;
        the rule pipeline is driven through a DynamicProfile (no HMMER needed) """
    key = ("rich", index)
    if key in _RECORD_CACHE:
        return _RECORD_CACHE[key]
    import random
    from antismash.common.hmm_rule_parser import cluster_prediction, rule_parser
    from antismash.common.hmm_rule_parser.structures import DynamicHit, DynamicProfile
    from antismash.common.secmet.features import CDSFeature
    from antismash.common.secmet.locations import FeatureLocation
    from antismash.detection import hmm_detection
    from antismash.detection.sideloader.data_structures import (ProtoclusterAnnotation, SideloadedResults,
                                                                 SubRegionAnnotation, Tool)
    rng = random.Random(2000 + index)
    length = 3000
    bases = list(_dna(rng, length))
    genes = {f"g{index}a": (300, 600, 1), f"g{index}b": (900, 1200, -1 if index % 2 else 1), f"g{index}c": (2000, 2300, 1)}
    for start, end, strand in genes.values():
        orf = _orf(rng, (end - start) // 3)
        if strand == -1:
            orf = str(Seq(orf).reverse_complement())
        bases[start:end] = orf
    seq = "".join(bases)
    rec = Record(Seq(seq))
    rec.id = rec.name = f"rich{index}"
    rec.description = "record with areas"
    rec.annotations["molecule_type"] = "DNA"
    rec.annotations["topology"] = "linear"
    for name, (start, end, strand) in genes.items():
        loc = FeatureLocation(start, end, strand)
        rec.add_cds_feature(CDSFeature(loc, locus_tag=name, translation=str(loc.extract(Seq(seq)).translate(to_stop=True))))
    names = list(genes)
    hits = {names[0]: {"profA"}, names[1]: {"profA"}}

    def find(record, _hmmer_hits):
        return {gene: [DynamicHit(gene, "profA", bitscore=50.)] for gene in hits if record.get_cds_by_name(gene)}
    profiles = {"profA": DynamicProfile("profA", "dynamic test profile", find)}
    rules = rule_parser.Parser("RULE ruleA CATEGORY cat CUTOFF 1 NEIGHBOURHOOD 1 CONDITIONS profA",
                               {"profA"}, {"cat"}).rules
    ruleset = cluster_prediction.Ruleset(tuple(rules), {}, "", {"cat"}, "rule-based-clusters",
                                         dynamic_profiles=profiles, equivalence_groups=[])
    rule_results = cluster_prediction.detect_protoclusters_and_signatures(rec, ruleset)
    assert rule_results.protoclusters, "workload: the rule pipeline found no protocluster"
    hmm = hmm_detection.HMMDetectionResults(rec.id, rule_results, ["ruleA"], "relaxed")
    for proto in hmm.get_predicted_protoclusters():
        rec.add_protocluster(proto)
    tool = Tool("side tool", "1.0", "sideloaded annotations", {"param": ["value"]})
    side = SideloadedResults(rec.id, [SubRegionAnnotation(100, 700, "label", tool, {"x": ["y"]})],
                             [ProtoclusterAnnotation(1900, 2400, "prodX", tool, {"a": ["b"]}, 10, 10)])
    for area in side.subregions:
        rec.add_subregion(area.to_secmet())
    for area in side.protoclusters:
        rec.add_protocluster(area.to_secmet())
    rec.create_candidate_clusters()
    rec.create_regions()
    assert rec.get_regions(), "workload: no regions"
    _RECORD_CACHE[key] = (rec, hmm, side)
    return _RECORD_CACHE[key]


def _module(kind, rec, hmm, side, index):
    if kind == "plain":
        return StubPlain(rec.id)
    if kind == "lazy":
        return StubLazy(rec.id)
    if kind == "eager":
        return StubEager(rec.id)
    if kind == "none":
        return None
    if kind == "tta":
        from antismash.modules.tta.tta import TTAResults
        tta = TTAResults(rec.id, 0.71, 0.65)
        tta.new_feature_from_basics(12 + 3 * index, 1)
        tta.new_feature_from_basics(30, -1)
        return tta
    if kind == "side":
        return side
    if kind == "hmm":
        return hmm
    if kind == "rawdict":
        return {"record_id": rec.id, "schema_version": 1}
    if kind == "no-conversion":
        return StubNoConversion(rec.id)
    if kind == "extends-base-conversion":
        return StubExtendsBase(rec.id)
    if kind in NATURAL_KINDS:
        return StubNatural(rec.id, kind)
    raise ValueError(kind)


def build_results(mods):
    """ mods: one list of module kinds per record """
    records = []
    results = []
    timings = {}
    for index, kinds in enumerate(mods):
        rich = any(kind in ("side", "hmm") for kind in kinds)
        rec, hmm, side = _rich_record(index) if rich else _bare_record(index)
        records.append(rec)
        results.append({f"antismash.vf.m{j}_{kind}": _module(kind, rec, hmm, side, j) for j, kind in enumerate(kinds)})
        timings[rec.id] = {f"antismash.vf.m{j}_{kind}": 0.25 * j for j, kind in enumerate(kinds)}
    return serialiser.AntismashResults("input.gbk", records, results, "vf-test", timings=timings)


def shape_mods(records, composition):
    """ record r gets the composition rotated by r, so module kinds meet every record index """
    comp = list(composition)
    out = []
    for r in range(records):
        k = r % len(comp) if comp else 0
        out.append(comp[k:] + comp[:k])
    return out


# --------------------------------------------------------------------------------------------
# (W) one execution under the monitors
# --------------------------------------------------------------------------------------------

class RecordingHandle:
    """ a file-object target: remembers every write """
    name = "<vf recording handle>"

    def __init__(self):
        self.writes = []

    def write(self, data):
        self.writes.append(data)
        return len(data)


OLD_BYTES = b'{"version": "previous run", "records": []}\n\xff\xfe not even text \x00 tail'

VARIANTS = [("write_to_file", "path", "exists"), ("dump_records", "path", "exists"),
            ("write_to_file", "handle", "n/a"), ("dump_records", "handle", "n/a"),
            ("write_to_file", "path", "missing"), ("dump_records", "path", "missing")]


def _attempt(results, variant, path, fault):
    fn_name, target, pre = variant
    if target == "path":
        if pre == "exists":
            current = _read(path)
            if current != OLD_BYTES:
                with open(path, "wb") as handle:
                    handle.write(OLD_BYTES)
        elif os.path.lexists(path):
            os.remove(path)
    sink = RecordingHandle() if target == "handle" else path
    _M.reset(fault, watch_exact=[path])
    error = None
    _M.audit_on = _M.mon_on = True
    try:
        if fn_name == "write_to_file":
            results.write_to_file(sink)
        else:
            serialiser.dump_records(results.results, results.records, sink)
    except BaseException as err:  # pylint: disable=broad-except
        error = err
    finally:
        _M.audit_on = _M.mon_on = False
        _M.armed_frame = None
    return error, _M.trace, sink


def _warm(results):
    """ an unobserved conversion: fills the lazily computed caches of records and features (area numbers, ...) so
        that the sequence of auxiliary events is the same in every observed run """
    try:
        serialiser.dump_records(results.results, results.records)
    except Exception:  # pylint: disable=broad-except
        pass


def _read(path):
    try:
        with open(path, "rb") as handle:
            return handle.read()
    except FileNotFoundError:
        return None


def _chain(error):
    seen = []
    todo = [error]
    while todo and len(seen) < 12:
        err = todo.pop()
        if err is None or any(err is s for s in seen):
            continue
        seen.append(err)
        todo.extend([err.__cause__, err.__context__])
    return seen


def _events(trace, cls):
    return [entry[2] for entry in trace if entry[0] == cls]


def _w_facts(variant, mods, fault, trace, baseline, **more):
    fn_name, target, pre = variant
    facts = {"function": fn_name, "target": target, "pre_state": pre, "records": len(mods),
             "modules_per_record": max((len(m) for m in mods), default=0),
             "module_kinds": sorted({k for m in mods for k in m})}
    if fault is not None:
        cls, pos, kind = fault
        total = baseline["n"][cls] if baseline else None
        facts.update({"event_class": cls, "error_kind": kind,
                      "event": baseline["names"][cls][pos - 1] if baseline and pos <= total else None,
                      "position": "first" if pos == 1 else ("last" if pos == total else "middle"),
                      "phase": "dumps" if any(e[0] == "dumps-start" for e in trace[:_fault_index(trace)]) else "to_json"})
    facts.update(more)
    return facts


def _fault_index(trace):
    for i, entry in enumerate(trace):
        if entry[0] == "fault":
            return i
    return len(trace)


def _baseline(ctx, mods, variant, path, case):
    """ the fault-free run: counts events, checks the order of the trace, returns the reference """
    results = build_results(mods)
    _warm(results)
    error, trace, sink = _attempt(results, variant, path, None)
    ctx.count("op:faultfree-run")
    if error is not None:
        ctx.violate("fault-free-run-failed", _w_facts(variant, mods, None, trace, None, exception=type(error).__name__,
                                                      message=str(error)[:200]), case)
        return None
    fn_name, target, _pre = variant
    produced = _read(path) if target == "path" else "".join(sink.writes).encode()
    facts = _w_facts(variant, mods, None, trace, None)
    try:
        data = orjson.loads(produced)
        recs = data["records"] if fn_name == "write_to_file" else data
        expected = [sorted(f"antismash.vf.m{j}_{kind}" for j, kind in enumerate(kinds) if kind != "none")
                    for kinds in mods]
        if [sorted(r["modules"]) for r in recs] != expected:
            ctx.violate("fault-free-output-incomplete", facts, case)
            return None
    except Exception as err:  # pylint: disable=broad-except
        ctx.violate("fault-free-output-invalid", dict(facts, exception=type(err).__name__), case)
        return None
    # trace specification: nothing touches the target before the last conversion has ended
    last_conv = max((i for i, e in enumerate(trace) if e[0] in ("conv", "dumps-end")), default=-1)
    fs_events = [(i, e) for i, e in enumerate(trace) if e[0] == "fs"]
    ctx.count("op:faultfree-order")
    early = [e for i, e in fs_events if i < last_conv]
    if early:
        ctx.violate("target-touched-before-conversion-ended", dict(facts, fs_events=[list(e[1:]) for e in early]), case)
    if target == "path":
        if any(e[1] == "open" for _i, e in fs_events):
            ctx.count("audit:write-open-seen")
        else:
            ctx.violate("harness:audit-hook-saw-no-write-open", facts, case)
    names = {"conv": _events(trace, "conv"), "aux": _events(trace, "aux")}
    first_dumps = next((i for i, e in enumerate(trace) if e[0] == "dumps-start"), len(trace))
    conv_in_dumps = sum(1 for e in trace[first_dumps:] if e[0] == "conv")
    return {"results": results, "names": names, "n": {"conv": len(names["conv"]), "aux": len(names["aux"])},
            "bytes": produced, "conv_in_dumps": conv_in_dumps}


def _fault_run(ctx, mods, variant, path, baseline, fault, case, natural=False):
    """ one fault run and all oracle clauses; returns False when the fault could not be placed """
    fn_name, target, pre = variant
    results = baseline["results"] if baseline else build_results(mods)
    if fault and fault[2] in PLANT_KINDS and fault[:2] == ("conv", 1) and fn_name == "dump_records":
        ctx.count("W:plant-not-applicable")      # the value returned by the function under test itself is not converted
        return False
    error, trace, sink = _attempt(results, variant, path, fault)
    fired = _M.fired or natural
    if not fired:
        if fault[2] in PLANT_KINDS and _M.fired_qualname is not None:
            ctx.count("W:plant-not-applicable")          # the event returned something that cannot carry a value
            return False
        ctx.violate("harness:fault-position-not-reached", _w_facts(variant, mods, fault, trace, baseline), case)
        return False
    facts = _w_facts(variant, mods, fault, trace, baseline) if fault else \
        _w_facts(variant, mods, None, trace, None, natural=True)
    if fault and baseline and _M.fired_qualname != baseline["names"][fault[0]][fault[1] - 1]:
        ctx.violate("harness:event-sequence-not-reproducible", dict(facts, got=_M.fired_qualname), case)
    category = "W-" + (facts.get("phase", "natural") if not fault or fault[0] == "conv" else "aux")
    ctx.case((variant, mods, fault, natural), nontrivial=True,
             sample=_sample_once(category, {"part": "W", "variant": list(variant), "mods": mods,
                                            "fault": list(fault) if fault else "natural", "event": facts.get("event"),
                                            "phase": facts.get("phase"),
                                            "outcome": f"{type(error).__name__}: {str(error)[:80]}" if error else None,
                                            "target_bytes_unchanged": (_read(path) == (OLD_BYTES if pre == "exists" else None))
                                            if target == "path" else None}) if error is not None else None)
    if fault:
        ctx.count("W:kind:" + fault[2])
        ctx.count("W:fault-in-" + facts["phase"] + "-phase" if fault[0] == "conv" else "W:aux-faults")
    else:
        ctx.count("W:natural-faults")
    ctx.count("W:target:" + target)
    if target == "path":
        ctx.count("W:pre:" + pre)
    # clause 1: the failure reaches the caller, and it is this failure
    ctx.count("op:failure-reported")
    if error is None:
        after = _read(path) if target == "path" else "".join(sink.writes).encode()
        same = baseline is not None and after == baseline["bytes"]
        if fault and fault[0] == "aux" and same:
            ctx.count("W:aux-fault-absorbed-same-output")   # caught by a handler of the code, no effect on the output
        else:
            ctx.violate("conversion-failure-not-reported", dict(facts, output_equals_fault_free=same), case)
    else:
        chain = _chain(error)
        if fault and fault[2] in RAISE_KINDS:
            related = any(err is _M.injected for err in chain)
        elif fault:
            related = any(isinstance(err, orjson.JSONEncodeError) for err in chain)
        else:
            related = any(isinstance(err, (TypeError, ValueError, KeyError, NotImplementedError)) for err in chain)
        if not related:
            ctx.violate("reported-error-unrelated-to-failure",
                        dict(facts, exception=type(error).__name__, message=str(error)[:160]), case)
    # clause 2: bytes at the target
    if target == "path" and error is not None:
        ctx.count("op:bytes-unchanged")
        after = _read(path)
        before = OLD_BYTES if pre == "exists" else None
        if after != before:
            if after is None:
                how = "deleted"
            elif before is None:
                how = "created-empty" if not after else "created-partial"
            elif not after:
                how = "truncated-to-empty"
            else:
                how = "replaced"
            ctx.violate("existing-file-damaged" if pre == "exists" else "file-created-by-failed-write",
                        dict(facts, damage=how, exception=type(error).__name__), case)
    # clause 3: a file-object target is not written to
    if target == "handle" and error is not None:
        ctx.count("op:handle-untouched")
        if sink.writes:
            ctx.violate("handle-written-by-failed-conversion", dict(facts, writes=len(sink.writes)), case)
    # clause 4: trace
    if error is not None:
        ctx.count("op:trace-clean-on-failure")
        touched = [list(e[1:]) for e in trace if e[0] == "fs"]
        if touched:
            ctx.violate("target-touched-before-conversion-ended",
                        dict(facts, fs_events=[[t[0], t[2]] for t in touched], exception=type(error).__name__), case)
    return True


_SAMPLED: set = set()


def _sample_once(category, sample):
    """ evidence samples: one written-out case per category instead of the first few of the enumeration """
    if category in _SAMPLED or category in ("W-natural", "W-aux"):
        return None
    _SAMPLED.add(category)
    return sample


def _kinds_for(ctx, position, extras):
    """ the four kinds named by the property always; `extras` further kinds rotating with the position """
    if extras >= len(EXTRA_KINDS):
        return CORE_KINDS + EXTRA_KINDS
    return CORE_KINDS + [EXTRA_KINDS[(position + i) % len(EXTRA_KINDS)] for i in range(extras)]


def sweep_shape(ctx, mods, variants, path, extras, aux_kinds, summary):
    """ every conversion event position x kinds for each variant; optionally every auxiliary event """
    complete = True
    for variant in variants:
        case0 = {"part": "W", "variant": list(variant), "mods": mods}
        baseline = _baseline(ctx, mods, variant, path, case0)
        if baseline is None:
            complete = False
            continue
        total = baseline["n"]["conv"]
        summary["positions_per_shape"][str(total)] = summary["positions_per_shape"].get(str(total), 0) + 1
        summary["max_positions"] = max(summary["max_positions"], total)
        for name in baseline["names"]["conv"]:
            summary["events"][name] = summary["events"].get(name, 0) + 1
        hit = set()
        for pos in range(1, total + 1):
            if ctx.time_left() <= 0:
                ctx.budget_hit = True
                return False
            for kind in _kinds_for(ctx, pos, extras):
                fault = ("conv", pos, kind)
                if _fault_run(ctx, mods, variant, path, baseline, fault, dict(case0, fault=list(fault))):
                    hit.add(pos)
                summary["fault_runs"] += 1
            summary["positions_hit"] += 1
        if hit == set(range(1, total + 1)):
            ctx.count("W:baselines-with-every-position-hit")
        else:
            ctx.count("W:baselines-with-unhit-positions")
            complete = False
        if aux_kinds:
            total_aux = baseline["n"]["aux"]
            summary["aux_positions_max"] = max(summary["aux_positions_max"], total_aux)
            for pos in range(1, total_aux + 1):
                if ctx.time_left() <= 0:
                    ctx.budget_hit = True
                    return False
                kinds = aux_kinds if len(aux_kinds) > 1 else [["TypeError", "ValueError", "KeyError"][pos % 3]]
                for kind in kinds:
                    fault = ("aux", pos, kind)
                    _fault_run(ctx, mods, variant, path, baseline, fault, dict(case0, fault=list(fault)))
                    _warm(baseline["results"])       # an interrupted cache fill must not shift later positions
                    summary["aux_fault_runs"] += 1
                summary["aux_positions_hit"] += 1
        # the sweep must not have changed the results object: same events, same bytes
        error, trace, sink = _attempt(baseline["results"], variant, path, None)
        ctx.count("op:state-unchanged-after-sweep")
        produced = None if error else (_read(path) if variant[1] == "path" else "".join(sink.writes).encode())
        if error is not None or produced != baseline["bytes"] or _events(trace, "conv") != baseline["names"]["conv"]:
            ctx.violate("harness:results-object-changed-by-fault-runs", _w_facts(variant, mods, None, trace, None), case0)
        for kinds in mods:
            for kind in kinds:
                if kind in REAL_KINDS:
                    ctx.count("W:real:" + kind)
    return complete


def natural_sweep(ctx, path, max_records, max_modules):
    """ failures that need no injection, at every (record, module) index """
    for records in range(1, max_records + 1):
        for modules in range(1, max_modules + 1):
            for r, m in itertools.product(range(records), range(modules)):
                for kind in NATURAL_KINDS:
                    mods = [["plain"] * modules for _ in range(records)]
                    mods[r][m] = kind
                    for variant in VARIANTS[:2] + ([VARIANTS[2 + (r + m) % 4]]):
                        case = {"part": "W", "variant": list(variant), "mods": mods, "fault": "natural"}
                        _fault_run(ctx, mods, variant, path, None, None, case, natural=True)


# --------------------------------------------------------------------------------------------
# (D) prepare_output_directory
# --------------------------------------------------------------------------------------------

D_ELEMENTS = ["log", "json", "region", "file", "dir", "html", "hidden", "nearmiss", "inputlike", "logprefix", "logsdir",
              "emptydir", "loglink"]
D_DESIGN_ELEMENTS = ["log", "json", "region", "file", "dir", "html"]
D_INPUT = ["absent", "dir", "file"]
# reuse-sibling: the reused results lie in a directory whose path merely starts with the output directory's path
# reuse-nested: the reused results lie in a sub-directory of the output directory (that sub-directory is then 'the
# results being reused'; anything else in the output directory is still foreign)
# fresh-inside: a fresh run whose sequence file lies in the output directory itself (the file is then a foreign entry)
D_MODES = ["fresh", "reuse-inside", "reuse-elsewhere", "reuse-sibling", "reuse-nested", "reuse-from-cwd", "fresh-inside"]
ELSEWHERE_MODES = ("reuse-elsewhere", "reuse-sibling", "reuse-nested", "reuse-from-cwd")
# nested: the log file lies in a sub-directory of the output directory that also holds other files (element logsdir)
D_LOGCFG = ["unset", "inside", "outside", "nested"]
REGION_PATTERN = "*.region???.gbk"

D_FILES = {
    "log": {"run.log": b"INFO previous log line\n"},
    "json": {"in.json": b'{"version": "old", "records": []}'},
    "region": {"in.region001.gbk": b"LOCUS       region one\n//\n"},
    "file": {"notes.txt": b"precious notes"},
    "dir": {"stray/keep.txt": b"keep me", "stray/in.region001.gbk": b"nested region file",
            "stray/input/nested.gbk": b"nested input"},        # materialised from D_POOL_DIRS["stray"]
    "html": {"index.html": b"<html>old results</html>"},
    "hidden": {".hidden": b"hidden but precious"},
    "inputlike": {"raw_input/reads.gbk": b"not antiSMASH's input copy"},     # materialised from D_POOL_DIRS["raw_input"]
    "logprefix": {"run": b"a file whose name is the beginning of the log file's name"},
    "logsdir": {"logs/run.log": b"INFO log\n", "logs/other.txt": b"unrelated"},   # materialised from D_POOL_DIRS["logs"]
    "emptydir": {"placeholder/": b""},     # an empty directory (another tool's placeholder, a mount point): materialised from D_POOL_DIRS
    "loglink": {"latest.log": b"-> logs/run.log"},      # a symbolic link to the log file outside the directory (materialised as a link)
    "nearmiss": {"in.region0001.gbk": b"four digits", "in.region01.gbk": b"two digits",
                 "in.region001.gbk.bak": b"backup"},
}


def _snapshot(root):
    """ recursive listing: relative path -> 'dir' | 'file:<sha1 of content>' """
    listing = {}
    cut = len(root) + 1
    stack = [root]
    while stack:
        current = stack.pop()
        with os.scandir(current) as entries:
            for entry in entries:
                if entry.is_dir(follow_symlinks=False):
                    listing[entry.path[cut:]] = "dir"
                    stack.append(entry.path)
                else:
                    with open(entry.path, "rb") as handle:
                        listing[entry.path[cut:]] = "file:" + hashlib.sha1(handle.read()).hexdigest()
    return listing


def _put(path, content, parents=True):
    if parents:
        os.makedirs(os.path.dirname(path), exist_ok=True)
    with open(path, "wb") as handle:
        handle.write(content)


D_POOL_DIRS = {
    "input": {"in.gbk": b"LOCUS input copy\n//\n"},
    "stray": {"keep.txt": b"keep me", "in.region001.gbk": b"nested region file", "input/nested.gbk": b"nested input"},
    "raw_input": {"reads.gbk": b"not antiSMASH's input copy"},
    "logs": {"run.log": b"INFO log\n", "other.txt": b"unrelated"},
    "previous": {"prev.json": b'{"version": "nested"}', "prev.region001.gbk": b"the nested run's region"},
    "placeholder": {},
}
D_STATIC = {"src/in.gbk": b"LOCUS input\n//\n", "elsewhere/prev.json": b'{"version": "elsewhere"}',
            "elsewhere/prev.region001.gbk": b"another run's region", "logs/run.log": b"outside log\n",
            "out_old/prev.json": b'{"version": "sibling"}', "cwd/prev_old/prev.json": b'{"version": "sibling"}',
            "cwd/prev.json": b'{"version": "in the working directory"}'}
_SANDBOX_STATE: dict = {}


def _sandbox_reset(sandbox):
    """ (re)builds the persistent skeleton; directories are expensive to remove, so whole sub-trees are parked in
        pool/ and renamed into place per case """
    if os.path.lexists(sandbox):
        shutil.rmtree(sandbox)
    os.makedirs(os.path.join(sandbox, "cwd"))
    os.makedirs(os.path.join(sandbox, "out"))
    for rel, content in D_STATIC.items():
        _put(os.path.join(sandbox, rel), content)
    for name, files in D_POOL_DIRS.items():
        os.makedirs(os.path.join(sandbox, "pool", name), exist_ok=True)
        for rel, content in files.items():
            _put(os.path.join(sandbox, "pool", name, rel), content)
    _SANDBOX_STATE[sandbox] = _snapshot(sandbox)


def _sandbox_clean(sandbox, outdirs):
    """ back to the skeleton after a case; anything unexpected leads to a full rebuild """
    try:
        for outdir in outdirs:
            if not os.path.lexists(outdir):
                continue
            if not os.path.isdir(outdir):
                os.remove(outdir)
                continue
            for entry in os.listdir(outdir):
                full = os.path.join(outdir, entry)
                if os.path.isdir(full):
                    os.rename(full, os.path.join(sandbox, "pool", entry))      # fails if the slot is taken
                else:
                    os.remove(full)
            if outdir != os.path.join(sandbox, "out"):
                os.rmdir(outdir)
        if not os.path.isdir(os.path.join(sandbox, "out")):
            os.mkdir(os.path.join(sandbox, "out"))
        if _snapshot(sandbox) != _SANDBOX_STATE[sandbox]:
            _sandbox_reset(sandbox)
    except OSError:
        _sandbox_reset(sandbox)


def run_dir_case(ctx, sandbox, case, main_module, config_module):
    """ case: {"elements": [...], "input": absent|dir|file, "mode", "logcfg", "cwd": neutral|in-stray,
               "name": explicit|derived, "path_state": exists|missing|file} """
    if sandbox not in _SANDBOX_STATE or not os.path.isdir(sandbox):
        _sandbox_reset(sandbox)
    neutral = os.path.join(sandbox, "cwd")
    mode = case["mode"]
    stem = "prev" if mode in ELSEWHERE_MODES else "in"
    outdir = os.path.join(neutral, stem) if case["name"] == "derived" else os.path.join(sandbox, "out")
    input_file = {"fresh": os.path.join(sandbox, "src", "in.gbk"),
                  "fresh-inside": os.path.join(outdir, "genome.gbk"),
                  "reuse-inside": os.path.join(outdir, "in.json"),
                  "reuse-elsewhere": os.path.join(sandbox, "elsewhere", "prev.json"),
                  "reuse-sibling": outdir + "_old" + os.sep + "prev.json",
                  "reuse-nested": os.path.join(outdir, "previous", "prev.json"),
                  # the results lie in the working directory itself (a derived name is then ./prev beside them)
                  "reuse-from-cwd": os.path.join(neutral, "prev.json")}[mode]
    state = case["path_state"]
    try:
        _run_dir_case(ctx, sandbox, case, main_module, config_module, neutral, outdir, input_file, state)
    finally:
        _sandbox_clean(sandbox, [outdir, os.path.join(sandbox, "out")])


def _run_dir_case(ctx, sandbox, case, main_module, config_module, neutral, outdir, input_file, state):
    mode = case["mode"]
    if state == "exists":
        if not os.path.isdir(outdir):
            os.mkdir(outdir)
        for element in case["elements"]:
            if element == "dir":
                os.rename(os.path.join(sandbox, "pool", "stray"), os.path.join(outdir, "stray"))
                continue
            if element == "inputlike":
                os.rename(os.path.join(sandbox, "pool", "raw_input"), os.path.join(outdir, "raw_input"))
                continue
            if element == "logsdir":
                os.rename(os.path.join(sandbox, "pool", "logs"), os.path.join(outdir, "logs"))
                continue
            if element == "emptydir":
                os.rename(os.path.join(sandbox, "pool", "placeholder"), os.path.join(outdir, "placeholder"))
                continue
            if element == "loglink":
                os.symlink(os.path.join(sandbox, "logs", "run.log"), os.path.join(outdir, "latest.log"))
                continue
            for rel, content in D_FILES[element].items():
                _put(os.path.join(outdir, rel), content, parents=False)
        if mode == "reuse-nested":
            os.rename(os.path.join(sandbox, "pool", "previous"), os.path.join(outdir, "previous"))
        if mode == "fresh-inside":
            _put(input_file, b"LOCUS       genome\n//\n", parents=False)
        if case["input"] == "dir":
            os.rename(os.path.join(sandbox, "pool", "input"), os.path.join(outdir, "input"))
        elif case["input"] == "file":
            _put(os.path.join(outdir, "input"), b"a file that is merely called input", parents=False)
    else:
        if os.path.isdir(outdir):
            os.rmdir(outdir)
        if state == "file":
            _put(outdir, b"a file where the directory should be", parents=False)
    logfile = {"unset": "", "inside": os.path.join(outdir, "run.log"),
               "outside": os.path.join(sandbox, "logs", "run.log"),
               "nested": os.path.join(outdir, "logs", "run.log")}[case["logcfg"]]
    cwd = os.path.join(outdir, "stray") if case["cwd"] == "in-stray" else neutral
    config_module.update_config({"logfile": logfile, "output_basename": "", "output_dir": ""})

    before = _snapshot(sandbox)
    top = sorted(os.listdir(outdir)) if state == "exists" else []
    own = set()
    if state == "exists" and os.path.isdir(os.path.join(outdir, "input")):
        own.add("input")
    if logfile and os.path.dirname(logfile) == outdir and os.path.basename(logfile) in top:
        own.add(os.path.basename(logfile))
    if mode == "reuse-nested" and state == "exists":
        own.add("previous")
    foreign = [entry for entry in top if entry not in own]
    hidden = [entry for entry in foreign if entry.startswith(".")]
    cwd_entries = [entry for entry in foreign if not logfile and os.path.join(outdir, entry) == cwd]

    old_cwd = os.getcwd()
    os.chdir(cwd)
    _M.reset(None, watch_prefix=sandbox + os.sep)
    error = None
    _M.audit_on = True
    try:
        main_module.prepare_output_directory("" if case["name"] == "derived" else outdir, input_file)
    except BaseException as err:  # pylint: disable=broad-except
        error = err
    finally:
        _M.audit_on = False
        os.chdir(old_cwd)
    trace = [list(e[1:]) for e in _M.trace if e[0] == "fs"]
    after = _snapshot(sandbox)
    rel_out = outdir[len(sandbox) + 1:]
    removed = sorted(set(before) - set(after))
    added = sorted(set(after) - set(before))
    changed = sorted(k for k in set(before) & set(after) if before[k] != after[k])
    removable = {os.path.join(rel_out, e) for e in top if fnmatch.fnmatch(e, REGION_PATTERN) and not e.startswith(".")
                 and before.get(os.path.join(rel_out, e), "").startswith("file:")}
    facts = {"mode": mode, "logfile": case["logcfg"], "cwd": case["cwd"], "name": case["name"], "path_state": state,
             "input": case["input"], "elements": sorted(case["elements"]), "foreign": foreign,
             "foreign_hidden": hidden, "foreign_is_cwd": cwd_entries,
             "foreign_unexplained": [e for e in foreign if e not in hidden and e not in cwd_entries],
             "raised": type(error).__name__ if error else None, "removed": removed, "added": added, "changed": changed,
             "changes_beyond_region_gbk": bool(added or changed or (set(removed) - removable))}
    refused = isinstance(error, AntismashInputError)
    category = "D-refused" if refused else ("D-accepted-removed" if removed else None)
    ctx.case(case, nontrivial=bool(top) or state != "exists",
             sample=_sample_once(category, dict(case, part="D", outcome=facts["raised"] or "accepted", removed=removed,
                                                foreign=foreign)) if category and len(top) > 2 else None)

    if error is not None and not refused:
        ctx.violate("directory-preparation-crashed", dict(facts, message=str(error)[:160]), case)
        return
    if state == "file":
        ctx.count("D:path-is-file")
        ctx.count("op:dir-refused-unchanged")
        if not refused:
            ctx.violate("non-directory-not-refused", facts, case)
        if before != after or trace:
            ctx.violate("refused-run-changed-contents", dict(facts, fs_events=trace), case)
        return
    if state == "missing":
        ctx.count("D:path-missing")
        if refused:
            ctx.count("D:missing-path-refused")
            return
        expected_new = {rel_out}
        if set(added) != expected_new or removed or changed or after.get(rel_out) != "dir":
            ctx.violate("creating-directory-changed-other-contents", facts, case)
        return

    if mode == "reuse-inside":
        must_refuse = False
    elif mode in ("fresh", "fresh-inside"):
        considered = foreign if STRICT_HIDDEN_ENTRIES else [e for e in foreign if e not in hidden]
        must_refuse = bool(considered)
    else:
        considered = foreign if STRICT_HIDDEN_ENTRIES else [e for e in foreign if e not in hidden]
        must_refuse = bool(considered) if STRICT_REUSE_ELSEWHERE else False

    if refused:
        ctx.count("op:dir-refused-unchanged")
        if before != after or trace:
            ctx.violate("refused-run-changed-contents", dict(facts, fs_events=trace), case)
        if must_refuse:
            ctx.count("D:refused-foreign")
            ctx.count(f"D:refused-foreign:{mode}:{case['name']}-name")
        else:
            ctx.count("D:own-content-refused")      # over-cautious, not a loss: counted, not a deviation
        return
    # accepted
    ctx.count("op:dir-accepted-only-region-gbk-removed")
    if must_refuse:
        ctx.violate("foreign-content-not-refused", facts, case)
    elif not foreign:
        ctx.count("D:accepted-own-content-only")
    if facts["changes_beyond_region_gbk"]:
        ctx.violate("accepted-run-damaged-contents", facts, case)
    bad_events = [e for e in trace if not (e[0] == "os.remove" and e[1][len(sandbox) + 1:] in removable)]
    if bad_events:
        ctx.violate("accepted-run-touched-other-paths", dict(facts, fs_events=bad_events), case)
    if removed and mode not in ("fresh", "fresh-inside"):
        ctx.count("D:region-gbk-removed-on-reuse")
    if removed and mode in ("fresh", "fresh-inside") and not must_refuse:
        ctx.violate("fresh-run-removed-files", facts, case)


def dir_cases(elements_universe, full):
    """ the enumeration; `full` adds the log/cwd/name dimensions to every subset """
    cases = []
    for size in range(len(elements_universe) + 1):
        for subset in itertools.combinations(elements_universe, size):
            beyond = [e for e in subset if e not in D_DESIGN_ELEMENTS]
            if not full and beyond and (len(beyond) > 1 or len(subset) > 4):
                continue        # quick tier: the two added elements only singly, next to <= 3 others
            for inp in D_INPUT:
                if not full and inp == "file" and len(subset) > 2:
                    continue    # quick tier: a file merely called 'input' next to <= 2 other elements
                for mode in D_MODES:
                    for logcfg in D_LOGCFG:
                        if ("logsdir" in subset) != (logcfg == "nested"):
                            continue    # the log directory element and the nested log file go together
                        if "logprefix" in subset and logcfg not in ("inside", "unset"):
                            continue
                        if not full and mode == "reuse-nested" and (len(subset) > 2 or logcfg != "unset"):
                            continue
                        if not full and logcfg == "outside" and "log" not in subset and "loglink" not in subset:
                            continue
                        if not full and mode == "reuse-sibling" and (len(subset) > 2 or logcfg != "unset"):
                            continue
                        if not full and mode == "reuse-from-cwd" and (len(subset) > 2 or logcfg != "unset"):
                            continue
                        if not full and mode == "fresh-inside" and (len(subset) > 2 or logcfg not in ("unset", "inside")):
                            continue    # quick tier: the sibling-path variant of reuse only next to <= 2 elements
                        base = {"elements": list(subset), "input": inp, "mode": mode, "logcfg": logcfg,
                                "cwd": "neutral", "name": "explicit", "path_state": "exists"}
                        cases.append(base)
                        if "dir" in subset and (full or logcfg == "unset"):
                            cases.append(dict(base, cwd="in-stray"))
                        if (full or set(subset) <= set(D_DESIGN_ELEMENTS[:4])) and mode != "fresh-inside":
                            cases.append(dict(base, name="derived"))      # (a derived name follows the input file)
    for state in ("missing", "file"):
        for mode in D_MODES[:-1]:       # (a file inside the directory needs the directory)
            for logcfg in D_LOGCFG:
                for name in ("explicit", "derived"):
                    cases.append({"elements": [], "input": "absent", "mode": mode, "logcfg": logcfg, "cwd": "neutral",
                                  "name": name, "path_state": state})
    return cases


# --------------------------------------------------------------------------------------------
# (E) the whole run: main.run_antismash on its own earlier results with a module that cannot be converted
# --------------------------------------------------------------------------------------------

E_MODULE = "antismash.detection.verif_stub"


class _Opaque:
    pass


def _e_faults():
    return [("to_json-raises-TypeError", TypeError("cannot convert this module")),
            ("to_json-raises-ValueError", ValueError("bad value in module results")),
            ("json-contains-a-set", {"names": {"a", "b"}}),
            ("json-contains-an-object", [_Opaque()]),
            ("json-contains-int-beyond-64-bits", {"n": 1 << 80})]


def end_to_end(ctx, base, main_module, config_module, kinds):
    """ A successful run into a fresh directory, a successful reuse run, then a reuse run (--reuse-results <out>/x.json
        --output-dir <out>) in which one module's results cannot be converted: the failure must reach the caller and the
        results file of the earlier run must be unchanged. Only the prerequisite check and the detection stage are
        replaced (no HMMER here); everything else, incl. the place where the target is opened, is the real run. """
    import gc
    from unittest.mock import patch
    from antismash.common.module_results import ModuleResults
    from antismash.common.test.helpers import get_path_to_nisin_genbank

    class StubResults(ModuleResults):
        __slots__ = ["payload"]

        def __init__(self, record_id, payload):
            super().__init__(record_id)
            self.payload = payload

        def to_json(self):
            if isinstance(self.payload, Exception):
                raise self.payload
            return {"schema": 1, "record_id": self.record_id, "values": self.payload}

        def add_to_record(self, record):
            pass

    def detection_with(payload):
        def detection(record, _options, module_results):
            module_results.pop(E_MODULE, None)
            module_results[E_MODULE] = StubResults(record.id, payload)
            record.skip = "No regions detected"
            return {}
        return detection

    def pipeline(sequence, args, payload):
        config_module.destroy_config()
        with patch.object(main_module, "check_prerequisites", return_value=None), \
                patch.object(main_module, "run_detection", side_effect=detection_with(payload)):
            options = config_module.build_config(args, isolated=True, modules=main_module.get_all_modules())
            try:
                return main_module.run_antismash(sequence, options)
            finally:
                config_module.destroy_config()
                gc.collect()

    for label, payload in kinds:
        out = os.path.join(base, "e", label)
        os.makedirs(os.path.dirname(out), exist_ok=True)
        case = {"part": "E", "fault": label}
        args = ["--minimal", "--output-dir", out]
        try:
            first = pipeline(get_path_to_nisin_genbank(), args, ["fine"])
            target = os.path.join(out, "nisin.json")
            if first != 0 or not os.path.exists(target):
                ctx.count("E:skipped:first-run-failed")
                continue
            again = pipeline("", args + ["--reuse-results", target], ["fine"])
            with open(target, "rb") as handle:
                previous = handle.read()
            if again != 0 or not previous:
                ctx.violate("E-faultfree-reuse-run-keeps-results", {"fault": label, "exit": again, "bytes": len(previous)}, case)
                continue
        except Exception as err:  # pylint: disable=broad-except
            ctx.count("E:skipped:setup-raised:" + type(err).__name__)
            continue
        listing_before = _snapshot(out)
        reported = None
        try:
            pipeline("", args + ["--reuse-results", target], payload)
        except BaseException as err:  # pylint: disable=broad-except
            reported = type(err).__name__
        with open(target, "rb") as handle:
            current = handle.read()
        ctx.count("op:E-whole-run-fault")
        ctx.count("E:fault:" + label)
        ctx.case(case, nontrivial=True)
        facts = {"fault": label, "reported": reported, "bytes_before": len(previous), "bytes_after": len(current)}
        if reported is None:
            ctx.violate("E-failure-reported", facts, case)
        if current != previous:
            ctx.violate("E-results-file-unchanged", facts, case)
        listing_after = _snapshot(out)
        lost = sorted(k for k in listing_before if k not in listing_after and not fnmatch.fnmatch(os.path.basename(k), REGION_PATTERN))
        if lost:
            ctx.violate("E-failed-run-removed-files", dict(facts, lost=lost[:5]), case)
        shutil.rmtree(out, ignore_errors=True)
    config_module.destroy_config()
    config_module.build_config([], isolated=True, modules=[])


# --------------------------------------------------------------------------------------------
# known findings on the current tree (classifiers keyed on the mechanism)
# --------------------------------------------------------------------------------------------

@findings.classifier("c20_hidden_entries_ignored")
def _hidden_entries(clause, facts):
    """ glob('*') does not list dot-files: a directory whose only foreign entries are hidden is accepted (and left
        untouched). Must not hide: any accepted run with a visible foreign entry, any change of contents. """
    return (clause == "foreign-content-not-refused" and facts.get("mode") in ("fresh",) + ELSEWHERE_MODES
            and bool(facts.get("foreign_hidden")) and not facts.get("foreign_unexplained")
            and not facts.get("changes_beyond_region_gbk") and not facts.get("removed"))


@findings.classifier("c20_unset_logfile_matches_cwd")
def _logfile_cwd(clause, facts):
    """ with no --logfile, abspath('') is the working directory, so a top-level entry that IS the working directory
        is skipped as 'the log file'. Must not hide: acceptance of any other visible foreign entry. """
    return (clause == "foreign-content-not-refused" and facts.get("mode") in ("fresh", "reuse-elsewhere")
            and facts.get("logfile") == "unset" and bool(facts.get("foreign_is_cwd")) and not facts.get("foreign_unexplained")
            and not facts.get("changes_beyond_region_gbk") and not facts.get("removed"))


@findings.classifier("c20_reuse_elsewhere_unchecked")
def _reuse_elsewhere(clause, facts):
    """ any input ending in .json skips the emptiness test, also when the reused results live in another directory:
        unrelated content is accepted and its top-level region GenBank files are deleted. Must not hide: fresh runs,
        reuse runs that change anything other than top-level *.region???.gbk. """
    return (clause == "foreign-content-not-refused" and facts.get("mode") == "reuse-elsewhere"
            and not facts.get("changes_beyond_region_gbk"))


# --------------------------------------------------------------------------------------------
# driver
# --------------------------------------------------------------------------------------------

def _compositions(ctx, max_modules_full, max_modules, sample_per_size):
    """ every ordered composition up to max_modules_full modules, a seeded sample of the larger ones; the sample
        depends on the seed only (not on the worker: all workers must partition the same list) """
    import random
    comps = []
    for size in range(0, max_modules_full + 1):
        comps.extend(list(c) for c in itertools.product(MODULE_KINDS, repeat=size))
    for size in range(max_modules_full + 1, max_modules + 1):
        rng = random.Random(f"{ctx.seed}/C20/compositions/{size}")
        seen = set()
        while len(seen) < sample_per_size:
            seen.add(tuple(rng.choice(MODULE_KINDS) for _ in range(size)))
        comps.extend(list(c) for c in sorted(seen))
    return comps


def _setup():
    from antismash import main as main_module
    from antismash import config as config_module
    config_module.build_config([], isolated=True, modules=[])
    _M.install()
    return main_module, config_module


def run(ctx):
    main_module, config_module = _setup()
    previous_disable = logging.root.manager.disable
    logging.disable(logging.CRITICAL)       # write_to_file logs every failure; thousands of them here
    base = tempfile.mkdtemp(prefix=f"vf-c20-{ctx.worker}-", dir="/tmp")
    try:
        _run(ctx, base, main_module, config_module)
    finally:
        _M.uninstall_monitoring()
        logging.disable(previous_disable)
        shutil.rmtree(base, ignore_errors=True)
    if _M.hook_errors:
        ctx.notes.append(f"audit hook swallowed {_M.hook_errors} internal errors")
        ctx.count("harness:audit-hook-errors", _M.hook_errors)


def locale_children(ctx, base):
    """ the last step of the conversion, from text to the bytes of the file, in a process whose locale cannot encode
        the text (LC_ALL=C without UTF-8 mode): the write either succeeds with the file holding the results, or fails
        with the previous file untouched """
    import subprocess
    env = dict(os.environ)
    env.update({"LC_ALL": "C", "LANG": "C", "PYTHONUTF8": "0", "PYTHONCOERCECLOCALE": "0", "PYTHONIOENCODING": "utf-8"})
    here = os.path.dirname(os.path.dirname(os.path.dirname(os.path.abspath(__file__))))
    env["PYTHONPATH"] = os.pathsep.join([os.environ.get("VERIF_REPO", "/repo"), here])
    for function in ("write_to_file", "dump_records"):
        target = os.path.join(base, f"locale-{function}.json")
        _put(target, OLD_BYTES)
        case = {"part": "L", "function": function, "locale": "C"}
        ctx.count("L:non-ascii-results-under-C-locale")
        try:
            proc = subprocess.run([sys.executable, "-m", "vf.c20_child", target, function], env=env, cwd=here,
                                  capture_output=True, text=True, timeout=120, check=False)
            outcome = json.loads(proc.stdout.strip().splitlines()[-1])
        except Exception as err:  # pylint: disable=broad-except
            ctx.violate("harness:locale-child-failed",
                        {"exception": type(err).__name__, "message": str(err)[:200],
                         "stderr": (locals().get("proc").stderr[-600:] if locals().get("proc") is not None else "")}, case)
            continue
        after = _read(target)
        facts = {"function": function, "child_error": outcome["error"], "message": outcome["message"],
                 "locale_encoding": outcome["preferred_encoding"]}
        ctx.case(("locale", function), nontrivial=True)
        if outcome["error"] is not None:
            ctx.count("op:bytes-unchanged")
            if after != OLD_BYTES:
                ctx.violate("existing-file-damaged",
                            dict(facts, damage="truncated-to-empty" if not after else "replaced"), case)
        else:
            try:
                loaded = json.loads(after.decode("utf-8"))
                text = json.dumps(loaded, ensure_ascii=False)
            except Exception:  # pylint: disable=broad-except
                text = ""
            if "β-lactone" not in text:
                ctx.violate("written-file-holds-the-results", facts, case)


FIRST_RUN = {"elements": ["log"], "input": "dir", "mode": "fresh", "logcfg": "inside", "cwd": "neutral",
             "name": "explicit", "path_state": "exists"}


def _run(ctx, base, main_module, config_module):
    quick = ctx.tier == "quick"
    complete = True

    # the first preparation of an output directory in this process is a run that logs into its output directory
    # (every later case has another log file setting: what the first run used must not stick)
    ctx.guard("harness:directory-case-crashed", FIRST_RUN, run_dir_case, ctx, os.path.join(base, "d"), FIRST_RUN,
              main_module, config_module)
    ctx.count("history:first-run-of-the-process-logs-into-its-output-directory")

    if ctx.worker == 0:
        ctx.guard("harness:locale-children-crashed", {"part": "L"}, locale_children, ctx, base)

    # ---- (E) -------------------------------------------------------------------------------
    if ctx.worker == 0:
        kinds = _e_faults()
        if quick:
            kinds = [kinds[(ctx.seed + i) % len(kinds)] for i in (0, 2, 3)]
        ctx.guard("harness:end-to-end-crashed", {"part": "E"}, end_to_end, ctx, base, main_module, config_module, kinds)
        logging.disable(logging.CRITICAL)       # run_antismash sets logging up again

    # ---- (D) -------------------------------------------------------------------------------
    cases = dir_cases(D_ELEMENTS, full=not quick)
    mine = [c for i, c in enumerate(cases) if i % ctx.nworkers == ctx.worker]
    ctx.rng("directory-case-order").shuffle(mine)      # the cases meet in another order for every seed
    subsets = set()
    for i, case in enumerate(mine):
        if i % 64 == 0 and ctx.time_left() <= 0:
            ctx.budget_hit = True
            complete = False
            break
        ctx.guard("harness:directory-case-crashed", case, run_dir_case, ctx, os.path.join(base, "d"), case,
                  main_module, config_module)
        subsets.add((case["input"], tuple(case["elements"])))
    config_module.update_config({"logfile": "", "output_basename": "", "output_dir": ""})
    d_wall = time.monotonic() - ctx.t0
    ctx.extra["directory_alphabet"] = {"elements": D_ELEMENTS, "input": D_INPUT, "modes": D_MODES, "logfile": D_LOGCFG,
                                       "cwd": ["neutral", "in-stray"], "name": ["explicit", "derived"],
                                       "path_state": ["exists", "missing", "file"], "files": {k: sorted(v) for k, v in D_FILES.items()}}
    ctx.extra["directory_cases_total"] = [len(cases)]
    ctx.extra["directory_cases_run"] = len(mine)
    ctx.extra["directory_subsets_enumerated"] = sorted(
        f"input={inp}+" + ("".join("1" if e in els else "0" for e in D_ELEMENTS)) for inp, els in subsets)

    # ---- (W) -------------------------------------------------------------------------------
    path = os.path.join(base, "w", "results.json")
    os.makedirs(os.path.dirname(path))
    summary = {"positions_per_shape": {}, "max_positions": 0, "events": {}, "fault_runs": 0, "positions_hit": 0,
               "aux_fault_runs": 0, "aux_positions_hit": 0, "aux_positions_max": 0}
    if quick:
        # R=1: every ordered composition with M<=2; R=2: every composition with M<=1 and a seeded sample for M=2
        max_records, extras = 2, 1
        comps = _compositions(ctx, 2, 2, 0)
        pairs = [c for c in comps if len(c) == 2]
        ctx.rng("quick-pairs").shuffle(pairs)
        shapes = [(1, comp) for comp in comps] + [(2, comp) for comp in comps if len(comp) < 2] + \
                 [(2, comp) for comp in pairs[:QUICK_PAIRS_FOR_TWO_RECORDS]]
    else:
        max_records, extras = 3, len(EXTRA_KINDS)
        comps = _compositions(ctx, 2, 4, THOROUGH_SAMPLE_PER_SIZE)
        shapes = [(records, comp) for records in range(1, max_records + 1) for comp in comps]
    # auxiliary-event sweeps: a few representative shapes
    aux_shapes = [(1, ["plain", "lazy"]), (1, ["hmm", "side"])] if quick else \
        [(1, ["plain", "lazy"]), (1, ["hmm", "side"]), (2, ["tta", "eager"]), (2, ["side", "hmm", "tta"]),
         (3, ["lazy", "none", "hmm"]), (3, ["side"]), (2, []), (3, ["plain", "tta", "side", "hmm"])]
    work = [("aux", s) for s in aux_shapes] + [("conv", s) for s in shapes]
    mine = [w for i, w in enumerate(work) if i % ctx.nworkers == ctx.worker]
    if ctx.worker == 0:
        natural_sweep(ctx, path, max_records, 2 if quick else 4)
    done = 0
    for index, (what, (records, comp)) in enumerate(mine):
        if ctx.time_left() <= 0:
            ctx.budget_hit = True
            complete = False
            break
        mods = shape_mods(records, comp)
        if what == "aux":
            variants = VARIANTS[:2]
            aux_kinds = ["rotate"] if quick else ["TypeError", "ValueError", "KeyError"]
        else:
            if not quick:
                variants = VARIANTS
            elif index % 2 == 0:
                variants = VARIANTS[:2] + [VARIANTS[2 + index % 4]]
            else:
                variants = VARIANTS[:2]
            aux_kinds = None
        ok, result = ctx.guard("harness:shape-crashed", {"part": "W", "mods": mods}, sweep_shape, ctx, mods, variants,
                               path, extras, aux_kinds, summary)
        complete = complete and ok and bool(result)
        done += 1
    ctx.exhaustive = bool(complete)
    ctx.extra["fault_kinds"] = {"always": CORE_KINDS, "extra": EXTRA_KINDS,
                                "extra_per_position": "all" if extras >= len(EXTRA_KINDS) else extras,
                                "natural": NATURAL_KINDS}
    ctx.extra["module_kinds"] = MODULE_KINDS
    ctx.extra["grid"] = {"shapes_total": len(shapes), "aux_shapes_total": len(aux_shapes), "workers": ctx.nworkers,
                         "records": f"1..{max_records}",
                         "compositions": "every ordered composition of module kinds for M<=2" +
                                         ("" if quick else f"; {THOROUGH_SAMPLE_PER_SIZE} seeded compositions each for M=3 and M=4"),
                         "quick_two_record_rule": "R=2: every composition with M<=1 plus "
                                                  f"{QUICK_PAIRS_FOR_TWO_RECORDS} seeded ordered pairs" if quick else "n/a",
                         "variants": [list(v) for v in VARIANTS],
                         "directory_cases_total": ctx.extra["directory_cases_total"].pop()}
    del ctx.extra["directory_cases_total"]
    ctx.extra["wall_split_s_first_worker"] = {"directory_part": round(d_wall, 1),
                                              "write_part": round(time.monotonic() - ctx.t0 - d_wall, 1)}
    ctx.extra["shapes_swept"] = done
    ctx.extra["conversion_positions_hit"] = summary["positions_hit"]
    ctx.extra["conversion_fault_runs"] = summary["fault_runs"]
    ctx.extra["aux_positions_hit"] = summary["aux_positions_hit"]
    ctx.extra["aux_fault_runs"] = summary["aux_fault_runs"]
    ctx.extra["max_conversion_positions_in_one_run_per_worker"] = [summary["max_positions"]]
    ctx.extra["max_aux_positions_in_one_run_per_worker"] = [summary["aux_positions_max"]]
    single = ctx.nworkers == 1
    ctx.extra["conversion_events_by_function"] = [f"{name} x{n}" if single else name
                                                  for name, n in sorted(summary["events"].items())]
    ctx.extra["positions_hit"] = [
        (f"N={k}: positions 1..{k} each hit with every scheduled kind" + (f" in {v} fault-free baselines" if single else ""))
        for k, v in sorted(summary["positions_per_shape"].items(), key=lambda kv: int(kv[0]))]
    ctx.extra["exhaustive_means"] = ("every conversion event position 1..N of every scheduled (shape, variant) was hit with "
                                     "every 'always' kind (and the listed extra kinds), and every directory case of the grid "
                                     "was executed; the shape list itself is complete for M<=2 and a seeded sample beyond "
                                     "(see grid); false when the soft time budget stopped the enumeration")


def replay(ctx, case):
    main_module, config_module = _setup()
    logging.disable(logging.CRITICAL)
    base = tempfile.mkdtemp(prefix="vf-c20-replay-", dir="/tmp")
    try:
        if case.get("part") == "W":
            path = os.path.join(base, "results.json")
            variant = tuple(case["variant"])
            mods = case["mods"]
            fault = case.get("fault")
            if fault == "natural":
                _fault_run(ctx, mods, variant, path, None, None, case, natural=True)
            else:
                baseline = _baseline(ctx, mods, variant, path, case)
                if baseline is not None and fault:
                    _fault_run(ctx, mods, variant, path, baseline, tuple(fault), case)
        else:
            # as in the run: the first preparation of the process is a run logging into its output directory
            run_dir_case(ctx, os.path.join(base, "d"), FIRST_RUN, main_module, config_module)
            run_dir_case(ctx, os.path.join(base, "d"), case, main_module, config_module)
    finally:
        _M.uninstall_monitoring()
        logging.disable(logging.NOTSET)
        shutil.rmtree(base, ignore_errors=True)
