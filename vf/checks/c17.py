"""C17 Same input, same output: results do not depend on the process or hash seed.

The parent generates tie-rich inputs (vf/gen/c17_inputs.py), serialises them once as JSON and replays the same
file in child processes (vf/c17_child.py, started with subprocess.run(timeout=...)) that differ in PYTHONHASHSEED
(quick: 6 values incl. 0, thorough: 32) and in allocation history (a child-specific random heap fragmentation
before every replay; one extra 'layout twin' child repeats hash seed 0 with another fragmentation pattern). Each
child replays every input in 3 insertion orders and dumps canonical stage values produced by the real code:
refined HMM hits (refine_hmmscan_results, both modes), hmm_detection filter functions, hmmer.remove_overlapping,
anchor sets / definition domains / protoclusters from hmm_detection.run_on_record -> detect_protoclusters_and_signatures,
protocluster numbering, candidate clusters and regions with numbering and product order, CDS annotations, and the
bytes antiSMASH writes: HMMDetectionResults.to_json, gather_record_areas, AntismashResults.to_json (record_to_json +
areas + module results), GenBank text of the record and of every region (dates normalised).
Oracle: for every (input, order, stage) the dump of every child equals the dump of the first child. A difference
is reported per stage with the JSON key path (GenBank: feature type / qualifier path) where the dumps part; the clause
name `differs:<stage>:<key path>` is the finding key. Facts attached to a difference are structural: the ties of the
input, and how the area stages of the two children relate (same grouping? which pairs are inverted?).
The first child runs alone; its timing trims the batch when the machine is too slow for the time budget. Every
child reports a digest of the antismash sources it imported: children that ran different code (the tree under test
changed during the run) are not compared and make the run inconclusive.
"""
from __future__ import annotations

import concurrent.futures
import json
import os
import re
import subprocess
import sys
import tempfile
import time

from vf import core, findings
from vf.gen import c17_inputs as I

PROPERTY = "C17"
LEVEL = "exploration"
PARALLEL = True
RULE = ("inputs of six kinds (the sixth: the real get_ruleset on the shipped rule files limited by rule names/categories), first five: each serialised once and replayed by every child in 3 insertion orders: (refine) 1-8 hits "
        "per gene with equal starts / equal scores / exact duplicates, split over several QueryResults; (filter) per-gene "
        "profile hits with overlap chains and score ties (no exact duplicates) against 0-2 equivalence groups; (hmmer) Pfam-like hits with "
        "equal starts and scores; (world) 1.5-20 kb linear/circular records, 2-10 genes, 1-7 rules incl. twins with the "
        "same condition, cutoff and neighbourhood (identical-coordinate protoclusters with different products), "
        "neighbourhoods that clip at both record ends, genes defined by several profiles, run through the real "
        "hmm_detection.run_on_record (ruleset provider replaced, DynamicProfile hits), add_protocluster, "
        "create_candidate_clusters, create_regions and the JSON/GenBank writers; (layout) 2-7 protoclusters on a gene "
        "grid with identical cores/extents and different products through formation, regions and writers. "
        "Non-trivial: the input has a tie (equal starts/scores/coordinates, twin rules, gene with several profiles); "
        "distinct by input. A stage comparison = one (input, order, stage, child) dump compared with the first child.")
ASSUMPTIONS = [
    "Allocator addresses cannot be forced. 'Any memory layout' is approximated by a child-specific random heap "
    "fragmentation (blocks of every pymalloc size class 48..512 allocated, a random half freed in random order) "
    "before every replay, so id()-hashed objects land on different addresses in different children; layouts that "
    "this does not produce are not observed.",
    "An insertion order of an input is a different input: dumps are compared between children for the same (input, "
    "order) only, never between orders (order dependence is the subject of C05/C13).",
    "Internal mappings (anchor sets, definition domains, refined hits per gene) are compared by content: sets are "
    "sorted and mapping keys are compared without order; lists and every byte of JSON/GenBank text are compared in order.",
    "The input sequence is replaced by its digest in JSON and GenBank dumps (it is input, not result); dates and "
    "timestamps are replaced by placeholders.",
    "Inputs of the filter functions hold no two identical hits (same gene, profile, coordinates and score): hmmsearch "
    "does not report a domain twice; which of two identical hits survives filter_results is not observable in values.",
    "No HMMER binary exists: profile hits reach the pipeline through DynamicProfile callables and "
    "hmm_detection.get_ruleset is replaced by the generated ruleset; find_hmmer_hits itself is not executed, its "
    "two filter functions are called directly on generated hits; in half of the worlds every other profile is an HMM "
    "signature whose hits a stand-in for find_hmmer_hits supplies in input order (the same in every child), so that "
    "genes carry HMMer hits and dynamic hits in one run. nrps_pks_domains results are not replayed.",
]
REQUIRED = ["children_clean", "op:stage-compare", "seeds:distinct-hash-probes", "inputs:with-ties",
            "stage:refined_hits:normal", "stage:refined_hits:neighbour", "stage:filter_results",
            "stage:filter_result_multiple", "stage:hmmer_remove_overlapping", "stage:anchor_sets",
            "stage:protoclusters", "stage:detection_results_json", "stage:candidate_clusters", "stage:regions",
            "stage:cds_annotations", "stage:ruleset_rules", "stage:areas_json", "stage:results_json", "stage:genbank", "stage:region_genbank",
            "tie:equal-location-protoclusters", "tie:equal-start-hits", "tie:cds-defined-by-several-domains",
            "tie:several-rules", "tie:single-candidates-of-equal-location", "shape:hybrid-of-equal-location-protoclusters", "shape:region-crosses-origin"]

REQUIRED_THOROUGH = ["seeds:at-least-32-distinct"]

QUICK_SEEDS = [0, 1, 2, 3, 4, 5]
THOROUGH_SEEDS = list(range(32))
KIND_MIX = [("refine", 6), ("filter", 8), ("hmmer", 2), ("world", 5), ("layout", 4), ("ruleset", 1), ("annotate", 1)]   # hit-level inputs are cheap
CHILD_TIMEOUT_S = {"quick": 120, "thorough": 300}
ORDERS = 3
HERE = os.path.dirname(os.path.dirname(os.path.dirname(os.path.abspath(__file__))))

GENERATED_NAME = re.compile(r"^(g\d+|w\d+|r\d+b?|c17rec\S*|alpha|beta|gamma|delta|epsilon|zeta|eta|theta)$")


# ---------------------------------------------------------------------------------------------
# diffing: where do two dumps part?
# ---------------------------------------------------------------------------------------------

def _pairs(obj):
    """ JSON text -> structure that keeps key order (dicts become {'__pairs__': [[k, v], ...]}) """
    return json.loads(obj, object_pairs_hook=lambda pairs: {"__pairs__": [[k, v] for k, v in pairs]})


def _canon(obj) -> str:
    return json.dumps(obj, sort_keys=True)


def _key(name: str) -> str:
    return "*" if GENERATED_NAME.match(name) or name.isdigit() else name


def _short(obj) -> str:
    text = obj if isinstance(obj, str) else json.dumps(_plain(obj))
    return text if len(text) <= 240 else text[:237] + "..."


def _plain(obj):
    if isinstance(obj, dict) and "__pairs__" in obj and len(obj) == 1:
        return {k: _plain(v) for k, v in obj["__pairs__"]}
    if isinstance(obj, dict):
        return {k: _plain(v) for k, v in obj.items()}
    if isinstance(obj, list):
        return [_plain(v) for v in obj]
    return obj


def jdiff(a, b, path: str, out: list, limit: int = 6) -> None:
    """ appends (path, kind, excerpt a, excerpt b); kind in value / reordered / key-order / keys / length / type """
    if len(out) >= limit or a == b:
        return
    if isinstance(a, dict) and isinstance(b, dict):
        if "__pairs__" in a and "__pairs__" in b:
            ka, kb = [k for k, _ in a["__pairs__"]], [k for k, _ in b["__pairs__"]]
            da, db = dict(map(tuple, a["__pairs__"])), dict(map(tuple, b["__pairs__"]))
            if sorted(ka) != sorted(kb):
                out.append((path, "keys", _short(a), _short(b)))
                return
            if ka != kb:
                out.append((path, "key-order", _short(a), _short(b)))
            for k in ka:
                jdiff(da[k], db[k], f"{path}.{_key(k)}", out, limit)
            return
        if sorted(a) != sorted(b):
            out.append((path, "keys", _short(a), _short(b)))
            return
        for k in a:
            jdiff(a[k], b[k], f"{path}.{_key(k)}", out, limit)
        return
    if isinstance(a, list) and isinstance(b, list):
        if len(a) != len(b):
            out.append((path + "[]", "length", _short(a), _short(b)))
            return
        differing = [i for i, (x, y) in enumerate(zip(a, b)) if x != y]
        if len(differing) > 1 and sorted(_canon(a[i]) for i in differing) == sorted(_canon(b[i]) for i in differing):
            # the same items in another order
            out.append((path + "[]", "reordered", _short(a), _short(b)))
            return
        for i in differing:
            jdiff(a[i], b[i], path + "[]", out, limit)
        return
    if type(a) is not type(b):
        out.append((path, "type", _short(a), _short(b)))
        return
    out.append((path, "value", _short(a), _short(b)))


FEATURE_LINE = re.compile(r"^ {5}(\S+) +(\S.*)$")


def parse_genbank(text: str) -> dict:
    """ GenBank text -> {"HEADER": [lines], "FEATURES": {"order": [[type, location]], <type>: [feature, ...]}}
        with feature = {"location": str, "qualifiers": ordered pairs key -> [raw values]} """
    header, order, by_type = [], [], {}
    in_features = False
    current = None
    last = None          # ("location",) or ("qualifier", key)
    for line in text.split("\n"):
        if not in_features:
            if line.startswith("FEATURES"):
                in_features = True
            else:
                header.append(line)
            continue
        if line.startswith("ORIGIN") or line.startswith("//"):
            header.append(line)
            continue
        match = FEATURE_LINE.match(line) if not line.startswith(" " * 21) else None
        if match:
            current = {"location": match.group(2), "qualifiers": {"__pairs__": []}}
            by_type.setdefault(match.group(1), []).append(current)
            order.append([match.group(1), current])
            last = ("location",)
            continue
        if current is None:
            header.append(line)
            continue
        body = line[21:]
        pairs = current["qualifiers"]["__pairs__"]
        if body.startswith("/"):
            key, _, value = body[1:].partition("=")
            if pairs and pairs[-1][0] == key:
                pairs[-1][1].append(value)
            else:
                pairs.append([key, [value]])
            last = ("qualifier", key)
        elif last == ("location",):
            current["location"] += body
        elif pairs:
            pairs[-1][1][-1] += "\n" + body
    features = dict(by_type)
    features["order"] = [[kind, feat["location"]] for kind, feat in order]
    return {"HEADER": header, "FEATURES": features}


def regroup_json_features(parsed):
    """ results_json: records[].features (a list) -> {"order": [[type, location]], <type>: [features]} so that
        key paths name the feature type """
    def value_of(pairs_obj, key):
        for k, v in pairs_obj["__pairs__"]:
            if k == key:
                return v
        return None
    try:
        for k, records in parsed["__pairs__"]:
            if k != "records":
                continue
            for record in records:
                for item in record["__pairs__"]:
                    if item[0] != "features":
                        continue
                    grouped = {"order": []}
                    for feature in item[1]:
                        kind = value_of(feature, "type")
                        grouped.setdefault(str(kind), []).append(feature)
                        grouped["order"].append([kind, value_of(feature, "location")])
                    item[1] = grouped
    except (KeyError, TypeError):
        pass
    return parsed


def where_differs(stage: str, a, b) -> list:
    """ [(key path, kind, excerpt a, excerpt b)] """
    out: list = []
    if isinstance(a, str) and isinstance(b, str):
        if stage == "genbank":
            jdiff(parse_genbank(a), parse_genbank(b), "$", out)
            return out or [("TEXT", "value", "", "")]
        try:
            pa, pb = _pairs(a), _pairs(b)
        except ValueError:
            return [("TEXT", "value", a[:240], b[:240])]
        if stage == "results_json":
            pa, pb = regroup_json_features(pa), regroup_json_features(pb)
        jdiff(pa, pb, "$", out)
        return out or [("$", "value", "", "")]
    if stage == "region_genbank" and isinstance(a, list) and isinstance(b, list) and len(a) == len(b):
        for (na, ta), (nb, tb) in zip(a, b):
            if na != nb:
                out.append(("FILES", "value", na, nb))
            elif ta != tb:
                jdiff(parse_genbank(ta), parse_genbank(tb), "$", out)
        return out[:6] or [("FILES", "value", "", "")]
    jdiff(a, b, "$", out)
    return out or [("$", "type", "", "")]


# ---------------------------------------------------------------------------------------------
# structural facts of an input as the first child saw it (ties the property names)
# ---------------------------------------------------------------------------------------------

def observed_ties(case, stages) -> dict:
    facts = dict(I.input_ties(case))
    numbering = stages.get("protocluster_numbering")
    if isinstance(numbering, list):
        locs = [p["location"] for p in numbering]
        both = [p["core"] + p["location"] for p in numbering]
        facts["equal_location_protoclusters"] = len(set(locs)) < len(locs)
        facts["equal_core_and_location_protoclusters"] = len(set(both)) < len(both)
        facts["n_protoclusters"] = len(numbering)
    cands = stages.get("candidate_clusters")
    if isinstance(cands, list) and isinstance(numbering, list):
        loc_of = {p["number"]: p["location"] for p in numbering}
        facts["candidate_with_equal_location_members"] = any(
            len({loc_of.get(n) for n in c["protocluster_numbers"]}) < len(c["protocluster_numbers"]) for c in cands)
        facts["hybrid_with_equal_location_members"] = any(
            c["kind"] == "chemical_hybrid"
            and len({loc_of.get(n) for n in c["protocluster_numbers"]}) < len(c["protocluster_numbers"]) for c in cands)
        clocs = [c["location"] for c in cands]
        facts["equal_location_candidates"] = len(set(clocs)) < len(clocs)
        singles = [c["location"] for c in cands if c["kind"] == "single"]
        facts["equal_location_single_candidates"] = len(set(singles)) < len(singles)
    regions = stages.get("regions")
    if isinstance(regions, list):
        facts["region_crosses_origin"] = any("join" in r["location"] or "{" in r["location"] for r in regions)
    domains = stages.get("definition_domains")
    if isinstance(domains, dict):
        facts["cds_defined_by_several_domains"] = any(len(v) >= 2 for d in domains.values() for v in d.values())
    detection = stages.get("detection_results_json")
    if isinstance(detection, str):
        # the final definition domains (EXTENDERS add to them after the rules were applied)
        try:
            for _cluster, cds_results in json.loads(detection)["rule_results"]["cds_by_protocluster"]:
                for cds_result in cds_results:
                    if any(len(v) >= 2 for v in cds_result["definition_domains"].values()):
                        facts["cds_defined_by_several_domains"] = True
        except (ValueError, KeyError, TypeError):
            pass
    return facts


# ---------------------------------------------------------------------------------------------
# structural relation between the area stages of two children (what kind of difference is it?)
# ---------------------------------------------------------------------------------------------

LOC_PART = re.compile(r"\[(\d+):(\d+)\]")


def _loc(text: str):
    """ location string -> (parts, bridging) """
    parts = [(int(s), int(e)) for s, e in LOC_PART.findall(text)]
    bridging = len(parts) > 1 and parts[0][0] > parts[-1][0]
    return parts, bridging


def unordered_by_location(loc_x: str, loc_y: str) -> bool:
    """ True when the location-only comparison used for sorting areas cannot order the two: identical coordinates """
    return loc_x == loc_y


def _explained(x, y, _items, loc) -> bool:
    """ an inverted pair of a sorted list is explained by the location-only comparison when the two do not order """
    return unordered_by_location(loc(x), loc(y))


def _inversions(order_a, order_b):
    """ pairs whose relative order differs between two orderings of the same items """
    pos_b = {item: i for i, item in enumerate(order_b)}
    out = []
    for i, x in enumerate(order_a):
        for y in order_a[i + 1:]:
            if pos_b[x] > pos_b[y]:
                out.append((x, y))
    return out


def pair_facts(ref: dict, other: dict) -> dict:
    """ facts about HOW the area stages of two replays of one input differ; all derived from the dumps,
        none from seeds or addresses """
    facts = {}
    num_a, num_b = ref.get("protocluster_numbering"), other.get("protocluster_numbering")
    if not isinstance(num_a, list) or not isinstance(num_b, list):
        return facts
    facts["protocluster_numbering_equal"] = num_a == num_b
    if num_a != num_b:
        return facts
    loc_of = {p["number"]: p["location"] for p in num_a}
    prod_of = {p["number"]: p["product"] for p in num_a}
    cands_a, cands_b = ref.get("candidate_clusters"), other.get("candidate_clusters")
    if isinstance(cands_a, list) and isinstance(cands_b, list):
        def group(c):
            return (c["kind"], tuple(sorted(c["protocluster_numbers"])), c["location"], c["core"])
        groups_a, groups_b = [group(c) for c in cands_a], [group(c) for c in cands_b]
        groups_equal = sorted(groups_a) == sorted(groups_b) and len(set(groups_a)) == len(groups_a)
        facts["candidate_groups_equal"] = groups_equal
        if groups_equal:
            by_group_b = {group(c): c for c in cands_b}
            member_order_differs, explained = False, True
            for c in cands_a:
                twin = by_group_b[group(c)]
                for x, y in _inversions(c["protocluster_numbers"], twin["protocluster_numbers"]):
                    member_order_differs = True
                    if not _explained(x, y, c["protocluster_numbers"], loc_of.get):
                        explained = False
            numbering_differs = groups_a != groups_b
            for x, y in _inversions(groups_a, groups_b):
                if not _explained(x, y, groups_a, lambda g: g[2]):
                    explained = False
            facts["candidate_member_order_differs"] = member_order_differs
            facts["candidate_numbering_differs"] = numbering_differs
            facts["candidate_order_differs_only_where_locations_do_not_order"] = explained
    regs_a, regs_b = ref.get("regions"), other.get("regions")
    if isinstance(regs_a, list) and isinstance(regs_b, list):
        def shape(r):
            return (r["location"], tuple(sorted(p["number"] for p in r["unique_protoclusters"])),
                    len(r["candidate_numbers"]))
        shapes_equal = [shape(r) for r in regs_a] == [shape(r) for r in regs_b]
        facts["region_groups_equal"] = shapes_equal
        if shapes_equal:
            differs, linear_only, same_product_only, explained = False, True, True, True
            for x, y in zip(regs_a, regs_b):
                crossing = _loc(x["location"])[1]
                members = [u["number"] for u in x["unique_protoclusters"]]
                for p, q in _inversions(members, [u["number"] for u in y["unique_protoclusters"]]):
                    differs = True
                    if crossing:
                        linear_only = False
                    if not _explained(p, q, members, loc_of.get):
                        explained = False
                    if prod_of[p] != prod_of[q] or loc_of[p] != loc_of[q]:
                        same_product_only = False
            facts["unique_protocluster_order_differs"] = differs
            facts["unique_order_differs_only_in_regions_not_crossing_origin"] = linear_only
            facts["unique_order_differs_only_where_locations_do_not_order"] = explained
            facts["unique_order_differs_only_among_equal_location_and_product"] = same_product_only
    return facts


# ---------------------------------------------------------------------------------------------
# children
# ---------------------------------------------------------------------------------------------

def child_env(seed: int) -> dict:
    env = dict(os.environ)
    env["PYTHONHASHSEED"] = str(seed)          # ./check exports 0 for the parent: override
    env["PYTHONDONTWRITEBYTECODE"] = "1"
    for name in ("OPENBLAS_NUM_THREADS", "OMP_NUM_THREADS", "MKL_NUM_THREADS"):
        env[name] = "1"                         # numpy's thread pools are not needed: keep CPU use modest
    repo = os.environ.get("VERIF_REPO", "/repo")
    env["PYTHONPATH"] = os.pathsep.join([repo, HERE, os.path.join(HERE, ".deps")])
    return env


def run_child(plan_path: str, out_path: str, seed: int, timeout: float):
    cmd = [sys.executable, "-X", "faulthandler", "-m", "vf.c17_child", plan_path, out_path]
    try:
        proc = subprocess.run(cmd, env=child_env(seed), timeout=timeout, capture_output=True, text=True, check=False,
                              cwd=HERE)
    except subprocess.TimeoutExpired:
        return "timeout", ""
    if proc.returncode != 0 or not os.path.exists(out_path):
        return f"rc={proc.returncode}", (proc.stderr or "")[-1500:]
    return None, ""


def replay_in_children(ctx, cases, children, timeout, parallel: int):
    """ children: [(label, hashseed, layout_key)]; yields (label, error, stderr tail, parsed output) in the order
        of `children`; at most `parallel` children run at a time and at most `parallel` outputs are held """
    os.makedirs(core.WORK_DIR, exist_ok=True)
    with tempfile.TemporaryDirectory(prefix="c17-", dir=core.WORK_DIR) as tmp:
        plans = {}
        for _label, _seed, layout_key in children:
            if layout_key not in plans:
                path = os.path.join(tmp, f"plan{layout_key}.json")
                with open(path, "w", encoding="utf-8") as handle:
                    json.dump({"cases": cases, "orders": ORDERS, "layout_key": layout_key}, handle)
                plans[layout_key] = path

        def job(child):
            label, seed, layout_key = child
            out = os.path.join(tmp, f"out-{label}.json")
            if ctx.time_left() < -90:       # far past the soft budget: stop starting children
                return label, "skipped-budget", "", None
            err, tail = run_child(plans[layout_key], out, seed, timeout)
            data = None
            if err is None:
                with open(out, encoding="utf-8") as handle:
                    data = json.load(handle)
                os.remove(out)
            return label, err, tail, data
        if parallel <= 1:
            for child in children:
                yield job(child)
            return
        with concurrent.futures.ThreadPoolExecutor(max_workers=parallel) as pool:
            # submit in windows so that finished outputs do not pile up in memory
            pending = list(children)
            window = []
            while pending or window:
                while pending and len(window) < parallel:
                    window.append(pool.submit(job, pending.pop(0)))
                yield window.pop(0).result()


# ---------------------------------------------------------------------------------------------
# the check
# ---------------------------------------------------------------------------------------------

def gen_cases(ctx, n):
    rng = ctx.rng("inputs")
    total = sum(w for _, w in KIND_MIX)
    cases = []
    for kind, weight in KIND_MIX:
        for _ in range(max(2, n * weight // total)):
            cases.append(I.gen_input(rng, kind))
    rng.shuffle(cases)      # every prefix holds all kinds (a batch may be trimmed to fit the time budget)
    return cases


def children_for(tier, seeds=None):
    seeds = seeds if seeds is not None else (QUICK_SEEDS if tier == "quick" else THOROUGH_SEEDS)
    children = [(f"seed{s}", s, 0) for s in seeds]
    # layout twins: same hash seed as an earlier child, another heap fragmentation pattern
    children.insert(1, (f"seed{seeds[0]}-layout-twin", seeds[0], 1))
    if tier == "thorough" and len(seeds) > 1:
        children.append((f"seed{seeds[1]}-layout-twin", seeds[1], 2))
    return children


TIE_COUNTERS = [("equal_location_protoclusters", "tie:equal-location-protoclusters"),
                ("equal_start_hits", "tie:equal-start-hits"),
                ("equal_start_and_score_hits", "tie:equal-start-and-score-hits"),
                ("equal_score_overlapping_hits", "tie:equal-score-overlapping-hits"),
                ("cds_defined_by_several_domains", "tie:cds-defined-by-several-domains"),
                ("equal_location_candidates", "tie:equal-location-candidates"),
                ("equal_location_single_candidates", "tie:single-candidates-of-equal-location"),
                ("hybrid_with_equal_location_members", "shape:hybrid-of-equal-location-protoclusters"),
                ("region_crosses_origin", "shape:region-crosses-origin")]


class Comparator:
    """ holds the dumps of the first child; every later child is compared with them and dropped """

    def __init__(self, ctx, cases):
        self.ctx = ctx
        self.cases = cases
        self.ref_label = None
        self.ref_seed = None
        self.ref = None
        self.facts = {}           # (idx, order) -> tie facts seen in the reference
        self.reported = set()     # (idx, order, stage, path)
        self.variants = set()     # (idx, order, stage, digest of a differing dump) already analysed
        self.differing_inputs = set()
        self.stage_names = set()
        self.compared_children = 0

    def add(self, label, seed, data):
        if self.ref is None:
            self.ref_label, self.ref_seed, self.ref = label, seed, data["dumps"]
            for idx, case in enumerate(self.cases):
                for order in range(ORDERS):
                    stages = self.ref.get(f"{idx}/{order}", {})
                    self.facts[(idx, order)] = observed_ties(case, stages)
                    for name, value in stages.items():
                        self.stage_names.add(name)
                        self.ctx.count("stage:" + name)
                        if isinstance(value, dict) and "crash" in value:
                            self.ctx.count("info:stage-crashed-in-first-child:" + name)
                    if "harness_crash" in stages:
                        self.ctx.violate("harness-crash", stages["harness_crash"], {"input": case, "order": order})
            return
        self.compared_children += 1
        ctx = self.ctx
        same_seed = seed == self.ref_seed
        for idx, case in enumerate(self.cases):
            for order in range(ORDERS):
                key = f"{idx}/{order}"
                stages = self.ref.get(key, {})
                other = data["dumps"].get(key, {})
                relation = None
                for name in list(stages) + [n for n in other if n not in stages]:
                    ctx.count("op:stage-compare")
                    if name in stages and name in other and stages[name] == other[name]:
                        continue
                    self.differing_inputs.add(idx)
                    if name not in stages or name not in other:
                        paths = [("STAGE-MISSING", "keys", "", "")]
                    else:
                        variant = (idx, order, name, core.digest(other[name]))
                        if variant in self.variants:
                            continue        # another child already produced exactly this dump
                        self.variants.add(variant)
                        paths = where_differs(name, stages[name], other[name])
                    if relation is None:
                        relation = pair_facts(stages, other)
                    for path, kind, left, right in paths:
                        if (idx, order, name, path) in self.reported:
                            continue
                        self.reported.add((idx, order, name, path))
                        facts = dict(self.facts[(idx, order)], **relation)
                        facts.update(stage=name, path=path, difference=kind, input_kind=case["kind"],
                                     differs_between_children_of_equal_hash_seed=same_seed)
                        ctx.violate(f"differs:{name}:{path}", facts,
                                    {"input": case, "order": order, "stage": name,
                                     "children": [self.ref_label, label], "excerpts": [left, right]})

    def finish(self):
        ctx = self.ctx
        for idx, case in enumerate(self.cases):
            ties = I.has_tie(case)
            for order in range(ORDERS):
                facts = self.facts.get((idx, order), {})
                ties = ties or bool(facts.get("equal_location_protoclusters"))
                for fact, counter in TIE_COUNTERS:
                    if facts.get(fact):
                        ctx.count(counter)
                if facts.get("n_rules", 0) >= 2:
                    ctx.count("tie:several-rules")
            if ties:
                ctx.count("inputs:with-ties")
            if idx in self.differing_inputs:
                ctx.count("inputs:with-a-differing-stage")
            ctx.case(("input", case), nontrivial=bool(ties),
                     sample={"input": case, "ties": self.facts.get((idx, 0), {})} if ties else None)
        ctx.extra["stages_compared"] = sorted(set(ctx.extra.get("stages_compared", [])) | self.stage_names)


def run_batch(ctx, cases, children, parallel):
    timeout = CHILD_TIMEOUT_S[ctx.tier]
    t0 = time.monotonic()
    done, probes, failures = [], {}, 0
    comparator = None

    fingerprints = {}

    def take(results):
        nonlocal failures
        for label, err, tail, data in results:
            if err is None:
                fingerprints[label] = data["meta"].get("code_fingerprint")
                if len(set(fingerprints.values())) > 1 and fingerprints[label] != next(iter(fingerprints.values())):
                    err, tail = "code under test changed while the batch was running", ""
                    ctx.count("info:code-under-test-changed-during-run")
            ctx.count("children:started")
            if err is not None:
                failures += 1
                ctx.count("children:failed")
                ctx.notes.append(f"child {label} failed: {err} {tail[-300:]}")
                continue
            ctx.count("children:completed")
            seed = next(s for lab, s, _ in children if lab == label)
            done.append((label, seed))
            probes[seed] = data["meta"]["hash_probe"]
            if str(data["meta"]["hashseed_env"]) != str(seed):
                ctx.notes.append(f"child {label} ran with PYTHONHASHSEED={data['meta']['hashseed_env']}")
                failures += 1
            yield label, seed, data

    # the first child runs alone: its dumps are the reference and its timing sizes the rest of the batch
    kept = cases
    for label, seed, data in take(replay_in_children(ctx, cases, children[:1], timeout, 1)):
        meta = data["meta"]
        rest = max(1, len(children) - 1)
        per_child = max(ctx.time_left() * 0.8, 15.0) * max(1, parallel) / rest
        cost = meta.get("import_s", 3.0) + meta.get("work_s", 1.0)
        if cost > per_child and meta.get("work_s", 0) > 0:
            share = max(0.0, per_child - meta.get("import_s", 3.0)) / meta["work_s"]
            kept = cases[:max(8, int(len(cases) * share))]
            ctx.notes.append(f"batch trimmed from {len(cases)} to {len(kept)} inputs to fit the time budget")
            ctx.count("info:batch-trimmed")
        comparator = Comparator(ctx, kept)
        comparator.add(label, seed, data)
    if comparator is not None:
        for label, seed, data in take(replay_in_children(ctx, kept, children[1:], timeout, parallel)):
            comparator.add(label, seed, data)
            del data
        comparator.finish()
    if len(set(probes.values())) == len(probes) and len(probes) >= 2:
        ctx.count("seeds:distinct-hash-probes", len(probes))
        if len(probes) >= 32:
            ctx.count("seeds:at-least-32-distinct")
    ctx.extra["child_wall_s"] = round(ctx.extra.get("child_wall_s", 0) + time.monotonic() - t0, 1)
    ctx.extra["hash_seeds_used"] = sorted(set(ctx.extra.get("hash_seeds_used", [])) | set(probes))
    ctx.extra["children"] = sorted(set(ctx.extra.get("children", [])) | {label for label, _ in done})
    ctx.extra["children_compared_with_first"] = max(ctx.extra.get("children_compared_with_first", 0),
                                                    comparator.compared_children if comparator else 0)
    ctx.extra["inputs"] = ctx.extra.get("inputs", 0) + len(kept)
    ctx.extra["code_fingerprints"] = sorted(set(ctx.extra.get("code_fingerprints", []))
                                            | {f for f in fingerprints.values() if f})
    return failures == 0 and len(done) == len(children)


def run(ctx):
    children = children_for(ctx.tier)
    if ctx.tier == "quick":
        cases = gen_cases(ctx, ctx.quota(125, 125))
        clean = run_batch(ctx, cases, children, parallel=4)
    else:
        # one batch per worker, its 34 children run one after the other (16 workers keep 16 cores busy)
        cases = gen_cases(ctx, ctx.quota(125, 1280))
        clean = run_batch(ctx, cases, children, parallel=1)
    if clean:
        ctx.count("children_clean")
    ctx.extra["orders_per_input"] = ORDERS
    ctx.extra["layout_note"] = ("memory layout varied by random heap fragmentation per child and replay; allocator "
                                "addresses themselves cannot be forced")


def replay(ctx, case):
    cases = [case["input"]] if isinstance(case, dict) and "input" in case else [case]
    run_batch(ctx, cases, children_for("quick"), parallel=4)


# ---------------------------------------------------------------------------------------------
# known findings (registered below once confirmed on the current tree)
# ---------------------------------------------------------------------------------------------

def _stage_path(clause: str):
    parts = clause.split(":", 2)
    if len(parts) != 3 or parts[0] != "differs":
        return None, None
    return parts[1], parts[2]


@findings.classifier("c17_enabled_types_set_order")
def _c17_enabled_types(clause, facts):
    """ hmm_detection.run_on_record stores list(ruleset.get_rule_names()), a list made from a set of strings: the
        order of HMMDetectionResults.enabled_types in the results JSON follows the string hash seed.
        Must not hide: a different *set* of enabled types, or any other key of the module results. """
    stage, path = _stage_path(clause)
    return (stage in ("detection_results_json", "results_json") and path is not None
            and path.endswith("enabled_types[]") and facts.get("difference") == "reordered"
            and facts.get("n_rules", 0) >= 2)


_AREA_JSON = r"(\$\.records\[\]\.areas|\$)\[\]\."
_K4_PATHS = {
    "candidate_clusters": re.compile(r"^\$\[\]\.(products\[\]|protocluster_numbers\[\]|kind|core|location|number)$"),
    "regions": re.compile(r"^\$\[\]\.(products\[\]|detection_rules\[\]|unique_protoclusters\[\]|candidate_numbers\[\])$"),
    "areas_json": re.compile("^" + _AREA_JSON + r"(products\[\]|candidates\[\](\.(protoclusters\[\]|kind|start|end))?"
                                                 r"|protoclusters\.\*\.(product|core_start|core_end|category|tool))$"),
    "genbank": re.compile(r"^\$\.FEATURES\.(order\[\]|cand_cluster\[\]\.(location|qualifiers(\.\w+(\[\])?)?)"
                          r"|region\[\]\.qualifiers\.(product|rules|candidate_cluster_numbers)\[\])$"),
    "results_json_features": re.compile(r"^\$\.records\[\]\.features\.(order\[\]"
                                        r"|cand_cluster\[\]\.(location|qualifiers(\.\w+(\[\])?)?)"
                                        r"|region\[\]\.qualifiers\.(product|rules|candidate_cluster_numbers)\[\])$"),
}
_UNIQUE_ORDER_PATHS = {
    "regions": re.compile(r"^\$\[\]\.unique_protoclusters\[\]$"),
    "areas_json": re.compile("^" + _AREA_JSON + r"(candidates\[\]\.protoclusters\[\]"
                                                 r"|protoclusters\.\*\.(product|start|end|core_start|core_end|category|tool))$"),
}


def _path_allowed(table, stage, path) -> bool:
    if stage == "region_genbank":
        stage = "genbank"
    if stage == "results_json":
        return bool(table.get("areas_json") and table["areas_json"].match(path)) \
            or bool(table.get("results_json_features") and table["results_json_features"].match(path))
    return bool(table.get(stage) and table[stage].match(path))


@findings.classifier("c17_candidate_order_of_equal_location_protoclusters")
def _c17_formation_order(clause, facts):
    """ candidate formation sorts sets of protoclusters with a location-only comparison: protoclusters with identical
        coordinates (several rules anchoring on the same genes with the same distances, or neighbourhoods clipped at
        both record ends) keep set iteration order, which follows object addresses. Member order of a candidate
        (hence product / rule order of candidates and regions) and the numbering of equal-location SINGLE candidates
        change between runs; the grouping itself does not.
        Region.get_unique_protoclusters (a dict in member order, sorted by location) and the protocluster indices of
        records.areas inherit that order.
        Must not hide: a different grouping, kind or extent of any candidate or region; order changes among
        protoclusters whose coordinates differ; in an origin-crossing region, order changes among equal-coordinate
        protoclusters of different products (the product tie-break of get_unique_protoclusters); any difference
        before formation (hits, anchors, protoclusters, protocluster numbering) or in features other than
        cand_cluster / region qualifiers derived from the order. """
    stage, path = _stage_path(clause)
    if stage is None or not _path_allowed(_K4_PATHS, stage, path):
        return False
    if _path_allowed(_UNIQUE_ORDER_PATHS, stage, path) and facts.get("unique_protocluster_order_differs") is True:
        # Region.get_unique_protoclusters orders by (start, -length, product) in origin-crossing regions: there only
        # equal-coordinate protoclusters of one product may follow the member order of the candidates
        if not (facts.get("unique_order_differs_only_where_locations_do_not_order") is True
                and (facts.get("unique_order_differs_only_in_regions_not_crossing_origin") is True
                     or facts.get("unique_order_differs_only_among_equal_location_and_product") is True)):
            return False
    return (facts.get("protocluster_numbering_equal") is True
            and facts.get("candidate_groups_equal") is True
            and facts.get("region_groups_equal") is True
            and facts.get("candidate_order_differs_only_where_locations_do_not_order") is True
            and (facts.get("candidate_member_order_differs") is True or facts.get("candidate_numbering_differs") is True))
