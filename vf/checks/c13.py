"""C13 HMM hit refinement keeps the best non-overlapping hits, order-independently.

The real functions are executed on generated hit multisets:
  antismash.common.hmmscan_refinement.refine_hmmscan_results        (both neighbour modes)
  antismash.common.hmmer.remove_overlapping
  antismash.common.hmm_rule_parser.cluster_prediction.filter_results / filter_result_multiple
  antismash.detection.nrps_pks_domains.domain_identification.filter_nonterminal_docking_domains
Each execution is judged by (1) the clause checkers of vf.models.refine_ref (constraints on the
(input, output) pair on an interval model) and (2) the permutation metamorphosis: the same multiset
in every order (all permutations for <= 5 hits, reversed + 10 random otherwise; the order inside one
QueryResult, the distribution over several QueryResults and the order of genes are all permuted)
must give the same result.  install_monitors() puts the clause checkers on every binding site of the
real functions so that pipeline workloads of other checks are observed by the same oracles.
"""
from __future__ import annotations

import functools
import itertools
import random
from types import SimpleNamespace

from antismash.common import hmmer as hmmer_module
from antismash.common import hmmscan_refinement as refinement
from antismash.common.hmm_rule_parser import cluster_prediction
from antismash.detection.nrps_pks_domains import domain_identification

from vf import findings, instrument
from vf.gen import hits as G
from vf.models import refine_ref as R
from vf.models.refine_ref import HHit, Hit, PHit

PROPERTY = "C13"
LEVEL = "exploration"
PARALLEL = True
RULE = ("refine: 1-8 hits per gene (1-2 genes) over 2-4 profiles with model lengths 20/50/100, starts on a 5-grid "
        "plus shapes built relative to an earlier hit (equal start, nested, chain overlapping by margin-1/margin/"
        "margin+1, same-profile fragment around the 1.5 x model merge limit, completeness boundary), scores from "
        "{10,20,30,40} / rising / distinct, both neighbour modes, hsps spread over 1..n QueryResult objects; plus "
        "exhaustive sweep of all sets of <= 2 (quick, 90 grid hits) / <= 3 (thorough, 135 grid hits: 3 profiles x 15 "
        "intervals x 3 scores) hits on the grid {0,5,10,20,30,50}, both modes, all orders. "
        "hmmer: 1-8 HmmerHit objects, 2-4 identifiers with cutoffs {10,20,25}, overlap_limit in {1,5,10,20}. "
        "filter: 1-3 genes x 1-6 profile hits, equivalence groups of 2-3 profiles, overlaps around the 20 "
        "position threshold. docking: 1-3 genes, domains around the 50 residue terminal windows. Every case is run "
        "in all (<= 5 hits) or 12 orders. Non-trivial: at least two hits of one gene in conflict (sharing more "
        "than the margin / limit / 20 positions, or nested); distinct by (function, mode, sorted hits).")
ASSUMPTIONS = [
    "Hits are well-formed: integer start < end, every profile has a model length / cutoff, bitscores > 0 "
    "(hmmer.remove_overlapping divides by the score; filter_result_multiple ignores scores <= -1).",
    "'Overlap by more than the allowed margin' is read as: number of shared positions > 0.2 x the longer model "
    "(refinement), > overlap_limit (hmmer.remove_overlapping), > 20 (filter_results). A drop is also accepted as "
    "justified when the dropped hit and the better kept hit are nested, whatever the size of the inner one.",
    "Fragments of at most one third of their model (the documented fallback of remove_incomplete) may vanish "
    "without an alternative; counted as drop:unspecified-below-fallback, not judged.",
    "A merge of same-profile fragments must span them exactly, carry their best score and smallest e-value and "
    "be shorter than 1.5 x model; a fragment that already covers the whole output may absorb the fragments inside "
    "it however long it is (nothing is extended).",
    "The order of returned hits among equal starts, and how many copies of byte-identical input hits come back, "
    "are not constrained (counted as unspecified:...); permutation results are compared with start ties sorted.",
    "'A more complete alternative' may be a hit of another profile anywhere on the protein (the code does not "
    "separate profiles there); 'better-ranked' is higher bitscore, equal bitscores favour the earlier start.",
    "In normal mode same-profile fragments are merged before the competition, so a fragment may be dropped "
    "because a permissible merge containing it lost.",
    "For the per-gene competition the property demands survival of the best of each overlap group / profile; "
    "a hit dropped by a rival that was itself dropped is counted (unspecified:dropped-by-rival-that-was-dropped).",
    "Set iteration order can only be influenced through insertion order under the fixed PYTHONHASHSEED=0; other "
    "hash seeds are the business of C17.",
]
REQUIRED = ["op:refine-normal", "op:refine-neighbour", "op:refine-permutation", "op:hmmer", "op:hmmer-permutation",
            "op:filter_results", "op:filter_result_multiple", "op:filter-permutation", "op:docking",
            "shape:start-tie", "shape:score-tie", "shape:nested", "shape:same-profile-fragments",
            "shape:rising-chain", "shape:filter-chain-group-of-4", "shape:filter-tie-for-best",
            "boundary:overlap-at-margin", "boundary:merge-span-at-limit", "boundary:hmmer-overlap-at-limit",
            "boundary:docking-49/50", "out:merge", "drop:better-kept-conflict", "drop:incomplete-with-alternative",
            "filter_results:overlap-group", "filter_multiple:profile-with-copies", "exhaustive:sets",
            "op:refine-real-biopython-objects", "op:ruleset-history", "class:hits-below-their-profile-cutoff",
            "shape:restart-then-merge"]

MAX_ALL_PERMS = 5
RANDOM_PERMS = 10


# --------------------------------------------------------------------------------------------
# known findings (classifiers): each names the mechanism and what it must not hide
# --------------------------------------------------------------------------------------------

@findings.classifier("c13_start_tie_set_order")
def _k_start_tie(clause, facts):
    """ refine_hmmscan_results sorts a *set* by start only; hits with equal starts keep set iteration
        order. Must not hide: any order dependence without two hits of one gene sharing a start. """
    return clause == "permutation-invariant" and facts.get("fn") == "refine" and facts.get("start_tie") is True


@findings.classifier("c13_merge_shrinks_nested_fragment")
def _k_merge_shrinks(clause, facts):
    """ HMMResult.merge builds [first.start, second.end): when a same-profile fragment starting inside
        the output reaches beyond its end, the 'merge' is shorter than a fragment. Must not hide: outputs
        that are no merge for any other reason (span too long, wrong score, foreign profile), nor drops of
        hits that do not stick out of such an output. """
    if facts.get("fn") != "refine":
        return False
    if clause == "output-is-input-or-merge":
        return facts.get("shape") == "shrunk-merge"
    return clause == "drop-justified" and (facts.get("sticks_out_of_shrunk_merge") is True
                                           or facts.get("tail_cut_by_same_profile_fragment") is True
                                           or facts.get("lost_to_shrunk_merge") is True)


@findings.classifier("c13_overlap_after_intermediate_removed")
def _k_intermediate(clause, facts):
    """ _remove_overlapping compares with the previous kept hit only; two kept hits were separated by a hit
        of a longer model (larger margin) that was replaced / removed afterwards. Must not hide: overlapping
        outputs with no such absent intermediate hit. """
    return clause == "output-overlap-within-margin" and facts.get("intermediate_longer_model_absent") is True


@findings.classifier("c13_chain_loser_not_restored")
def _k_chain(clause, facts):
    """ single greedy pass: a hit beaten by its successor stays dropped when the successor is beaten in turn
        or removed as incomplete afterwards. Must not hide: a drop where no better conflicting hit (or merge)
        exists in the input at all, or where every better conflicting one is kept. """
    return (clause == "drop-justified" and facts.get("fn") == "refine"
            and facts.get("lost_to_absent_rival") is True)


@findings.classifier("c13_normal_mode_keeps_last_chain_only")
def _k_last_chain(clause, facts):
    """ _merge_domain_list overwrites its accumulator when a same-profile hit is too far to merge, so only the
        last chain of each profile survives. Must not hide: drops in neighbour mode, drops of hits with no
        same-profile hit beyond the 1.5 x model span. """
    return (clause == "drop-justified" and facts.get("fn") == "refine" and facts.get("mode") == "normal"
            and facts.get("same_profile_restart") is True)


@findings.classifier("c13_hmmer_earliest_short_hit_twice")
def _k_hmmer_twice(clause, facts):
    """ hmmer.remove_overlapping seeds the first group with hits[0] and then iterates over hits[0] again: when it
        is shorter than overlap_limit it closes a group holding itself and is emitted twice (which hit that is
        depends on the input order of equal starts). Must not hide: any other duplicate, any order dependence that
        changes the *set* of surviving hits. """
    if facts.get("fn") != "hmmer.remove_overlapping":
        return False
    if clause == "output-is-sub-multiset-of-input":
        return facts.get("only_earliest_hit_shorter_than_limit") is True
    return (clause == "permutation-invariant" and facts.get("same_set") is True
            and facts.get("earliest_hit_shorter_than_limit") is True)


@findings.classifier("c13_competition_groups_not_merged")
def _k_groups_not_merged(clause, facts):
    """ filter_results adds a bridging pair to both groups it touches instead of merging them; in a chain of
        >= 4 hits (a-x-y-b) the survivors then depend on the order and, with score ties, a gene can lose every
        hit (assertion). Must not hide: order dependence / crashes in genes whose overlap groups are cliques
        or have fewer than 4 members. """
    if facts.get("fn") != "filter_results" or facts.get("chain_group_of_4") is not True:
        return False
    if clause == "group-best-survives":      # the tied bests removed each other through two unmerged groups
        return facts.get("tie_for_best") is True
    return clause in ("permutation-invariant", "filter-crash")


@findings.classifier("c13_competition_score_tie_by_order")
def _k_competition_tie(clause, facts):
    """ filter_results / filter_result_multiple break exact bitscore ties by list / set order. Must not hide:
        order dependence without an exact tie for the best score of a group or profile. """
    return (clause == "permutation-invariant" and facts.get("fn") in ("filter_results", "filter_result_multiple")
            and facts.get("tie_for_best") is True)


# --------------------------------------------------------------------------------------------
# stub inputs: exactly the attributes the functions read
# --------------------------------------------------------------------------------------------

class StubHSP:  # identity equality and hash, like Bio's HSP
    __slots__ = ("hit_id", "query_id", "query_start", "query_end", "hit_start", "hit_end", "evalue", "bitscore",
                 "__weakref__")

    def __init__(self, hit_id, query_id, query_start=0, query_end=1, hit_start=0, hit_end=1, evalue=1.0, bitscore=0.0):
        self.hit_id = hit_id
        self.query_id = query_id
        self.query_start = query_start
        self.query_end = query_end
        self.hit_start = hit_start
        self.hit_end = hit_end
        self.evalue = evalue
        self.bitscore = bitscore


class StubQueryResult:
    __slots__ = ("hsps",)

    def __init__(self, hsps):
        self.hsps = list(hsps)


def _real_query_results(chunks):
    from Bio.SearchIO import QueryResult
    from Bio.SearchIO._model.hit import Hit as BioHit
    from Bio.SearchIO._model.hsp import HSP, HSPFragment
    results = []
    for chunk in chunks:
        hits = []
        for gene, prof, start, end, score, evalue in chunk:
            frag = HSPFragment(prof, gene)
            frag.query_start, frag.query_end = start, end
            hsp = HSP([frag])
            hsp.bitscore, hsp.evalue = score, evalue
            hits.append(BioHit([hsp]))
        # a QueryResult demands one query id and unique hit ids: group accordingly
        by_key = {}
        for hit in hits:
            by_key.setdefault(hit.query_id, []).append(hit)
        for gene, members in by_key.items():
            seen = set()
            batch = []
            for hit in members:
                if hit.id in seen:
                    results.append(QueryResult(batch, id=gene))
                    batch, seen = [], set()
                seen.add(hit.id)
                batch.append(hit)
            if batch:
                results.append(QueryResult(batch, id=gene))
    return results


def _chunks(hsps, split):
    out, pos = [], 0
    for size in split:
        out.append(hsps[pos:pos + size])
        pos += size
    if pos < len(hsps):
        out.append(hsps[pos:])
    return [c for c in out if c]


def _canon(hits):
    """ 'ordered by position' leaves the order among equal starts open: compare with ties sorted """
    return sorted(hits, key=lambda h: (h[1], h))


def _canon_genes(out):
    return {gene: _canon(hits) for gene, hits in out.items()}


def _orders(n, perm_seed):
    """ index orders to run besides the identity """
    if n <= 1:
        return []
    if n <= MAX_ALL_PERMS:
        return [list(p) for p in itertools.permutations(range(n))][1:]
    rng = random.Random(perm_seed)
    orders = [list(reversed(range(n)))]
    for _ in range(RANDOM_PERMS):
        order = list(range(n))
        rng.shuffle(order)
        orders.append(order)
    return orders


# --------------------------------------------------------------------------------------------
# refine_hmmscan_results
# --------------------------------------------------------------------------------------------

def _call_refine(hsps, split, lengths, mode, real=False):
    chunks = _chunks(hsps, split)
    if real:
        query_results = _real_query_results(chunks)
    else:
        query_results = [StubQueryResult(StubHSP(p, g, query_start=s, query_end=e, evalue=ev, bitscore=sc)
                                         for g, p, s, e, sc, ev in chunk) for chunk in chunks]
    raw = refinement.refine_hmmscan_results(query_results, lengths, neighbour_mode=mode)
    return {gene: [Hit(r.hit_id, r.query_start, r.query_end, r.bitscore, r.evalue) for r in res]
            for gene, res in raw.items()}, raw


def _gene_shapes(ctx, hits, lengths):
    """ counts the boundary classes the property names; -> (nontrivial, start_tie) """
    hits = sorted(hits)
    start_tie = len({h.s for h in hits}) < len(hits)
    conflict = False
    for a, b in itertools.combinations(hits, 2):
        if a.s == b.s:
            ctx.count("shape:start-tie")
        if a.sc == b.sc:
            ctx.count("shape:score-tie")
        if R.contains(a, b) or R.contains(b, a):
            ctx.count("shape:nested")
        if a.p == b.p:
            ctx.count("shape:same-profile-fragments")
            span = max(a.e, b.e) - min(a.s, b.s)
            if abs(span - 1.5 * lengths[a.p]) <= 1:
                ctx.count("boundary:merge-span-at-limit")
        sh = R.shared(a, b)
        if sh > 0 and abs(sh - R.margin(a, b, lengths)) <= 1:
            ctx.count("boundary:overlap-at-margin")
        if R.conflict(a, b, lengths):
            conflict = True
    for a, b, c in itertools.combinations(hits, 3):
        if a.sc < b.sc < c.sc and R.conflict(a, b, lengths) and R.conflict(b, c, lengths) \
                and not R.conflict(a, c, lengths):
            ctx.count("shape:rising-chain")
    return conflict, start_tie


def check_refine_output(ctx, hsps, lengths, mode, out, case):
    """ clause oracles on one observed call; hsps: [[gene, profile, start, end, score, evalue]] """
    ctx.count("op:refine-neighbour" if mode else "op:refine-normal")
    by_gene = {}
    for g, p, s, e, sc, ev in hsps:
        by_gene.setdefault(g, set()).add(Hit(p, int(s), int(e), float(sc), float(ev)))
    nontrivial = False
    ties = {}
    for gene in sorted(set(out) - set(by_gene)):
        ctx.violate("output-genes-are-input-genes", {"fn": "refine", "gene": gene}, case)
    for gene, hits in sorted(by_gene.items()):
        conflict, ties[gene] = _gene_shapes(ctx, hits, lengths)
        nontrivial = nontrivial or conflict
        got = out.get(gene)
        if got is not None and not got:
            ctx.violate("no-empty-gene-entry", {"fn": "refine", "mode": "neighbour" if mode else "normal"}, case)
        for clause, facts in R.check_refined(hits, got or [], lengths, mode, count=ctx.count):
            facts["start_tie"] = ties[gene]
            facts["lengths"] = {p: lengths[p] for p in sorted({h.p for h in hits})}
            facts["gene_hits"] = [list(h) for h in sorted(hits)]
            ctx.violate(clause, facts, case)
    return nontrivial, ties


def run_refine_case(ctx, case, sample=True):
    hsps = [list(h) for h in case["hsps"]]
    lengths = case["lengths"]
    mode = bool(case["mode"])
    real = bool(case.get("real"))
    ok, res = ctx.guard("refine-crash", case, _call_refine, hsps, case["split"], lengths, mode, real)
    if not ok:
        ctx.case(("refine", mode, sorted(map(tuple, hsps))), nontrivial=True)
        return
    out, raw = res
    if real:
        ctx.count("op:refine-real-biopython-objects")
    if not all(type(r) is refinement.HMMResult for rs in raw.values() for r in rs):
        ctx.violate("output-type", {"fn": "refine"}, case)
    nontrivial, ties = check_refine_output(ctx, hsps, lengths, mode, out, case)
    ctx.case(("refine", mode, sorted(map(tuple, hsps))), nontrivial=nontrivial,
             sample=dict(case, output={g: [list(h) for h in hs] for g, hs in out.items()}) if sample else None)
    # permutation metamorphosis
    rng = random.Random(case["perm_seed"])
    for order in _orders(len(hsps), case["perm_seed"]):
        permuted = [hsps[i] for i in order]
        split = case["split"] if rng.random() < 0.5 else [rng.randrange(1, len(hsps) + 1)] * len(hsps)
        ctx.count("op:refine-permutation")
        ok, res = ctx.guard("refine-crash", dict(case, hsps=permuted, split=split), _call_refine, permuted, split,
                            lengths, mode, False)
        if not ok:
            return
        if res[0] != out:
            ctx.count("unspecified:order-among-equal-starts-follows-input")
        if _canon_genes(res[0]) != _canon_genes(out):
            differing = sorted(g for g in set(out) | set(res[0])
                               if _canon(out.get(g, [])) != _canon(res[0].get(g, [])))
            ctx.violate("permutation-invariant", {
                "fn": "refine", "mode": "neighbour" if mode else "normal", "n": len(hsps),
                "start_tie": any(ties.get(g) for g in differing),
                "first_order": hsps, "first_result": {g: [list(h) for h in out.get(g, [])] for g in differing},
                "other_order": permuted, "other_result": {g: [list(h) for h in res[0].get(g, [])] for g in differing},
            }, dict(case, other_order=order))
            return


# --------------------------------------------------------------------------------------------
# hmmer.remove_overlapping
# --------------------------------------------------------------------------------------------

def _hmmer_hit(ident, start, end, score):
    return hmmer_module.HmmerHit(location=f"[{start * 3}:{end * 3}](+)", label=ident, locus_tag="gene", domain=ident,
                                 evalue=G.evalue_of(score), score=score, identifier=ident, description="d",
                                 protein_start=start, protein_end=end, translation="A" * (end - start))


def _call_hmmer(hits, cutoffs, limit):
    objs = [_hmmer_hit(*h) for h in hits]
    before = list(objs)
    res = hmmer_module.remove_overlapping(objs, cutoffs, overlap_limit=limit)
    if objs != before:
        raise AssertionError("input list modified")
    return [HHit(r.identifier, r.protein_start, r.protein_end, r.score) for r in res]


def check_hmmer_output(ctx, hits, cutoffs, limit, out, case):
    ctx.count("op:hmmer")
    model = [HHit(i, s, e, float(sc)) for i, s, e, sc in hits]
    nontrivial = any(R.hmmer_conflict(a, b, limit) for a, b in itertools.combinations(sorted(set(model)), 2))
    for a, b in itertools.combinations(sorted(set(model)), 2):
        if R.hmmer_rank(a, cutoffs)[0] == R.hmmer_rank(b, cutoffs)[0]:
            ctx.count("shape:hmmer-normalised-score-tie")
        if a.s == b.s:
            ctx.count("shape:hmmer-start-tie")
        if R.shared(a, b) in (limit - 1, limit, limit + 1):
            ctx.count("boundary:hmmer-overlap-at-limit")
    for clause, facts in R.check_hmmer(model, out, cutoffs, limit, count=ctx.count):
        facts["hits"] = [list(h) for h in sorted(set(model))]
        facts["cutoffs"] = cutoffs
        ctx.violate(clause, facts, case)
    return nontrivial


def run_hmmer_case(ctx, case):
    hits, cutoffs, limit = case["hits"], case["cutoffs"], case["limit"]
    key = ("hmmer", limit, sorted(map(tuple, hits)), sorted(cutoffs.items()))
    ok, out = ctx.guard("hmmer-crash", case, _call_hmmer, hits, cutoffs, limit)
    if not ok:
        ctx.case(key, nontrivial=True)
        return
    nontrivial = check_hmmer_output(ctx, hits, cutoffs, limit, out, case)
    ctx.case(key, nontrivial=nontrivial, sample=dict(case, output=[list(h) for h in out]))
    identical_inputs = len({tuple(h) for h in hits}) < len(hits)
    for order in _orders(len(hits), case["perm_seed"]):
        permuted = [hits[i] for i in order]
        ctx.count("op:hmmer-permutation")
        ok, other = ctx.guard("hmmer-crash", dict(case, hits=permuted), _call_hmmer, permuted, cutoffs, limit)
        if not ok:
            return
        if other != out:
            ctx.count("unspecified:order-among-equal-starts-follows-input")
        if identical_inputs and _canon(set(other)) == _canon(set(out)):
            # how many copies of an identical input hit come back is not constrained
            if _canon(other) != _canon(out):
                ctx.count("unspecified:multiplicity-of-identical-input-hits")
            continue
        if _canon(other) != _canon(out):
            first = min(h[1] for h in hits)
            ctx.violate("permutation-invariant", {"fn": "hmmer.remove_overlapping", "n": len(hits), "limit": limit,
                                                  "same_set": set(other) == set(out),
                                                  "earliest_hit_shorter_than_limit": any(
                                                      h[1] == first and h[2] - h[1] < limit for h in hits),
                                                  "first_order": hits, "first_result": [list(h) for h in out],
                                                  "other_order": permuted, "other_result": [list(h) for h in other]},
                        dict(case, other_order=order))
            return


# --------------------------------------------------------------------------------------------
# filter_results / filter_result_multiple
# --------------------------------------------------------------------------------------------

def _build_filter_inputs(hits, independent_rng=None):
    """ the two structures find_hmmer_hits builds: flat list + per gene lists (same objects) """
    results = []
    by_id = {}
    for gene, profile, start, end, score in hits:
        hsp = StubHSP(gene, profile, hit_start=start, hit_end=end, bitscore=score, evalue=G.evalue_of(score))
        results.append(hsp)
        by_id.setdefault(gene, []).append(hsp)
    if independent_rng is not None:
        for members in by_id.values():
            independent_rng.shuffle(members)
    return results, by_id


def _model_lists(results, by_id):
    flat = [(h.hit_id, PHit(h.query_id, h.hit_start, h.hit_end, h.bitscore)) for h in results]
    per_gene = {gene: [PHit(h.query_id, h.hit_start, h.hit_end, h.bitscore) for h in members]
                for gene, members in by_id.items()}
    return flat, per_gene


def _call_filters(hits, groups, independent_seed=None):
    """ -> dict of model snapshots at the three stages of find_hmmer_hits + filter_result_multiple alone """
    rng = random.Random(independent_seed) if independent_seed is not None else None
    snap = {}
    results, by_id = _build_filter_inputs(hits, rng)
    snap["in"] = _model_lists(results, by_id)
    group_sets = [set(g) for g in groups]
    res1, by1 = cluster_prediction.filter_results(results, by_id, group_sets)
    snap["after_results"] = _model_lists(res1, by1)
    res2, by2 = cluster_prediction.filter_result_multiple(res1, by1)
    snap["after_multiple"] = _model_lists(res2, by2)
    # filter_result_multiple on the raw hits (more copies per profile than after the competition)
    results, by_id = _build_filter_inputs(hits, rng)
    res3, by3 = cluster_prediction.filter_result_multiple(results, by_id)
    snap["multiple_alone"] = _model_lists(res3, by3)
    return snap


def _as_sets(per_gene):
    return {gene: sorted(members) for gene, members in per_gene.items()}


def _chain_group_of_4(members) -> bool:
    """ an overlap group of >= 4 hits that is not a clique (two of its members do not overlap directly) """
    for comp in R.components(members):
        if len(comp) >= 4 and any(R.shared(a, b) <= R.COMPETE_OVERLAP for a, b in itertools.combinations(comp, 2)):
            return True
    return False


def _filter_tie_facts(per_gene_in):
    """ is there an exact tie for the best score of an overlap group / of a profile in a gene? """
    tie = False
    for members in per_gene_in.values():
        for comp in R.components(members):
            top = max(h.sc for h in comp)
            if sum(1 for h in comp if h.sc == top) > 1:
                tie = True
        for profile in {h.profile for h in members}:
            mine = [h.sc for h in members if h.profile == profile]
            if mine.count(max(mine)) > 1:
                tie = True
    return tie


def _crash_site(err) -> str:
    import traceback
    names = [f.name for f in traceback.extract_tb(err.__traceback__)]
    for name in ("filter_results", "filter_result_multiple"):
        if name in names:
            return name
    return "harness"


def run_filter_case(ctx, case):
    hits, groups = case["hits"], case["groups"]
    key = ("filter", sorted(map(tuple, hits)), groups)
    model_in = {}
    for gene, profile, start, end, score in hits:
        model_in.setdefault(gene, []).append(PHit(profile, start, end, score))
    structure = {"tie_for_best": _filter_tie_facts(model_in),
                 "chain_group_of_4": any(_chain_group_of_4(m) for m in model_in.values())}
    try:
        snap = _call_filters(hits, groups)
    except Exception as err:  # pylint: disable=broad-except
        ctx.count("op:filter_results")
        ctx.violate("filter-crash", dict(structure, fn=_crash_site(err), exception=type(err).__name__, groups=groups,
                                         hits=sorted(map(list, hits))), case)
        ctx.case(key, nontrivial=True)
        return
    flat_in, genes_in = snap["in"]
    flat1, genes1 = snap["after_results"]
    flat2, genes2 = snap["after_multiple"]
    flat3, genes3 = snap["multiple_alone"]
    ctx.count("op:filter_results")
    for clause, facts in R.check_filter_results(genes_in, genes1, flat_in, flat1, groups, count=ctx.count):
        facts["groups"] = groups
        ctx.violate(clause, facts, case)
    ctx.count("op:filter_result_multiple", 2)
    for before, after, flat in ((genes1, genes2, flat2), (genes_in, genes3, flat3)):
        for clause, facts in R.check_filter_multiple(before, after, flat, count=ctx.count):
            ctx.violate(clause, facts, case)
    nontrivial = any(len(comp) > 1 for members in genes_in.values() for comp in R.components(members)) \
        or any(len({h.profile for h in members}) < len(members) for members in genes_in.values())
    tie = structure["tie_for_best"]
    if structure["chain_group_of_4"]:
        ctx.count("shape:filter-chain-group-of-4")
    if tie:
        ctx.count("shape:filter-tie-for-best")
    ctx.case(key, nontrivial=nontrivial, sample=dict(case, survivors={g: [list(h) for h in hs]
                                                                      for g, hs in genes2.items()}))
    rng = random.Random(case["perm_seed"])
    for order in _orders(len(hits), case["perm_seed"]):
        permuted = [hits[i] for i in order]
        ctx.count("op:filter-permutation")
        independent = rng.randrange(1 << 30) if rng.random() < 0.5 else None
        try:
            other = _call_filters(permuted, groups, independent)
        except Exception as err:  # pylint: disable=broad-except
            ctx.violate("filter-crash", dict(structure, fn=_crash_site(err), exception=type(err).__name__,
                                             groups=groups, hits=sorted(map(list, hits))),
                        dict(case, hits=permuted, independent_seed=independent))
            return
        for stage, fn in (("after_results", "filter_results"), ("after_multiple", "filter_result_multiple"),
                          ("multiple_alone", "filter_result_multiple")):
            if _as_sets(other[stage][1]) != _as_sets(snap[stage][1]):
                stage_tie = tie
                if stage == "after_multiple":    # its input is what the competition left, in either order
                    stage_tie = tie or _filter_tie_facts(snap["after_results"][1]) \
                        or _filter_tie_facts(other["after_results"][1])
                ctx.violate("permutation-invariant", {
                    "fn": fn, "stage": stage, "tie_for_best": stage_tie, "groups": groups,
                    "chain_group_of_4": any(_chain_group_of_4(model_in[g]) for g in model_in
                                            if _as_sets(other[stage][1]).get(g) != _as_sets(snap[stage][1]).get(g)),
                    "first_order": hits, "first_result": _as_sets(snap[stage][1]),
                    "other_order": permuted, "other_result": _as_sets(other[stage][1])},
                    dict(case, other_order=order, independent_seed=independent))
                return


# --------------------------------------------------------------------------------------------
# the competition as the pipeline runs it: one Ruleset object, several records
# --------------------------------------------------------------------------------------------

SCORE_SHIFT = 1.4375        # bitscores are not whole numbers


def run_ruleset_history_case(ctx, case):
    """ the real detect_protoclusters_and_signatures (find_hmmer_hits -> filter_results -> filter_result_multiple) with
        the equivalence groups held by one Ruleset that is built as hmm_detection.get_ruleset builds it and then used
        for three records in a row; only run_hmmsearch is replaced (by the generated hits). The surviving hits of
        every record must be those of the direct call with the configured groups. """
    from antismash.common.hmm_rule_parser import rule_parser
    from antismash.common.hmm_rule_parser.cluster_prediction import Ruleset
    from antismash.common.hmm_rule_parser.structures import Multipliers
    from antismash.common.secmet.test.helpers import DummyCDS, DummyRecord
    from antismash.common.signature import HmmSignature
    hits, groups = case["hits"], case["groups"]
    profiles = sorted({h[1] for h in hits} | {p for g in groups for p in g})
    # every other profile has a cutoff that some of its hits do not reach: such hits are no hits at all (hmmsearch
    # runs without --cut_tc, the cutoff is applied as the hits are read) and must not take part in the competition
    cutoffs = {}
    for position, name in enumerate(profiles):
        scores = sorted(h[4] + SCORE_SHIFT for h in hits if h[1] == name)
        cutoffs[name] = scores[len(scores) // 2] if position % 2 and scores else 1
    signatures = {name: HmmSignature(name, name + " description", cutoffs[name], "dummy.hmm") for name in profiles}
    valid = [h for h in hits if h[4] + SCORE_SHIFT > cutoffs[h[1]]]
    if len(valid) < len(hits):
        ctx.count("class:hits-below-their-profile-cutoff")
    rule = rule_parser.DetectionRule("any", "cat", 5000, 5000, rule_parser.SingleCondition(False, profiles[0]))
    try:
        base = Ruleset((rule,), signatures, "dummy.hmm", {"cat"}, "verif", equivalence_groups=[set(g) for g in groups])
        ruleset = base.copy_with_replacements(rules=list(base.rules), multipliers=Multipliers())
    except Exception as err:  # pylint: disable=broad-except
        ctx.violate("ruleset-history-crash", {"exception": type(err).__name__, "message": str(err)[:160], "stage": "build"}, case)
        return
    expected = _as_sets(_call_filters(valid, groups)["after_multiple"][1]) if valid else {}
    genes = sorted({h[0] for h in hits})
    captured = {}
    real_find = cluster_prediction.find_hmmer_hits
    real_search = cluster_prediction.run_hmmsearch

    def fake_search(*_args, **_kwargs):
        per_profile = {}
        for gene, profile, start, end, score in hits:
            per_profile.setdefault(profile, []).append(
                StubHSP(gene, profile, query_start=start, query_end=end, hit_start=start, hit_end=end,
                        bitscore=score + SCORE_SHIFT, evalue=G.evalue_of(score)))
        return [SimpleNamespace(accession=profile, id=profile, hsps=hsps) for profile, hsps in per_profile.items()]

    def spying_find(*args, **kwargs):
        captured["hits"] = real_find(*args, **kwargs)
        return captured["hits"]
    cluster_prediction.run_hmmsearch = fake_search
    cluster_prediction.find_hmmer_hits = spying_find
    try:
        for index in range(3):
            record = DummyRecord(features=[DummyCDS(start=30 + 2000 * i, end=1530 + 2000 * i, locus_tag=gene)
                                           for i, gene in enumerate(genes)], seq="A" * (2000 * len(genes) + 100))
            record.id = f"rec{index}"
            captured.clear()
            try:
                cluster_prediction.detect_protoclusters_and_signatures(record, ruleset)
            except Exception as err:  # pylint: disable=broad-except
                ctx.violate("ruleset-history-crash", {"exception": type(err).__name__, "message": str(err)[:160],
                                                      "stage": "detect", "record_index": index}, case)
                return
            ctx.count("op:ruleset-history")
            # (the scores reach the results as hmmsearch gave them, fraction included)
            got = {gene: sorted(PHit(h.query_id, h.query_start, h.query_end, round(h.bitscore - SCORE_SHIFT, 6)) for h in members)
                   for gene, members in captured.get("hits", {}).items() if members}
            if got != {g: m for g, m in expected.items() if m}:
                ctx.violate("competition-same-for-every-record-of-a-run",
                            {"record_index": index, "groups": groups, "got": {g: [list(h) for h in m] for g, m in got.items()},
                             "expected": {g: [list(h) for h in m] for g, m in expected.items()}}, case)
                return
    finally:
        cluster_prediction.run_hmmsearch = real_search
        cluster_prediction.find_hmmer_hits = real_find
    ctx.case(("ruleset-history", sorted(map(tuple, hits)), groups), nontrivial=bool(groups) and len(hits) > 1)


# --------------------------------------------------------------------------------------------
# filter_nonterminal_docking_domains
# --------------------------------------------------------------------------------------------

def run_docking_case(ctx, case):
    from antismash.common.secmet.test.helpers import DummyCDS, DummyRecord
    genes = case["genes"]
    features = []
    pos = 0
    for name, info in sorted(genes.items()):
        features.append(DummyCDS(start=pos, end=pos + 3 * info["length"], locus_tag=name,
                                 translation="A" * info["length"]))
        pos += 3 * info["length"] + 10
    record = DummyRecord(features=features, seq="A" * (pos + 10))
    domains = {name: [refinement.HMMResult(p, s, e, 1e-10, 50.0) for p, s, e in info["domains"]]
               for name, info in genes.items()}
    snapshot = {name: list(v) for name, v in domains.items()}
    ok, out = ctx.guard("docking-crash", case, domain_identification.filter_nonterminal_docking_domains,
                        record, domains)
    ctx.count("op:docking")
    nontrivial = False
    if not ok:
        ctx.case(("docking", genes), nontrivial=True)
        return
    if {n: list(v) for n, v in domains.items()} != snapshot:
        ctx.violate("docking-input-untouched", {"fn": "docking"}, case)
    for name, info in genes.items():
        model_in = [Hit(p, s, e, 50.0, 1e-10) for p, s, e in info["domains"]]
        expected = R.expected_docking(model_in, info["length"])
        got = [Hit(r.hit_id, r.query_start, r.query_end, 50.0, 1e-10) for r in out.get(name, [])]
        for h in model_in:
            if h.p in R.DOCKING:
                nontrivial = True
                edge = min(h.s, info["length"] - h.e)
                ctx.count("docking:terminal" if h in expected else "docking:internal")
                if edge in (49, 50):
                    ctx.count("boundary:docking-49/50")
        if got != expected or (name in out and not out[name]):
            ctx.violate("docking-only-nonterminal-removed", {"fn": "docking", "length": info["length"],
                                                             "domains": info["domains"], "got": [list(h[:3]) for h in got],
                                                             "expected": [list(h[:3]) for h in expected]}, case)
    ctx.case(("docking", genes), nontrivial=nontrivial, sample=case)


# --------------------------------------------------------------------------------------------
# monitors on the real binding sites (for pipeline workloads of other checks)
# --------------------------------------------------------------------------------------------

def install_monitors(ctx) -> None:
    """ clause oracles (not the permutation part) on every call of the observed functions """
    def post_refine(args, kwargs, result):
        query_results, lengths = args[0], args[1]
        mode = kwargs.get("neighbour_mode", args[2] if len(args) > 2 else False)
        hsps = [[h.query_id, h.hit_id, int(h.query_start), int(h.query_end), float(h.bitscore), float(h.evalue)]
                for qr in query_results for h in qr.hsps]
        out = {gene: [Hit(r.hit_id, r.query_start, r.query_end, r.bitscore, r.evalue) for r in res]
               for gene, res in result.items()}
        case = {"fn": "refine", "mode": bool(mode), "lengths": {h[1]: lengths[h[1]] for h in hsps}, "hsps": hsps,
                "split": [len(hsps)], "perm_seed": 0, "observed": True}
        check_refine_output(ctx, hsps, lengths, bool(mode), out, case)
    instrument.monitor_function(refinement, "refine_hmmscan_results", post_refine, ctx)

    def post_hmmer(args, kwargs, result):
        limit = kwargs.get("overlap_limit", args[2] if len(args) > 2 else 10)
        hits = [[h.identifier, h.protein_start, h.protein_end, h.score] for h in args[0]]
        cutoffs = {h[0]: args[1][h[0]] for h in hits}
        out = [HHit(r.identifier, r.protein_start, r.protein_end, r.score) for r in result]
        check_hmmer_output(ctx, hits, cutoffs, limit, out, {"fn": "hmmer", "hits": hits, "cutoffs": cutoffs,
                                                            "limit": limit, "perm_seed": 0, "observed": True})
    instrument.monitor_function(hmmer_module, "remove_overlapping", post_hmmer, ctx)

    # the per-gene competition mutates its arguments: snapshot before the call
    def wrap_filter(name, checker):
        original = getattr(cluster_prediction, name)

        @functools.wraps(original)
        def wrapper(results, results_by_id, *rest):
            before = _model_lists(results, results_by_id)
            out = original(results, results_by_id, *rest)
            try:
                checker(before, _model_lists(*out), rest)
            except Exception as err:  # pylint: disable=broad-except
                ctx.count("monitor-error:" + type(err).__name__)
                ctx.violate("monitor-cannot-read-the-competition-result",
                            {"fn": name, "exception": type(err).__name__, "message": str(err)[:200]}, None)
            return out
        ctx.counters[f"sites:{name}"] = instrument.rebind(original, wrapper)

    def check_results(before, after, rest):
        ctx.count("op:filter_results")
        groups = [sorted(g) for g in rest[0]]
        for clause, facts in R.check_filter_results(before[1], after[1], before[0], after[0], groups, count=ctx.count):
            ctx.violate(clause, facts, {"fn": "filter", "observed": True, "groups": groups,
                                        "hits": [[g, *h] for g, h in before[0]]})

    def check_multiple(before, after, rest):
        ctx.count("op:filter_result_multiple")
        for clause, facts in R.check_filter_multiple(before[1], after[1], after[0], count=ctx.count):
            ctx.violate(clause, facts, {"fn": "filter", "observed": True, "groups": [],
                                        "hits": [[g, *h] for g, h in before[0]]})
    wrap_filter("filter_results", check_results)
    wrap_filter("filter_result_multiple", check_multiple)


# --------------------------------------------------------------------------------------------
# workload
# --------------------------------------------------------------------------------------------

def exhaustive_refine(ctx, max_hits):
    """ every set of <= max_hits hits on the 6-point grid, both modes, all orders """
    if max_hits <= 2:
        universe = G.exhaustive_refine_universe([("A20", 20), ("B50", 50), ("C100", 100)], [10.0, 20.0])
    else:
        universe = G.exhaustive_refine_universe([("A20", 20), ("B50", 50), ("C100", 100)], [10.0, 20.0, 30.0])
    lengths = {"A20": 20, "B50": 50, "C100": 100}
    index = 0
    done = 0
    for size in range(1, max_hits + 1):
        for combo in itertools.combinations(universe, size):
            index += 1
            if index % ctx.nworkers != ctx.worker:
                continue
            if done % 64 == 0 and ctx.time_left() <= 0:
                ctx.budget_hit = True
                ctx.exhaustive = False
                ctx.counters["exhaustive_stopped_at"] = index
                return
            done += 1
            for mode in (False, True):
                case = {"fn": "refine", "mode": mode, "lengths": lengths, "hsps": [list(h) for h in combo],
                        "split": [size], "perm_seed": 0, "real": False}
                ctx.guard("harness-or-crash", case, run_refine_case, ctx, case, False)
    ctx.count("exhaustive:sets", done)
    ctx.exhaustive = True
    ctx.extra["exhaustive_part"] = (f"all sets of <= {max_hits} hits out of {len(universe)} grid hits, both modes, "
                                    f"all orders (share {ctx.worker + 1}/{ctx.nworkers})")


def _history_case(rng):
    case = G.filter_case(rng)
    case["fn"] = "ruleset-history"
    return case


RUNNERS = {"refine": run_refine_case, "hmmer": run_hmmer_case, "filter": run_filter_case, "docking": run_docking_case,
           "ruleset-history": run_ruleset_history_case}


def run(ctx):
    # random part first (so that every function is observed even if the sweep eats the budget), reserving
    # a share of the time budget for the exhaustive sweep
    plan = [("refine", G.refine_case, ctx.quota(8000, 1000000)),
            ("hmmer", G.hmmer_case, ctx.quota(2500, 250000)),
            ("filter", G.filter_case, ctx.quota(2500, 250000)),
            ("docking", G.docking_case, ctx.quota(400, 20000)),
            ("ruleset-history", _history_case, ctx.quota(150, 20000))]
    reserve = 0.25 * ctx.budget_s
    shares = {"refine": 0.42, "hmmer": 0.14, "filter": 0.11, "docking": 0.03, "ruleset-history": 0.05}
    restart_rng = ctx.rng("restart-then-merge")
    for name, gen, count in plan:
        rng = ctx.rng(name)
        stop_at = ctx.time_left() - shares[name] * ctx.budget_s
        for i in ctx.cases(count):
            if i % 16 == 0 and ctx.time_left() < max(stop_at, reserve):
                ctx.counters[f"time_share_stop:{name}"] = i
                break
            if name == "refine" and i % 20 == 19:
                case = G.restart_then_merge_case(restart_rng)
                ctx.count("shape:restart-then-merge")
            else:
                case = gen(rng)
            ctx.guard("harness-or-crash", case, RUNNERS[name], ctx, case)
    exhaustive_refine(ctx, 2 if ctx.tier == "quick" else 3)


def replay(ctx, case):
    if isinstance(case, dict) and case.get("fn") in RUNNERS:
        RUNNERS[case["fn"]](ctx, case)
    else:
        print("unknown case format:", case)
