"""C08 Genes belong to exactly the areas that contain them, whatever the build order.

(1) Lookup oracle: Record.get_cds_features_within_location(query, with_overlapping) against a brute
    force over get_cds_features() on the set-of-bases model; installed as a method monitor so it also
    observes every lookup made inside add_protocluster/add_region/... and inside pipeline workloads.
(2) Membership oracle on finished records: cds_children of every area, cds.region, definition_cdses,
    the pre/cross/post-origin sections; and equality of all of that between three build orders of the
    same add_* calls.
"""
from __future__ import annotations

import itertools

from antismash.common.secmet import record as record_module
from antismash.common.secmet.locations import FeatureLocation
from antismash.common.secmet.qualifiers.gene_functions import GeneFunction

from vf import instrument
from vf.gen import layout as W
from vf.gen import locs as G
from vf.models import ring

PROPERTY = "C08"
LEVEL = "exploration"
PARALLEL = True
RULE = ("lookup: exhaustive layouts of 2-3 distinct gene locations (simple and origin-spanning, strand random) on "
        "rings/lines of length 5 (quick) / 6-8 (thorough) x every simple and origin-spanning query x both modes; "
        "random dense layouts of 1-10 genes (nested, identical start, overlapping, multi-exon, origin-spanning) "
        "with 10 queries each. membership: random worlds of genes + 1-4 protoclusters + 0-2 subregions, "
        "candidate clusters and regions created by the real code, built in three orders. Non-trivial: a gene "
        "overlaps another gene or a query/area boundary, or spans the origin; distinct by (layout, query).")
ASSUMPTIONS = [
    "Genes are well-formed locations; DummyCDS bypasses translation checks (layout only).",
    "Order requirement: one-part queries return genes in the record's own sorted order; two-part queries "
    "must not contain duplicates.",
    "Worlds whose candidate-cluster/region creation raises are skipped here and counted (C05/C06 decide them).",
]
REQUIRED = ["op:lookup", "op:lookup_overlapping", "op:lookup_bridging_query", "op:membership_area",
            "op:membership_region_link", "op:definition_cdses", "op:build_order_compare",
            "monitor:Record.get_cds_features_within_location",
            "class:origin-spanning-gene-inside-one-part-query-not-at-0", "class:layout-scaled-to-megabase-record",
            "op:lookup_window_before_record_start"]


def _names(features):
    return [f.get_name() for f in features]


def oracle_lookup(ctx, record, query, with_overlapping, result, case=None):
    ctx.count("op:lookup")
    if with_overlapping:
        ctx.count("op:lookup_overlapping")
    if len(query.parts) > 1:
        ctx.count("op:lookup_bridging_query")
    if any(int(part.end) <= int(part.start) for part in query.parts):
        # a stretch without any base is no area: nothing is stated about what lies "inside" it (the pipeline only asks
        # this for the empty piece of the extent recorded as C03-K2)
        ctx.count("skipped:query-with-a-part-without-bases")
        return
    if query.start < 0:
        # a window reaching before the start of the record (a stretch extended by some bases near the record start):
        # nothing exists there, the window counts from the first base
        ctx.count("op:lookup_window_before_record_start")
        if len(query.parts) > 1:
            ctx.count("skipped:negative-compound-query")
            return
        query = FeatureLocation(0, max(1, int(query.end)), query.strand)
    everything = record.get_cds_features()
    if with_overlapping:
        expected = [c for c in everything if ring.overlap(query, c.location)]
    else:
        expected = [c for c in everything if ring.contains(query, c.location)]
    got = _names(result)
    exp = _names(expected)
    if len(query.parts) == 1 and query.start > 0 and not with_overlapping \
            and any(ring.is_bridging(c.location) for c in expected):
        ctx.count("class:origin-spanning-gene-inside-one-part-query-not-at-0")
    if case is None:
        case = {"L": len(record), "circular": record.is_circular(),
                "genes": [G.to_case(c.location) for c in everything], "query": G.to_case(query),
                "with_overlapping": with_overlapping}
    if set(got) != set(exp) or len(got) != len(set(got)):
        by_name = {c.get_name(): c for c in everything}
        missing = sorted(set(exp) - set(got))
        extra = sorted(set(got) - set(exp))
        facts = {
            "with_overlapping": bool(with_overlapping), "query": str(query), "query_parts": len(query.parts),
            "genes": [str(c.location) for c in everything],
            "missing": [str(by_name[m].location) for m in missing], "extra": [str(by_name[m].location) for m in extra],
            "duplicates": len(got) != len(set(got)),
            "missing_bridging": any(ring.is_bridging(by_name[m].location) for m in missing),
            "any_gene_bridging": any(ring.is_bridging(c.location) for c in everything),
            "circular": record.is_circular(),
        }
        ctx.violate("lookup-exact-set", facts, case)
        return
    # location order: genes that do not span the origin in the record's own order; origin-spanning
    # genes lie at one end of a one-part query (which end is a matter of viewpoint on a ring)
    plain = {c.get_name() for c in everything if not ring.is_bridging(c.location)}
    if len(query.parts) == 1 and [n for n in got if n in plain] != [n for n in exp if n in plain]:
        ctx.violate("lookup-order", {"query": str(query), "got": got, "expected": exp,
                                     "genes": [str(c.location) for c in everything]}, case)


def install_lookup_monitor(ctx):
    def post(self, args, kwargs, result):
        query = args[0] if args else kwargs["location"]
        with_overlapping = kwargs.get("with_overlapping", args[1] if len(args) > 1 else False)
        oracle_lookup(ctx, self, query, with_overlapping, result)
    instrument.monitor_method(record_module.Record, "get_cds_features_within_location", post, ctx)


# -- membership ---------------------------------------------------------------

def area_key(area) -> str:
    kind = type(area).__name__
    extra = getattr(area, "product", "") or getattr(area, "label", "") or ""
    if hasattr(area, "kind"):
        extra = str(area.kind)
    return f"{kind}:{area.location}:{extra}"


def membership_dump(ctx, record, case) -> dict:
    """ checks the membership clauses and returns a canonical dump for build-order comparison """
    genes = record.get_cds_features()
    dump = {"areas": {}, "region_of": {}, "definition": {}}
    collections = list(record.get_protoclusters()) + list(record.get_candidate_clusters()) \
        + list(record.get_subregions()) + list(record.get_regions())
    for area in collections:
        ctx.count("op:membership_area")
        expected = sorted(g.get_name() for g in genes if ring.contains(area.location, g.location))
        children = area.cds_children
        got = sorted(_names(children))
        key = area_key(area)
        dump["areas"].setdefault(key, []).append(got)
        if got != expected:
            ctx.violate("area-lists-contained-genes",
                        {"area": key, "missing": sorted(set(expected) - set(got)), "extra": sorted(set(got) - set(expected)),
                         "area_bridging": len(area.location.parts) > 1, "circular": record.is_circular()}, case)
        sections = list(children.pre_origin) + list(children.cross_origin) + list(children.post_origin)
        if len(area.location.parts) == 1:
            # the sections only have a meaning for areas that cross the origin
            ctx.count("unspecified:sections-of-non-crossing-area")
        elif sorted(_names(sections)) != got:
            ctx.violate("area-sections-partition-children", {"area": key, "sections": _names(sections), "children": got}, case)
        else:
            for g in children.cross_origin:
                if not ring.is_bridging(g.location):
                    ctx.violate("area-section-cross-origin", {"area": key, "gene": str(g.location)}, case)
            if len(area.location.parts) > 1:
                pre, post = ring.parts_of(area.location)
                def straddles_the_gap(gene):
                    # exons on both sides of the stretch the area leaves out, without crossing the origin: the gene is
                    # contained part by part, but no section is 'the' right one for it (nothing states which)
                    parts = ring.parts_of(gene.location)
                    return (not ring.is_bridging(gene.location) and any(ring.covers([pre], [p]) for p in parts)
                            and any(ring.covers([post], [p]) for p in parts))
                for g in children.pre_origin:
                    if straddles_the_gap(g):
                        ctx.count("unspecified:section-of-gene-with-exons-on-both-sides-of-the-gap")
                    elif not ring.covers([pre], ring.parts_of(g.location)):
                        ctx.violate("area-section-pre-origin", {"area": key, "gene": str(g.location)}, case)
                for g in children.post_origin:
                    if straddles_the_gap(g):
                        ctx.count("unspecified:section-of-gene-with-exons-on-both-sides-of-the-gap")
                    elif not ring.covers([post], ring.parts_of(g.location)):
                        ctx.violate("area-section-post-origin", {"area": key, "gene": str(g.location)}, case)
    regions = record.get_regions()
    for g in genes:
        ctx.count("op:membership_region_link")
        containing = [r for r in regions if ring.contains(r.location, g.location)]
        linked = g.region
        dump["region_of"][g.get_name()] = str(linked.location) if linked is not None else None
        if len(containing) > 1:
            ctx.count("unspecified:gene-in-two-regions")
            continue
        exp = containing[0] if containing else None
        if linked is not exp:
            ctx.violate("gene-points-to-its-region",
                        {"gene": str(g.location), "linked": str(linked.location) if linked is not None else None,
                         "expected": str(exp.location) if exp is not None else None,
                         "stale": linked is not None and linked not in regions}, case)
    for proto in record.get_protoclusters():
        ctx.count("op:definition_cdses")
        expected = sorted(g.get_name() for g in genes if ring.contains(proto.core_location, g.location)
                          and any(core.product == proto.product
                                  for core in g.gene_functions.get_by_function(GeneFunction.CORE)))
        got = sorted(_names(proto.definition_cdses))
        dump["definition"].setdefault(area_key(proto), []).append(got)
        if got != expected:
            ctx.violate("definition-genes-are-core-genes-of-product",
                        {"protocluster": area_key(proto), "core": str(proto.core_location), "got": got, "expected": expected}, case)
    for value in list(dump["areas"].values()) + list(dump["definition"].values()):
        value.sort()
    return dump


def build_world(case, order: str, rng):
    """ executes the add_* calls of the case in the given order on a fresh record """
    record = W.make_record(case["L"], case["circular"])
    genes = [W.make_cds(g["name"], g["loc"], g.get("core", ())) for g in case["genes"]]
    protos = [lambda p=p: W.make_protocluster(p["core"], p["extent"], p["product"], p.get("cutoff", 10),
                                              p.get("neighbourhood", 10)) for p in case["protoclusters"]]
    subs = [lambda s=s: W.make_subregion(s["extent"], s["label"]) for s in case["subregions"]]
    if order == "genes-first":
        for g in genes:
            record.add_cds_feature(g)
        for p in protos:
            record.add_protocluster(p())
        for s in subs:
            record.add_subregion(s())
        record.create_candidate_clusters()
        record.create_regions()
    elif order == "areas-first":
        for p in protos:
            record.add_protocluster(p())
        for s in subs:
            record.add_subregion(s())
        record.create_candidate_clusters()
        record.create_regions()
        for g in reversed(genes):
            record.add_cds_feature(g)
    elif order == "cleared-regions":
        # regions are created and cleared again (not re-created) before the genes arrive: the remaining areas must
        # still pick their genes up
        for p in protos:
            record.add_protocluster(p())
        for s in subs:
            record.add_subregion(s())
        record.create_candidate_clusters()
        record.create_regions()
        record.clear_regions()
        for g in genes:
            record.add_cds_feature(g)
        if rng.random() < 0.5:
            record.create_regions()
    elif order == "second-run":
        # the record went through an earlier run in which other genes carried the core annotations; it is stripped
        # (as antiSMASH does with an input that holds its annotations) and annotated again as the case says
        marks = [g.get("core", ()) for g in case["genes"]]
        earlier = [W.make_cds(g["name"], g["loc"], marks[(i + 1) % len(marks)]) for i, g in enumerate(case["genes"])]
        for g in earlier:
            record.add_cds_feature(g)
        for p in protos:
            record.add_protocluster(p())
        for s in subs:
            record.add_subregion(s())
        # ... and one more area that the second run does not find again (it holds every gene of the record)
        record.add_subregion(W.make_subregion([(0, case["L"])], "earlier-only"))
        record.create_candidate_clusters()
        record.create_regions()
        record.strip_antismash_annotations()
        for g, products in zip(earlier, marks):
            for product in products:
                g.gene_functions.add(GeneFunction.CORE, "verif", "core gene", product)
        for p in protos:
            record.add_protocluster(p())
        for s in subs:
            record.add_subregion(s())
        record.create_candidate_clusters()
        record.create_regions()
    elif order == "late-areas":
        # regions exist already when further areas arrive (without re-creating regions), genes come last or in between
        pending = list(genes)
        rng.shuffle(pending)
        areas = [("p", p) for p in protos] + [("s", s) for s in subs]
        rng.shuffle(areas)
        cut = rng.randrange(0, len(areas) + 1)
        for kind, make in areas[:cut]:
            (record.add_protocluster if kind == "p" else record.add_subregion)(make())
        record.create_candidate_clusters()
        record.create_regions()
        for _ in range(rng.randrange(0, 3)):
            if pending:
                record.add_cds_feature(pending.pop())
        for kind, make in areas[cut:]:
            (record.add_protocluster if kind == "p" else record.add_subregion)(make())
            if pending and rng.random() < 0.3:
                record.add_cds_feature(pending.pop())
        while pending:
            record.add_cds_feature(pending.pop())
    else:
        pending = list(genes)
        rng.shuffle(pending)

        def some_genes():
            for _ in range(rng.randrange(0, 3)):
                if pending:
                    record.add_cds_feature(pending.pop())
        areas = [("p", p) for p in protos] + [("s", s) for s in subs]
        rng.shuffle(areas)
        for kind, make in areas:
            some_genes()
            if kind == "p":
                record.add_protocluster(make())
            else:
                record.add_subregion(make())
        some_genes()
        record.create_candidate_clusters()
        some_genes()
        record.create_regions()
        while pending:
            record.add_cds_feature(pending.pop())
    return record


def gen_world(rng):
    length = rng.choice([40, 60, 90, 120])
    circular = rng.random() < 0.6
    products = ["alpha", "beta", "alpha-like"]      # one name contains another (NRPS / NRPS-like among the shipped rules)
    gene_locs = W.rand_gene_layout(rng, length, circular, rng.randrange(2, 11), max_gene=max(4, length // 6),
                                   dense=rng.random() < 0.6)
    genes = []
    for i, loc in enumerate(gene_locs):
        core = [p for p in products if rng.random() < 0.3]
        genes.append({"name": f"g{i}", "loc": loc, "core": core})
    protoclusters = []
    for _ in range(rng.randrange(1, 5)):
        anchor = rng.choice(genes)["loc"]["parts"]
        start = anchor[0][0]
        core_len = rng.randrange(1, max(2, length // 3))
        if not circular:
            core_len = min(core_len, length - start)
        core = ring.arc_to_intervals(start, core_len, length) if circular else [(start, start + core_len)]
        nb = rng.choice([0, 1, 3, length // 8, length // 4])
        first, last = core[0], core[-1]
        extent = ring.normalise(list(core) + ring.extend_intervals(first, last, nb, length, circular))
        if circular and len(extent) == 2 and not (extent[0][0] == 0 and extent[1][1] == length):
            continue  # cannot be expressed as one span
        if len(extent) == 2:
            extent = [extent[1], extent[0]]
        if len(extent) > 2:
            continue
        if circular and extent == [(0, length)] and len(core) > 1:
            continue  # a bridging core needs a bridging extent
        protoclusters.append({"core": [list(c) for c in core], "extent": [list(e) for e in extent],
                              "product": rng.choice(products), "neighbourhood": nb, "cutoff": rng.choice([1, 5, 20])})
    subregions = []
    for i in range(rng.randrange(0, 3)):
        start = rng.randrange(0, length - 1)
        arc_len = rng.randrange(2, max(3, length // 3))
        if not circular:
            arc_len = min(arc_len, length - start)
        ext = ring.arc_to_intervals(start, arc_len, length) if circular else [(start, start + arc_len)]
        subregions.append({"extent": [list(e) for e in ext], "label": f"sub{i}"})
    return {"L": length, "circular": circular, "genes": genes, "protoclusters": protoclusters, "subregions": subregions}


def run_world(ctx, case, index=0):
    dumps = {}
    for order in ("genes-first", "areas-first", "interleaved", "late-areas", "cleared-regions", "second-run"):
        try:
            record = build_world(case, order, ctx.rng("order", index))
        except ValueError as err:
            # the layout is refused while areas are formed (C05/C06's subject); anything else reaches the guard
            ctx.count(f"skipped:world-build-raised:{type(err).__name__}")
            return
        dumps[order] = membership_dump(ctx, record, dict(case, order=order))
    ctx.count("op:build_order_compare")
    # which candidate clusters (and hence regions) get formed legitimately depends on the genes present
    # at formation time (hybrids need defining genes), so candidates are compared only when the same
    # candidates exist, regions only when the same regions exist
    def comparable(dump, other):
        out = {"definition": dump["definition"]}
        out["areas"] = {k: v for k, v in dump["areas"].items()
                        if k.startswith(("Protocluster:", "SubRegion:")) or
                        (k in other["areas"] and len(other["areas"][k]) == len(v))}
        same_regions = sorted(k for k in dump["areas"] if k.startswith("Region:")) == \
            sorted(k for k in other["areas"] if k.startswith("Region:"))
        out["region_of"] = dump["region_of"] if same_regions else None
        return out
    base = dumps["genes-first"]
    for order, dump in dumps.items():
        mine, theirs = comparable(dump, base), comparable(base, dump)
        if mine != theirs:
            diff = [k for k in mine if mine[k] != theirs[k]]
            ctx.violate("membership-independent-of-build-order", {"order": order, "differs_in": diff}, case)
        elif mine["region_of"] is not None:
            ctx.count("build-order:regions-comparable")
    n_areas = len(case["protoclusters"]) + len(case["subregions"])
    ctx.case(("world", case), nontrivial=n_areas >= 1 and len(case["genes"]) >= 2,
             sample={"kind": "membership-world", **case})


def run_lookup_layout(ctx, length, circular, gene_cases, queries, sample=False):
    record = W.make_record(length, circular)
    for i, loc in enumerate(gene_cases):
        record.add_cds_feature(W.make_cds(f"g{i}", loc))
    touching = any(ring.is_bridging(G.from_case(g)) for g in gene_cases) or len(gene_cases) > 1
    for query in queries:
        for with_overlapping in (False, True):
            case = {"L": length, "circular": circular, "genes": gene_cases, "query": G.to_case(query),
                    "with_overlapping": with_overlapping}
            ctx.case(("lookup", length, circular, [str(G.from_case(g)) for g in gene_cases], str(query), with_overlapping),
                     nontrivial=touching, sample=case if sample else None)
            # the method monitor evaluates oracle_lookup on this and on every nested call
            ctx.guard("lookup-crash", case, record.get_cds_features_within_location, query, with_overlapping=with_overlapping)


def exhaustive_lookup(ctx, lengths, rng):
    for length in lengths:
        simple = list(G.all_simple(length))
        bridging = list(G.all_bridging(length))
        every = simple + bridging
        queries_ring = [G.mk(p, 1) for p in every]
        queries_line = [G.mk(p, 1) for p in simple]
        layouts = list(itertools.combinations(range(len(every)), 2)) + list(itertools.combinations(range(len(every)), 3))
        # split over workers
        for n, combo in enumerate(layouts):
            if n % ctx.nworkers != ctx.worker:
                continue
            if n % 64 == 0 and ctx.time_left() <= 0:
                ctx.budget_hit = True
                ctx.exhaustive = False
                return
            genes = [G.to_case(G.mk(every[i], rng.choice([1, -1]))) for i in combo]
            run_lookup_layout(ctx, length, True, genes, queries_ring)
            if all(len(every[i]) == 1 for i in combo):
                run_lookup_layout(ctx, length, False, genes, queries_line)
    if ctx.exhaustive is None:
        ctx.exhaustive = True


SCALE = 20000


def ring_parts(query):
    # the parts of a forward strand query in forward-travel order, as G.mk takes them
    return list(query.parts)


def random_lookup(ctx, count):
    rng = ctx.rng("lookup")
    extra = ctx.rng("lookup-extra")
    for i in ctx.cases(count):
        length = rng.choice([30, 40, 60])
        circular = rng.random() < 0.5
        genes = W.rand_gene_layout(rng, length, circular, rng.randrange(1, 11), max_gene=20, dense=True, max_exons=3)
        queries = []
        for _ in range(10):
            if circular and rng.random() < 0.3:
                s = rng.randrange(length // 2, length)
                e = rng.randrange(1, length // 2)
                queries.append(G.mk([(s, length), (0, e)], 1))
            else:
                s = rng.randrange(0, length)
                queries.append(FeatureLocation(s, rng.randrange(s + 1, length + 1), 1))
        if circular and extra.random() < 0.4:
            # a gene whose intron holds the origin, neither exon touching it (as a reverse strand gene with its exons
            # listed in ascending order reads on a circular record)
            b1 = extra.randrange(1, 6)
            b2 = b1 + extra.randrange(1, 8)
            a2 = length - extra.randrange(1, 6)
            a1 = a2 - extra.randrange(1, 8)
            gene = G.to_case(G.mk([(a1, a2), (b1, b2)], extra.choice([1, -1])))
            if gene not in genes:
                genes.append(gene)
        if extra.random() < 0.5:
            queries.append(FeatureLocation(-extra.randrange(1, 12), extra.randrange(1, length + 1), 1))
        # one-part queries just around the exons of a gene whose intron holds the origin: the gene lies inside a
        # location that neither starts at 0 nor crosses the origin
        for gene in genes:
            parts = gene["parts"]
            if len(parts) > 1 and parts[0][0] > parts[-1][0] and extra.random() < 0.7:
                lo, hi = min(p[0] for p in parts), max(p[1] for p in parts)
                queries.append(FeatureLocation(max(0, lo - extra.randrange(0, 3)), min(length, hi + extra.randrange(0, 3)), 1))
        if extra.random() < 0.1:
            # the same layout on a record of 0.6-1.2 Mb: genes (with their introns) of several hundred kb
            ctx.count("class:layout-scaled-to-megabase-record")
            length *= SCALE
            genes = [{"parts": [[a * SCALE, b * SCALE] for a, b in g["parts"]], "strand": g["strand"]} for g in genes]
            queries = [G.mk([(part.start * SCALE, part.end * SCALE) for part in ring_parts(q)], 1) for q in queries]
        run_lookup_layout(ctx, length, circular, genes, queries, sample=i < 2)


def run(ctx):
    install_lookup_monitor(ctx)
    try:
        with ctx.phase(0.4):
            exhaustive_lookup(ctx, [5] if ctx.tier == "quick" else [6, 7, 8], ctx.rng("exh"))
        with ctx.phase(0.25):
            random_lookup(ctx, ctx.quota(700, 150000))
        rng = ctx.rng("worlds")
        for i in ctx.cases(ctx.quota(500, 100000)):
            case = gen_world(rng)
            ctx.guard("harness-or-crash", case, run_world, ctx, case, i)
    finally:
        instrument.uninstall_all()


def replay(ctx, case):
    install_lookup_monitor(ctx)
    try:
        if "query" in case:
            run_lookup_layout(ctx, case["L"], case["circular"], case["genes"], [G.from_case(case["query"])])
        else:
            case.pop("order", None)
            run_world(ctx, case)
    finally:
        instrument.uninstall_all()
