"""C16 Sanitised record identifiers are unique, short and filesystem-safe; gene names unique per record.

What is executed: the real sanitisation code of antismash.common.record_processing
(generate_unique_id, fix_record_name_id, pre_process_sequences incl. the real Config from
build_config, sanitise_sequence, ensure_cds_info with a stub gene finder or records that already
carry CDS features, parallel_function in-process and through a real multiprocessing.Pool, and
parse_input_sequence on generated FASTA files) and the real gene naming code
(CDSFeature/_sanitise_id_value, Record.add_cds_feature, Record.from_biopython).

What is observed: the list of records that comes out (id, name, original_id per position), the
history of every assignment to Record.id (monitor on Record.__setattr__, used only to derive
structural facts for classification) and the CDS names of each record.

Oracle: direct predicates on the resulting list (see RULE / clauses below). A clean rejection
(AntismashInputError, generate_unique_id's RuntimeError, SecmetInvalidInputError/ValueError for
genes) is counted, not a violation; any other exception is a recorded deviation.
"""
from __future__ import annotations

import itertools
import logging
import os
import re
import shutil
import tempfile
import types
import zlib

from Bio.Seq import Seq
from Bio.SeqFeature import SeqFeature
from Bio.SeqRecord import SeqRecord

from antismash.common import record_processing as rp
from antismash.common.errors import AntismashInputError
from antismash.common.secmet.errors import SecmetInvalidInputError
from antismash.common.secmet.features import CDSFeature, Gene
from antismash.common.secmet.locations import FeatureLocation
from antismash.common.secmet.record import Record
from antismash.config import build_config
from antismash.support import genefinding

from vf import findings, instrument

PROPERTY = "C16"
LEVEL = "exploration"
PARALLEL = True
RULE = ("record ids: (a) exhaustive ordered pairs and triples over a 14-id dictionary built to collide (exact "
        "duplicates, ids differing only in forbidden characters or beyond the 16th character, ids equal to another "
        "record's shortened / de-duplicated / fallback form, versioned accessions, contig/scaffold numbers incl. "
        ">= 100000), (b) a sweep with every forbidden character alone, next to its stripped twin and inside a long id, "
        "(c) random lists of 1-8 ids derived from each other by the same rewrites over an alphabet containing every "
        "forbidden character; every list under both header settings, driven directly through generate_unique_id + "
        "fix_record_name_id, through pre_process_sequences (cpus=1 in-process and cpus=2 through the real Pool, stub "
        "gene finder or records with CDS features from Record.from_biopython) and through parse_input_sequence on a "
        "generated FASTA file. gene names: 2-7 CDS/gene features on one record with names from a dictionary whose "
        "members sanitise to the same string, overlapping / identical / disjoint locations, added through "
        "CDSFeature() + Record.add_cds_feature and through Record.from_biopython (+ pre_process_sequences). "
        "Non-trivial: at least two ids (or gene names) that are equal as given or after one rewrite step "
        "(strip, truncate to 16, shorten, drop version, add _N); distinct by (mode, header setting, ids, names).")
ASSUMPTIONS = [
    "The characters 'unusable in file names or GenBank headers' are the 27 listed in fix_record_name_id "
    "(!\"#$%&()*+,:;=>?@[]^`'{|}/ and space); for gene names additionally CR, LF and TAB (_sanitise_id_value). "
    "The oracle carries its own copy of both sets. Characters outside them (<, \\, ~, TAB in record ids) are not judged.",
    "Identifier = Record.id (must be unique, clean, <= 16 unless long headers allowed); Record.name must be clean and "
    "<= 16 but is not required to be unique (the property speaks of identifiers; names legitimately repeat).",
    "Input records arrive with original_id unset (as parse_input_sequence delivers them).",
    "Sanitisation is enabled (neither --reuse-results nor --skip-sanitisation); with those flags the property promises nothing.",
    "A clean rejection of the whole input (AntismashInputError, RuntimeError from generate_unique_id) is not a violation.",
    "No gene finder binary exists offline: ensure_cds_info runs with a stub run_on_record that names genes like prodigal "
    "does (ctg<record_index>_<n>), or with records that already carry CDS features.",
    "Biopython (SeqRecord, FASTA parser) and multiprocessing are trusted.",
]
REQUIRED = [
    "op:ids-distinct", "op:id-chars", "op:id-length", "op:original-id", "op:name-chars", "op:name-length",
    "op:generate_unique_id", "op:cds-names-distinct", "op:cds-name-chars", "op:cds-name-lookup",
    "mode:direct", "mode:pipeline", "mode:pool", "mode:fasta", "src:bio", "src:bare", "long:True", "long:False",
    "class:exact-dup", "class:strip-collide", "class:prefix16-collide", "class:shortened-form-collide",
    "class:versioned", "class:contig-pattern", "class:dedupe-suffix-collide",
    "rewrite:dedupe", "rewrite:shorten", "rewrite:strip", "rewrite:version-drop", "rewrite:fallback-unique",
    "rewrite:dedupe+second", "sweep:record-chars", "sweep:gene-chars",
    "gene:accepted", "gene:renamed", "gene:rejected-dup-name", "gene:rejected-dup-location",
    "gene:record-rejected", "gene:record-accepted", "case:exhaustion",
    "mode:gff", "gene:gff-accepted-multi", "gene:gff-rejected",
]

RECORD_FORBIDDEN = frozenset("!\"#$%&()*+,:;=>?@[]^`'{|}/ ")
GENE_FORBIDDEN = frozenset("!\"#$%&()*+,:;=>?@[]^`'{|}/ \r\n\t")
MAX_LEN = 16
assert len(RECORD_FORBIDDEN) == 27 and len(GENE_FORBIDDEN) == 30

DNA = "ATGGCAGCAGCAGCAGCAGCAGCAGCATAA" * 2  # 60 bases, real content


# --------------------------------------------------------------------------
# known-finding classifiers (mechanism = clause + structural facts)
# --------------------------------------------------------------------------

@findings.classifier("c16_strip_after_bookkeeping")
def _c16_strip_after_bookkeeping(clause, facts):
    """ forbidden characters are removed after the uniqueness bookkeeping: the two records had distinct ids
        right up to the character stripping and at least one of them lost characters there.
        Must not hide: equal ids that were already equal before stripping (de-duplication, shortening,
        version dropping or the fallback failing), nor any length/character/original_id clause. """
    return (clause == "ids-distinct" and facts.get("prestrip_distinct") is True
            and facts.get("stripped_any") is True)


@findings.classifier("c16_shorten_big_contig_number")
def _c16_shorten_big_contig_number(clause, facts):
    """ _shorten_ids formats the contig number with at least 5 digits but does not cap it: a number >= 100000
        makes the 'c<no>_<7 chars>..' form 17+ characters. Must not hide: any other over-long id/name
        (unshortened ids, 5-digit forms with a longer text part). """
    return (clause in ("id-too-long", "name-too-long") and facts.get("shortened_form") is True
            and isinstance(facts.get("contig_digits"), int) and facts["contig_digits"] >= 6
            and facts.get("text_part_len", 99) <= 7)


@findings.classifier("c16_cds_rename_assert")
def _c16_cds_rename_assert(clause, facts):
    """ add_cds_feature renames an overlapping same-named CDS to <locus_tag>_<crc32 of location> and only
        asserts that this name is free; if a gene literally carries that name the AssertionError escapes
        (uncaught by from_biopython) instead of a clean SecmetInvalidInputError.
        Must not hide: duplicates being accepted, or any other crash. """
    return (clause == "gene-add-crash" and facts.get("exception") == "AssertionError"
            and facts.get("checksum_name_taken") is True)


# --------------------------------------------------------------------------
# reference helpers (independent of the code under test)
# --------------------------------------------------------------------------

def strip_forbidden(text: str, forbidden=RECORD_FORBIDDEN) -> str:
    return "".join(c for c in text if c not in forbidden)


def _numbers_in(text: str) -> set[int]:
    return {int(m) for m in re.findall(r"(\d{1,9})(?!\w)", text)}


def candidate_forms(text: str, index: int) -> dict[str, set[str]]:
    """ forms an id may take after ONE rewrite step, by step name (used for the non-triviality classes) """
    forms: dict[str, set[str]] = {"given": {text}, "strip": {strip_forbidden(text)}, "suffix": {text + "_0", text + "_1"}}
    if len(text) > MAX_LEN:
        forms["prefix16"] = {text[:MAX_LEN]}
        forms["shortened"] = {f"c{n:05d}_{text[:7]}.." for n in _numbers_in(text) | {index}}
        forms["fallback"] = {text[:12] + "_0"}
        if text[-2] == "." and text.count(".") == 1:
            forms["version"] = {text.partition(".")[0]}
    return forms


def collision_classes(ids: list[str]) -> set[str]:
    """ which classes of potential collision a list contains (independent of what the code does) """
    classes = set()
    per = [candidate_forms(text, i + 1) for i, text in enumerate(ids)]
    flat = [set().union(*forms.values()) | {strip_forbidden(f) for fs in forms.values() for f in fs} for forms in per]
    for i, j in itertools.combinations(range(len(ids)), 2):
        a, b = ids[i], ids[j]
        if a == b:
            classes.add("exact-dup")
            continue
        if strip_forbidden(a) == strip_forbidden(b):
            classes.add("strip-collide")
        if len(a) > MAX_LEN and len(b) > MAX_LEN and a[:MAX_LEN] == b[:MAX_LEN]:
            classes.add("prefix16-collide")
        for x, y in ((i, j), (j, i)):
            others = flat[y]
            if per[x].get("shortened", set()) & others or per[x].get("fallback", set()) & others:
                classes.add("shortened-form-collide")
            if per[x].get("version", set()) & others:
                classes.add("versioned")
            if per[x]["suffix"] & {ids[y]} and ids.count(ids[x]) > 1:
                classes.add("dedupe-suffix-collide")
        if flat[i] & flat[j]:
            classes.add("any")
    for text in ids:
        if len(text) > MAX_LEN and re.search(r"(onti?g?|caff?o?l?d?|\bc)\d+\b", text):
            classes.add("contig-pattern")
        if len(text) > MAX_LEN and text[-2:-1] == "." and text.count(".") == 1:
            classes.add("versioned-shape")
    return classes


def is_strip_step(before: str, after: str) -> bool:
    removed = set(before) - set(after)
    return bool(removed) and removed <= RECORD_FORBIDDEN and after == "".join(c for c in before if c not in removed)


def prestrip_value(history: list[str]) -> str:
    k = len(history) - 1
    while k > 0 and is_strip_step(history[k - 1], history[k]):
        k -= 1
    return history[k]


# --------------------------------------------------------------------------
# recording monitor on Record.__setattr__ (history of id / name / original_id per object)
# --------------------------------------------------------------------------

class _Recorder:
    def __init__(self):
        self.events: list[tuple] = []   # (obj, attr, value); strong refs keep identities stable within a case
        self.installed = False

    def reset(self):
        self.events = []

    def post(self, obj, args, kwargs, result):  # pylint: disable=unused-argument
        if args and args[0] in ("id", "original_id", "name"):
            self.events.append((obj, args[0], args[1] if len(args) > 1 else kwargs.get("value")))

    def id_histories(self, objects) -> dict[int, list[str]]:
        """ position -> values assigned to .id of objects[position], in order """
        where = {id(obj): pos for pos, obj in enumerate(objects)}
        out: dict[int, list[str]] = {pos: [] for pos in range(len(objects))}
        for obj, attr, value in self.events:
            if attr == "id" and id(obj) in where:
                out[where[id(obj)]].append(value)
        return out


RECORDER = _Recorder()

_SAMPLED: set[str] = set()


def sample_once(tag: str, wanted: bool, case):
    """ evidence samples: one written-out case per route instead of the first four of the first sweep """
    if not wanted or tag in _SAMPLED:
        return None
    _SAMPLED.add(tag)
    return case

_WORK = {"dir": None}


def workdir() -> str:
    if _WORK["dir"] is None:
        _WORK["dir"] = tempfile.mkdtemp(prefix="vf-c16-")
    return _WORK["dir"]


def cleanup() -> None:
    if _WORK["dir"]:
        shutil.rmtree(_WORK["dir"], ignore_errors=True)
        _WORK["dir"] = None
    logging.disable(logging.NOTSET)


def install(ctx) -> None:
    if not RECORDER.installed:
        instrument.monitor_method(Record, "__setattr__", RECORDER.post, ctx, counter="monitor:Record.__setattr__")
        RECORDER.installed = True
    logging.disable(logging.CRITICAL)  # the code under test logs one warning per renamed record


# --------------------------------------------------------------------------
# stub gene finder (must be importable by name: it is pickled into Pool workers)
# --------------------------------------------------------------------------

def run_on_record(record, options):  # pylint: disable=unused-argument
    """ names genes the way antismash.support.genefinding.prodigal does """
    record.add_cds_feature(CDSFeature(FeatureLocation(0, 30, 1), translation="MAAAAAAAA",
                                      locus_tag=f"ctg{record.record_index}_1"))
    record.add_cds_feature(CDSFeature(FeatureLocation(30, 60, 1), translation="MAAAAAAAA",
                                      locus_tag=f"ctg{record.record_index}_2"))


STUB = types.SimpleNamespace(run_on_record=run_on_record, NAME="genefinding-stub")

_OPTIONS = {"key": None, "options": None}


def options_for(ctx, allow_long: bool, cpus: int):
    key = (bool(allow_long), int(cpus))
    if _OPTIONS["key"] != key:
        args = ["--cpus", str(cpus), "--genefinding-tool", "prodigal", "--minlength", "1",
                "--allow-long-headers" if allow_long else "--no-allow-long-headers"]
        options = build_config(args, isolated=True, modules=[genefinding])
        assert options.allow_long_headers is bool(allow_long) and options.cpus == cpus
        _OPTIONS.update(key=key, options=options)
        ctx.count("op:build_config")
    return _OPTIONS["options"]


# --------------------------------------------------------------------------
# building input records
# --------------------------------------------------------------------------

def make_record(text: str, name: str, src: str) -> Record:
    if src == "bio":
        feats = [SeqFeature(FeatureLocation(0, 30, 1), type="CDS",
                            qualifiers={"locus_tag": ["orfA"], "translation": ["MAAAAAAAA"]}),
                 SeqFeature(FeatureLocation(30, 60, -1), type="CDS",
                            qualifiers={"gene": ["orfB"], "translation": ["MAAAAAAAA"]})]
        bio = SeqRecord(Seq(DNA), id=text, name=name, description="generated",
                        annotations={"molecule_type": "DNA"}, features=feats)
        return Record.from_biopython(bio, "bacteria", discard_antismash_features=True)
    record = Record(Seq(DNA))
    record.id = text
    record.name = name
    return record


def snapshot(records) -> list[dict]:
    return [{"id": r.id, "name": r.name, "original_id": r.original_id, "record_index": r.record_index,
             "skip": r.skip, "cds": [c.get_name() for c in r.get_cds_features()]} for r in records]


# --------------------------------------------------------------------------
# the oracle on a resulting record list
# --------------------------------------------------------------------------

def oracle_records(ctx, case, ids, names, allow_long, result, histories) -> None:
    mode = case.get("mode")
    base = {"mode": mode, "long": bool(allow_long), "n": len(ids)}
    if len(result) != len(ids) or any(r["record_index"] != i + 1 for i, r in enumerate(result)):
        ctx.violate("list-preserved", dict(base, got=len(result)), case)
        return
    # histories: position -> every value .id took (first element forced to be the input)
    hist = {}
    for pos, given in enumerate(ids):
        values = [given] + [v for v in histories.get(pos, [])]
        compact = [values[0]]
        for v in values[1:]:
            if v != compact[-1]:
                compact.append(v)
        if compact[-1] != result[pos]["id"]:
            compact.append(result[pos]["id"])
        hist[pos] = compact

    # clause: pairwise distinct
    ctx.count("op:ids-distinct")
    seen: dict[str, int] = {}
    for pos, rec in enumerate(result):
        if rec["id"] in seen:
            other = seen[rec["id"]]
            pa, pb = prestrip_value(hist[other]), prestrip_value(hist[pos])
            ctx.violate("ids-distinct", dict(
                base, final=rec["id"], colliding_inputs=[ids[other], ids[pos]],
                inputs_distinct=ids[other] != ids[pos], prestrip=[pa, pb], prestrip_distinct=pa != pb,
                stripped_any=(pa != rec["id"] or pb != rec["id"])), case)
        else:
            seen[rec["id"]] = pos

    for pos, rec in enumerate(result):
        for field, limit_clause, char_clause in (("id", "id-too-long", "id-forbidden-char"),
                                                 ("name", "name-too-long", "name-forbidden-char")):
            value = rec[field]
            ctx.count(f"op:{field}-chars")
            bad = sorted(set(value) & RECORD_FORBIDDEN)
            if bad:
                ctx.violate(char_clause, dict(base, chars=bad, value=value,
                                              given=ids[pos] if field == "id" else names[pos]), case)
            ctx.count(f"op:{field}-length")
            if not allow_long and len(value) > MAX_LEN:
                match = re.fullmatch(r"c(\d+)_(.*)\.\.", value, flags=re.S)
                ctx.violate(limit_clause, dict(
                    base, value=value, length=len(value), given=ids[pos] if field == "id" else names[pos],
                    shortened_form=bool(match), contig_digits=len(match.group(1)) if match else None,
                    text_part_len=len(match.group(2)) if match else None), case)
            elif allow_long and len(value) > MAX_LEN:
                ctx.count("boundary:long-kept")
            elif len(value) == MAX_LEN:
                ctx.count("boundary:len==16")
        # clause: a changed id remembers the input
        ctx.count("op:original-id")
        if rec["id"] != ids[pos]:
            if rec["original_id"] != ids[pos]:
                ctx.violate("original-id-remembered", dict(
                    base, given=ids[pos], final=rec["id"], original_id=rec["original_id"],
                    rewrites=len(hist[pos]) - 1, duplicated_input=ids.count(ids[pos]) > 1), case)
            _count_rewrites(ctx, ids, pos, hist[pos])
        else:
            ctx.count("rewrite:none")
            if rec["original_id"] not in (None, ids[pos]):
                ctx.violate("original-id-remembered", dict(base, given=ids[pos], final=rec["id"],
                                                           original_id=rec["original_id"], rewrites=0,
                                                           duplicated_input=ids.count(ids[pos]) > 1), case)
        if not rec["id"]:
            ctx.count("boundary:empty-id-left")  # only reachable in direct mode; the pipeline rejects it

    # the gene half on the same records
    for rec in result:
        if rec["skip"] is None:
            oracle_names_distinct(ctx, rec["cds"], case, where="after-pre-process")


def _count_rewrites(ctx, ids, pos, history) -> None:
    given = ids[pos]
    steps = set()
    for before, after in zip(history, history[1:]):
        if is_strip_step(before, after):
            steps.add("strip")
        elif re.fullmatch(r"c\d+_.{0,7}\.\.", after, flags=re.S):
            steps.add("shorten")
        elif after == before.partition(".")[0] and before[-2:-1] == ".":
            steps.add("version-drop")
        elif before == given and re.fullmatch(re.escape(before) + r"_\d+", after):
            steps.add("dedupe")  # the first pass: an exact duplicate, or equal to an id generated for an earlier one
        elif re.fullmatch(re.escape(before[:12]) + r"_\d+", after):
            steps.add("fallback-unique")
        else:
            steps.add("other")
    for step in steps:
        ctx.count(f"rewrite:{step}")
    if "dedupe" in steps and len(steps) > 1:
        ctx.count("rewrite:dedupe+second")


def oracle_names_distinct(ctx, names, case, where) -> None:
    ctx.count("op:cds-names-distinct")
    if len(set(names)) != len(names):
        dup = sorted({n for n in names if names.count(n) > 1})
        ctx.violate("cds-names-distinct", {"where": where, "duplicated": dup, "n": len(names)}, case)


# --------------------------------------------------------------------------
# drivers for the record-id half
# --------------------------------------------------------------------------

CLEAN_REJECTIONS = (AntismashInputError,)


def _is_clean_rejection(err) -> bool:
    if isinstance(err, CLEAN_REJECTIONS):
        return True
    return isinstance(err, RuntimeError) and str(err).startswith("Could not generate unique id")


def drive_direct(ctx, records, allow_long):
    """ the sanitisation block of pre_process_sequences, function by function (the de-duplication loop is
        harness code mirroring record_processing.py:372-380, the two functions are the real ones) """
    for i, record in enumerate(records):
        record.record_index = i + 1
    all_ids = {r.id for r in records}
    if len(all_ids) < len(records):
        all_ids = set()
        for record in records:
            if record.id in all_ids:
                record.original_id = record.id
                new, counter = rp.generate_unique_id(record.id, all_ids)
                oracle_generate_unique_id(ctx, record.id, all_ids, 0, -1, new, counter)
                record.id = new
            all_ids.add(record.id)
    for record in records:
        rp.fix_record_name_id(record, all_ids, allow_long)
    return records


def oracle_generate_unique_id(ctx, prefix, existing, start, max_length, name, counter) -> None:
    ctx.count("op:generate_unique_id")
    ok = (name not in existing and name == f"{prefix}_{counter}" and counter >= start
          and all(f"{prefix}_{k}" in existing for k in range(start, counter))
          and (max_length < 1 or len(name) <= max_length))
    if not ok:
        ctx.violate("generate-unique-id-contract", {"prefix": prefix, "existing": sorted(existing)[:20], "start": start,
                                                     "max_length": max_length, "name": name, "counter": counter},
                    {"kind": "unique", "prefix": prefix, "existing": sorted(existing), "start": start,
                     "max_length": max_length})


def run_id_case(ctx, case) -> None:
    """ case: {kind:'ids', ids, names, long, mode: direct|pipeline|pool|fasta, src: [bare|bio,...]} """
    ids, allow_long, mode = list(case["ids"]), bool(case["long"]), case["mode"]
    names = list(case.get("names") or ids)
    srcs = list(case.get("src") or ["bare"] * len(ids))
    classes = collision_classes(ids) if len(ids) <= 16 else {"bulk"}  # the classification is quadratic
    nontrivial = bool(classes - {"contig-pattern", "versioned-shape"})
    ctx.case(("ids", mode, allow_long, ids, names), nontrivial=nontrivial,
             sample=sample_once("ids-" + ("pool" if mode == "pool" else "pipeline"),
                                nontrivial and len(ids) >= 3 and mode in ("pipeline", "pool") and len(classes) >= 3, case))
    ctx.count(f"mode:{mode}")
    ctx.count(f"long:{allow_long}")
    for cls in classes:
        ctx.count(f"class:{cls}")
    RECORDER.reset()
    try:
        if mode == "fasta":
            path = os.path.join(workdir(), "input.fasta")
            with open(path, "w", encoding="utf-8") as handle:
                for text in ids:
                    handle.write(f">{text} generated record\n{DNA}\n")
            ok, records = ctx.guard("parse-crash", case, rp.parse_input_sequence, path, "bacteria", -1)
            if not ok:
                return
            got = [r.id for r in records]
            if got != ids:
                ctx.count("skipped:fasta-id-not-preserved")
                return
            names = [r.name for r in records]
            ctx.count("src:fasta")
        else:
            try:
                records = [make_record(text, name, src) for text, name, src in zip(ids, names, srcs)]
            except SecmetInvalidInputError:
                ctx.count("skipped:record-construction-rejected")
                return
            for src in set(srcs):
                ctx.count(f"src:{src}")
        inputs = list(records)
        try:
            if mode == "direct":
                out = drive_direct(ctx, records, allow_long)
            else:
                options = options_for(ctx, allow_long, 2 if mode == "pool" else 1)
                out = rp.pre_process_sequences(records, options, STUB)
        except Exception as err:  # pylint: disable=broad-except
            if _is_clean_rejection(err):
                ctx.count(f"rejected:{type(err).__name__}")
                reason = str(err)
                empty_possible = any(not strip_forbidden(t) for t in ids)
                ctx.count("rejected:empty-id" if empty_possible and "no name" in reason else "rejected:other")
                return
            import traceback
            tb = traceback.extract_tb(err.__traceback__)
            ctx.violate("sanitise-crash", {"exception": type(err).__name__, "message": str(err)[:200], "mode": mode,
                                           "long": allow_long,
                                           "where": [f"{os.path.basename(f.filename)}:{f.name}" for f in tb[-3:]]}, case)
            return
        histories = RECORDER.id_histories(inputs)
        oracle_records(ctx, case, ids, names, allow_long, snapshot(out), histories)
    finally:
        RECORDER.reset()


# --------------------------------------------------------------------------
# workload: dictionary, character sweep, random lists
# --------------------------------------------------------------------------

L1 = "seq_abcdefghijklmnop"          # 20 chars
DICTIONARY = [
    "ab", "a:b", "a;b", "ab_0",
    L1, L1 + "q",                     # differ beyond the 16th character
    "c00001_seq_abc..",               # shortened form of L1 as record 1
    "seq_abcdefgh_0",                 # fallback form of L1
    "NZ_AMZN01000079.1", "NZ_AMZN01000079", "NZ_AMZN01000079.2",
    "scaffold7.1_length_4000", "scaffold7.2_length_4000",
    "scaffold123456|size9999",
]


def exhaustive_dictionary(ctx) -> None:
    """ every ordered pair and triple (with repetition) x both header settings x direct + pipeline """
    combos = list(itertools.product(DICTIONARY, repeat=2)) + list(itertools.product(DICTIONARY, repeat=3))
    if ctx.tier == "quick":
        # pairs fully, triples thinned deterministically to every third
        pairs = len(DICTIONARY) ** 2
        combos = combos[:pairs] + combos[pairs::3]
    done = 0
    for allow_long in (False, True):
        for idx, combo in enumerate(combos):
            if idx % ctx.nworkers != ctx.worker:
                continue
            if idx % 64 == 0 and ctx.time_left() <= 0:
                ctx.budget_hit = True
                ctx.exhaustive = False
                return
            for mode in ("direct", "pipeline"):
                run_id_case(ctx, {"kind": "ids", "ids": list(combo), "names": None, "long": allow_long, "mode": mode})
            done += 1
    ctx.count("exhaustive:dictionary-combos", done)
    if ctx.exhaustive is None:
        ctx.exhaustive = True


def character_sweep(ctx) -> None:
    for allow_long in (False, True):
        for char in sorted(RECORD_FORBIDDEN):
            ctx.count("sweep:record-chars") if not allow_long else None
            long_id = f"sample{char}_abcdefghijklmn"
            lists = [[f"a{char}b"], [f"a{char}b", "ab"], ["ab", f"a{char}b"], [f"{char}a", f"a{char}"], [char, "ab"],
                     [long_id], [long_id, strip_forbidden(long_id)], [f"{char}{char}a{char}"]]
            for ids in lists:
                for mode in ("direct", "pipeline"):
                    run_id_case(ctx, {"kind": "ids", "ids": ids, "names": None, "long": allow_long, "mode": mode})
                if fasta_safe(ids):
                    run_id_case(ctx, {"kind": "ids", "ids": ids, "names": None, "long": allow_long, "mode": "fasta"})


SAFE = "abx01_.-"
PREFIX_POOL = ["abcdefghijklmnop", "seq_seq_seq_seq_", "NODE_1_length_500", "ab:defghijklmnop"]


def _rand_base(rng) -> str:
    kind = rng.choice(["short", "short", "short", "mid", "long", "long", "contig", "scaffold", "cnum",
                       "accession", "accession"])
    if kind == "short":
        return "".join(rng.choice("ab") for _ in range(rng.randrange(1, 4)))
    if kind == "mid":
        return ("seq" + "a" * 20)[:rng.choice([15, 16, 17])]
    if kind == "long":
        return rng.choice(PREFIX_POOL) + "".join(rng.choice(SAFE) for _ in range(rng.randrange(1, 8)))
    number = rng.choice([1, 2, 7, 7, 42, 99999, 100000, 123456, 12345678901234])
    if kind == "contig":
        return rng.choice(["", "xxxx", "NODE_"]) + rng.choice(["contig", "contg", "cont"]) + str(number) \
            + rng.choice([".", "|", "-", " "]) + rng.choice(["length_4000", "len=12 cov=3", "yyyyyyyyyyyy"])
    if kind == "scaffold":
        return rng.choice(["scaffold", "Scaffold", "scaf"]) + str(number) + rng.choice([".", "|", " "]) \
            + rng.choice(["1_length_4000", "size9999_abc", "2_length_4000"])
    if kind == "cnum":
        return "assembly " + f"c{number} " + rng.choice(["of sample A", "whatever_else"])
    base = rng.choice(["NZ_AMZN01000079", "NZ_ABCDEFGHIJKLM", "ABCDEFGHIJKLMNOPQ", "NC_003888"])
    return base + rng.choice(["", ".1", ".2", ".12", ".1.1"])


def _ref_shorten(text: str, index: int) -> str:
    numbers = sorted(_numbers_in(text)) or [index]
    return f"c{numbers[0] if len(numbers) == 1 else index:05d}_{text[:7]}.."


def _variant(rng, text: str, position: int) -> str:
    op = rng.choice(["same", "same", "insert", "insert", "swap", "stripped", "beyond16", "suffix", "shortened",
                     "shortened_idx", "fallback", "version", "unversion"])
    forbidden = sorted(RECORD_FORBIDDEN)
    if op == "insert":
        at = rng.randrange(0, len(text) + 1)
        return text[:at] + rng.choice(forbidden) + text[at:]
    if op == "swap":
        spots = [i for i, c in enumerate(text) if c in RECORD_FORBIDDEN]
        if spots:
            at = rng.choice(spots)
            return text[:at] + rng.choice(forbidden) + text[at + 1:]
        return text
    if op == "stripped":
        return strip_forbidden(text) or text
    if op == "beyond16":
        return text[:MAX_LEN].ljust(MAX_LEN, "x") + "".join(rng.choice(SAFE) for _ in range(rng.randrange(1, 6)))
    if op == "suffix":
        return text + rng.choice(["_0", "_1", "_0_0"])
    if op == "shortened":
        return _ref_shorten(text, position)
    if op == "shortened_idx":
        return f"c{position:05d}_{text[:7]}.."
    if op == "fallback":
        return text[:12] + rng.choice(["_0", "_1"])
    if op == "version":
        return text + rng.choice([".1", ".2"])
    if op == "unversion":
        return text.partition(".")[0] or text
    return text


def gen_id_case(rng) -> dict:
    count = rng.choice([1, 2, 2, 3, 3, 4, 5, 6, 8])
    ids: list[str] = []
    for i in range(count):
        if not ids or rng.random() < 0.3:
            ids.append(_rand_base(rng))
        else:
            source_pos = rng.randrange(len(ids))
            ids.append(_variant(rng, ids[source_pos], source_pos + 1))
    rng.shuffle(ids) if rng.random() < 0.3 else None
    names = None
    if rng.random() < 0.3:
        names = [rng.choice([t, t.partition(".")[0] or t, _rand_base(rng), _variant(rng, t, i + 1)])
                 for i, t in enumerate(ids)]
    src = [rng.choice(["bare", "bare", "bio"]) for _ in ids]
    return {"kind": "ids", "ids": ids, "names": names, "long": rng.random() < 0.4, "src": src}


def fasta_safe(ids) -> bool:
    return all(t and not any(c.isspace() for c in t) and not t.startswith(">") for t in ids) and len(ids) > 0


def random_lists(ctx, count: int, pool_every: int) -> None:
    """ batches, so that the real Config is rebuilt per batch and setting rather than per case; every list is
        judged under both header settings (direct + pipeline), the Pool and FASTA routes under its own """
    rng = ctx.rng("idlists")
    batch: list[tuple[int, dict]] = []

    def flush():
        for allow_long in (False, True):
            for i, case in batch:
                for mode in ("direct", "pipeline"):
                    run_id_case(ctx, dict(case, long=allow_long, mode=mode))
                if i % 5 == 0 and fasta_safe(case["ids"]) and case["long"] == allow_long:
                    run_id_case(ctx, dict(case, mode="fasta", names=None, src=None))
        for i, case in batch:
            if i % pool_every == 0 and len(case["ids"]) > 1:
                run_id_case(ctx, dict(case, mode="pool"))
        batch.clear()

    for i in ctx.cases(count):
        batch.append((i, gen_id_case(rng)))
        if len(batch) == 32:
            flush()
    flush()


def exhaustion_case(ctx) -> None:
    """ 1002 long ids sharing the shortened form and the 12-character fallback prefix: the fallback counter
        runs out of room at _1000 (17 characters): either every id is distinct and short, or a clean rejection """
    ids = ["contig7.abcd" + "q" * 5 + f"{i:04d}" for i in range(1002)]
    case = {"kind": "ids", "ids": ids, "names": None, "long": False, "mode": "pipeline"}
    ctx.count("case:exhaustion")
    run_id_case(ctx, case)
    short = dict(case, ids=ids[:300])
    run_id_case(ctx, short)


def unique_id_contract_cases(ctx, count: int) -> None:
    """ generate_unique_id driven directly with start / max_length variations """
    rng = ctx.rng("unique")
    for _ in ctx.cases(count):
        prefix = rng.choice(["a", "ab", "abcdefghijkl", "a:b", ""])
        start = rng.choice([0, 0, 1, 5])
        taken = {f"{prefix}_{k}" for k in range(start, start + rng.choice([0, 1, 2, 9, 10, 11]))}
        taken |= {rng.choice(["a", "ab_1", prefix]) for _ in range(2)}
        if rng.random() < 0.3:
            taken.discard(f"{prefix}_{start + 1}")
        max_length = rng.choice([-1, 0, 16, len(prefix) + 2, len(prefix) + 3])
        ctx.case(("unique", prefix, sorted(taken), start, max_length), nontrivial=bool(taken))
        try:
            name, counter = rp.generate_unique_id(prefix, set(taken), start, max_length)
        except RuntimeError as err:
            ctx.count("rejected:RuntimeError")
            # a rejection is only legitimate when the first free name really is too long
            k = start
            while f"{prefix}_{k}" in taken:
                k += 1
            if not 0 < max_length < len(f"{prefix}_{k}"):
                ctx.violate("generate-unique-id-contract", {"prefix": prefix, "start": start, "max_length": max_length,
                                                             "rejected": str(err)[:80]},
                            {"kind": "unique", "prefix": prefix, "existing": sorted(taken), "start": start,
                             "max_length": max_length})
            else:
                ctx.count("op:generate_unique_id")
            continue
        oracle_generate_unique_id(ctx, prefix, taken, start, max_length, name, counter)


# --------------------------------------------------------------------------
# gene-name half
# --------------------------------------------------------------------------

GENE_NAMES = ["x", "x", "x", "y", "a:b", "a;b", "a_b", "a b", "ab", "x y", "x\ty"]
GENE_STARTS = [0, 3, 6, 30, 33, 60, 90, 120]
GENE_LENGTHS = [9, 12, 30]
GENE_RECORD_LEN = 180


def _crc(location) -> str:
    return f"{zlib.crc32(str(location).encode('utf-8')):x}"


def gen_gene_case(rng) -> dict:
    count = rng.randrange(2, 8)
    specs = []
    for _ in range(count):
        start = rng.choice(GENE_STARTS)
        length = rng.choice(GENE_LENGTHS)
        spec = {"type": "CDS" if rng.random() < 0.85 else "gene", "start": start, "end": start + length,
                "strand": rng.choice([1, 1, -1]), "locus_tag": None, "gene": None, "protein_id": None}
        which = rng.choice(["locus_tag", "locus_tag", "locus_tag", "gene", "protein_id", "both", "all"])
        name = rng.choice(GENE_NAMES)
        if which in ("locus_tag", "both", "all"):
            spec["locus_tag"] = name
        if which in ("gene", "both", "all"):
            spec["gene"] = rng.choice([name, rng.choice(GENE_NAMES)])
        if which in ("protein_id", "all") and spec["type"] == "CDS":
            spec["protein_id"] = rng.choice([name, rng.choice(GENE_NAMES)])
        if spec["type"] == "gene" and not (spec["locus_tag"] or spec["gene"]):
            spec["locus_tag"] = name
        specs.append(spec)
    # hostile: a gene that literally carries the name a later rename will pick
    if rng.random() < 0.12:
        victims = [s for s in specs if s["type"] == "CDS" and s["locus_tag"]]
        if victims:
            victim = rng.choice(victims)
            loc = FeatureLocation(victim["start"], victim["end"], victim["strand"])
            tag = CDSFeature(loc, translation="M", locus_tag=victim["locus_tag"]).locus_tag
            specs.insert(0, {"type": "CDS", "start": 150, "end": 159, "strand": 1,
                             "locus_tag": f"{tag}_{_crc(loc)}", "gene": None, "protein_id": None})
    return {"kind": "genes", "specs": specs, "path": rng.choice(["add", "add", "biopython"])}


def _translation(spec) -> str:
    return "M" + "A" * ((spec["end"] - spec["start"]) // 3 - 1)


def run_gene_case(ctx, case) -> None:
    specs = case["specs"]
    raw_names = [n for s in specs for n in (s["locus_tag"], s["gene"], s["protein_id"]) if n]
    cds_keys = [strip_forbidden(s["locus_tag"] or s["gene"] or s["protein_id"] or "", GENE_FORBIDDEN | {"_"})
                for s in specs if s["type"] == "CDS"]
    nontrivial = len(set(cds_keys)) < len(cds_keys)
    ctx.case(("genes", case["path"], specs), nontrivial=nontrivial,
             sample=sample_once("genes", nontrivial and len(specs) >= 3, case))
    dna = ("ATGGCAGCAGCAGCAGCAGCAGCAGCATAA" * 6)[:GENE_RECORD_LEN]
    if case["path"] == "add":
        record = Record(Seq(dna))
        record.id = "generated"
        accepted = []
        for spec in specs:
            loc = FeatureLocation(spec["start"], spec["end"], spec["strand"])
            before = [c.get_name() for c in record.get_cds_features()]
            try:
                if spec["type"] == "gene":
                    record.add_gene(Gene(loc, locus_tag=spec["locus_tag"], gene_name=spec["gene"]))
                    continue
                feature = CDSFeature(loc, translation=_translation(spec), locus_tag=spec["locus_tag"],
                                     gene=spec["gene"], protein_id=spec["protein_id"])
            except (ValueError, SecmetInvalidInputError):
                ctx.count("gene:construction-rejected")
                continue
            wanted = feature.get_name()
            taken = f"{feature.locus_tag}_{_crc(loc)}" in before if feature.locus_tag else False
            try:
                record.add_cds_feature(feature)
            except (SecmetInvalidInputError, ValueError) as err:
                text = str(err)
                if "same location" in text:
                    ctx.count("gene:rejected-dup-location")
                elif "same name" in text:
                    ctx.count("gene:rejected-dup-name")
                    if not feature.locus_tag:
                        ctx.count("gene:rejected-no-locus-tag")
                else:
                    ctx.count("gene:rejected-other")
                after = [c.get_name() for c in record.get_cds_features()]
                if after != before:
                    ctx.violate("cds-names-distinct", {"where": "rejected-add-changed-record", "duplicated": [],
                                                       "n": len(after)}, case)
                continue
            except Exception as err:  # pylint: disable=broad-except
                ctx.violate("gene-add-crash", {"exception": type(err).__name__, "message": str(err)[:120],
                                               "checksum_name_taken": taken, "name_already_present": wanted in before},
                            case)
                continue
            accepted.append(feature)
            ctx.count("gene:accepted")
            if feature.get_name() != wanted:
                ctx.count("gene:renamed")
            elif wanted in before:
                ctx.count("gene:accepted-with-taken-name")
        check_record_genes(ctx, record, case, "after-add")
        return
    # through Record.from_biopython (and pre_process_sequences when accepted)
    features = []
    for spec in specs:
        quals = {}
        for key in ("locus_tag", "gene", "protein_id"):
            if spec[key]:
                quals[key] = [spec[key]]
        if spec["type"] == "CDS":
            quals["translation"] = [_translation(spec)]
        features.append(SeqFeature(FeatureLocation(spec["start"], spec["end"], spec["strand"]),
                                   type=spec["type"], qualifiers=quals))
    bio = SeqRecord(Seq(dna), id="generated", name="generated", annotations={"molecule_type": "DNA"},
                    features=features)
    try:
        record = Record.from_biopython(bio, "bacteria", discard_antismash_features=True)
    except SecmetInvalidInputError:
        ctx.count("gene:record-rejected")
        return
    except Exception as err:  # pylint: disable=broad-except
        has_checksum_name = any(re.fullmatch(r".*_[0-9a-f]{1,8}", s["locus_tag"] or "") for s in specs)
        ctx.violate("gene-add-crash", {"exception": type(err).__name__, "message": str(err)[:120],
                                       "checksum_name_taken": has_checksum_name and isinstance(err, AssertionError),
                                       "path": "from_biopython"}, case)
        return
    ctx.count("gene:record-accepted")
    check_record_genes(ctx, record, case, "after-from_biopython")
    try:
        out = rp.pre_process_sequences([record], options_for(ctx, True, 1), STUB)
    except AntismashInputError:
        ctx.count("rejected:AntismashInputError")
        return
    check_record_genes(ctx, out[0], case, "after-pre-process")


def check_record_genes(ctx, record, case, where) -> None:
    features = list(record.get_cds_features())
    names = [c.get_name() for c in features]
    oracle_names_distinct(ctx, names, case, where)
    for feature in features:
        ctx.count("op:cds-name-chars")
        for value in (feature.locus_tag, feature.gene, feature.protein_id):
            bad = sorted(set(value or "") & GENE_FORBIDDEN)
            if bad:
                ctx.violate("cds-name-forbidden-char", {"chars": bad, "value": value, "where": where}, case)
        ctx.count("op:cds-name-lookup")
        try:
            found = record.get_cds_by_name(feature.get_name())
        except KeyError:
            found = None
        if found is not feature:
            ctx.violate("cds-name-lookup", {"name": feature.get_name(), "where": where,
                                            "found_other": found is not None}, case)


def gene_character_sweep(ctx) -> None:
    for char in sorted(GENE_FORBIDDEN):
        ctx.count("sweep:gene-chars")
        for second, start in ((f"a{char}b", 3), ("a_b", 3), ("a_b", 60), (f"a{char}b", 60)):
            for path in ("add", "biopython"):
                specs = [{"type": "CDS", "start": 0, "end": 30, "strand": 1, "locus_tag": f"a{char}b",
                          "gene": f"g{char}", "protein_id": None},
                         {"type": "CDS", "start": start, "end": start + 30, "strand": 1, "locus_tag": second,
                          "gene": None, "protein_id": f"{char}p"}]
                run_gene_case(ctx, {"kind": "genes", "specs": specs, "path": path})


# --------------------------------------------------------------------------
# gene names through the GFF3 route: parse_input_sequence(fasta, gff_file=...) names CDS features from
# gene/mRNA/CDS attributes (Name, locus_tag, ID, <name>_<i> for several CDS under one gene)
# --------------------------------------------------------------------------

def gen_gff_case(rng) -> dict:
    genes = []
    for g in range(rng.randrange(2, 6)):
        start = rng.choice(GENE_STARTS)
        length = rng.choice(GENE_LENGTHS)
        gene = {"start": start, "end": start + length, "strand": rng.choice("++-"),
                "name": rng.choice(GENE_NAMES + [None]), "locus_tag": rng.choice(GENE_NAMES + [None, None, None]),
                "mrnas": rng.choice([1, 1, 1, 2]), "parentless": rng.random() < 0.15,
                "id": rng.choice([f"g{g}", f"g{g}", "g0"])}
        genes.append(gene)
    return {"kind": "gff", "genes": genes}


def _gff_text(case) -> str:
    from urllib.parse import quote
    lines = ["##gff-version 3"]

    def row(kind, start, end, strand, attrs):
        text = ";".join(f"{k}={quote(v, safe=' :')}" for k, v in attrs if v is not None)
        lines.append("\t".join(["rec1", "generated", kind, str(start + 1), str(end), ".", strand,
                                 "0" if kind == "CDS" else ".", text]))

    for n, gene in enumerate(case["genes"]):
        if gene["parentless"]:
            row("CDS", gene["start"], gene["end"], gene["strand"],
                [("ID", f"cds{n}"), ("Name", gene["name"]), ("locus_tag", gene["locus_tag"])])
            continue
        row("gene", gene["start"], gene["end"], gene["strand"],
            [("ID", gene["id"]), ("Name", gene["name"]), ("locus_tag", gene["locus_tag"])])
        for m in range(gene["mrnas"]):
            row("mRNA", gene["start"], gene["end"], gene["strand"], [("ID", f"m{n}_{m}"), ("Parent", gene["id"])])
            end = gene["end"] - 3 * m
            row("CDS", gene["start"], end, gene["strand"], [("ID", f"c{n}_{m}"), ("Parent", f"m{n}_{m}")])
    return "\n".join(lines) + "\n"


def run_gff_case(ctx, case) -> None:
    keys = [strip_forbidden(g["locus_tag"] or g["name"] or g["id"], GENE_FORBIDDEN | {"_"}) for g in case["genes"]]
    ctx.case(("gff", case["genes"]), nontrivial=len(set(keys)) < len(keys),
             sample=sample_once("gff", len(set(keys)) < len(keys), case))
    ctx.count("mode:gff")
    dna = ("ATGGCAGCAGCAGCAGCAGCAGCAGCATAA" * 6)[:GENE_RECORD_LEN]
    fasta = os.path.join(workdir(), "genes.fasta")
    gff = os.path.join(workdir(), "genes.gff")
    with open(fasta, "w", encoding="utf-8") as handle:
        handle.write(f">rec1 generated\n{dna}\n")
    with open(gff, "w", encoding="utf-8") as handle:
        handle.write(_gff_text(case))
    try:
        records = rp.parse_input_sequence(fasta, "bacteria", -1, gff_file=gff)
    except AntismashInputError:
        ctx.count("gene:gff-rejected")
        return
    except Exception as err:  # pylint: disable=broad-except
        ctx.violate("gene-add-crash", {"exception": type(err).__name__, "message": str(err)[:120],
                                       "checksum_name_taken": False, "path": "gff"}, case)
        return
    ctx.count("gene:gff-accepted")
    check_record_genes(ctx, records[0], case, "after-gff")
    if len(records[0].get_cds_features()) > 1:
        ctx.count("gene:gff-accepted-multi")
    try:
        out = rp.pre_process_sequences(records, options_for(ctx, True, 1), STUB)
    except AntismashInputError:
        ctx.count("rejected:AntismashInputError")
        return
    check_record_genes(ctx, out[0], case, "after-pre-process")


# --------------------------------------------------------------------------
# entry points
# --------------------------------------------------------------------------

def run(ctx):
    install(ctx)
    try:
        # the CLI flags themselves: both settings parse to the value the sanitiser receives
        for allow_long in (True, False):
            for cpus in (1, 2):
                options_for(ctx, allow_long, cpus)
        if ctx.worker == 0:
            character_sweep(ctx)
            gene_character_sweep(ctx)
            exhaustion_case(ctx)
        exhaustive_dictionary(ctx)
        unique_id_contract_cases(ctx, ctx.quota(300, 20000))
        rng = ctx.rng("genes")
        for _ in ctx.cases(ctx.quota(1500, 240000)):
            case = gen_gene_case(rng)
            ctx.guard("harness-or-crash", case, run_gene_case, ctx, case)
        rng = ctx.rng("gff")
        for _ in ctx.cases(ctx.quota(300, 40000)):
            case = gen_gff_case(rng)
            ctx.guard("harness-or-crash", case, run_gff_case, ctx, case)
        random_lists(ctx, ctx.quota(1500, 160000), pool_every=40 if ctx.tier == "quick" else 150)
        ctx.extra["forbidden_record_chars_swept"] = len(RECORD_FORBIDDEN)
        ctx.extra["forbidden_gene_chars_swept"] = len(GENE_FORBIDDEN)
        ctx.extra["dictionary"] = list(DICTIONARY)
    finally:
        cleanup()


def replay(ctx, case):
    install(ctx)
    try:
        _replay(ctx, case)
    finally:
        cleanup()


def _replay(ctx, case):
    if isinstance(case, dict) and case.get("kind") == "ids":
        run_id_case(ctx, case)
    elif isinstance(case, dict) and case.get("kind") == "genes":
        run_gene_case(ctx, case)
    elif isinstance(case, dict) and case.get("kind") == "gff":
        run_gff_case(ctx, case)
    elif isinstance(case, dict) and case.get("kind") == "unique":
        try:
            name, counter = rp.generate_unique_id(case["prefix"], set(case["existing"]), case["start"], case["max_length"])
            oracle_generate_unique_id(ctx, case["prefix"], set(case["existing"]), case["start"], case["max_length"],
                                      name, counter)
        except RuntimeError as err:
            print("rejected:", err)
    else:
        print("unknown case kind:", case)
