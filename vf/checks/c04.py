"""C04 Location algebra agrees with the set-of-bases model on line and ring.

Oracles are postconditions over (arguments, result) of the real functions in
antismash.common.secmet.locations and the Record location helpers, evaluated against
vf.models.ring. They run in two ways: driven directly (exhaustive small rings/lines + random
large ones) and as monitors installed on every binding site (install_monitors), so the same
oracles observe the calls made inside pipeline workloads of other checks.
"""
from __future__ import annotations

import itertools

from antismash.common.secmet import locations as L
from antismash.common.secmet import record as record_module
from antismash.common.secmet.features import Feature
from antismash.common.secmet.locations import CompoundLocation, FeatureLocation
from antismash.common.secmet.test.helpers import DummyRecord

from vf import instrument
from vf.gen import locs as G
from vf.models import ring

PROPERTY = "C04"
LEVEL = "exploration"
PARALLEL = True
RULE = ("exhaustive: every simple and every two-part origin-spanning location (both strands) on rings/lines of "
        "length 5..7 (quick) / 5..9 (thorough) x all pairs x all offsets in [-L, L] x all extension distances "
        "in [0, L+2]; random: lists of 1-5 locations with 1-3 exons, either strand, origin-spanning or not, "
        "L in 6..50, 1e3, 1e5. Non-trivial: a case that touches the origin, the wrap point or half the "
        "record, or has a multi-part operand; distinct by (operation, L, operands).")
ASSUMPTIONS = [
    "Inputs are well-formed locations (parts non-empty, inside the record, disjoint, in biological order); "
    "behaviour on ill-formed inputs is not constrained by the property.",
    "The span of a multi-exon location includes its introns (documented reading of 'covers all of them').",
    "Biopython's SimpleLocation/CompoundLocation are trusted for start/end/parts/strand/len.",
]
REQUIRED = ["op:overlap", "op:contains", "op:distance_ring", "op:distance_line", "op:connect_ring",
            "op:connect_line", "op:extend_ring_two_parts_origin_in_gap", "op:offset_ring", "op:offset_ring_beyond_one_turn", "op:offset_line", "op:extend_ring", "op:extend_line",
            "op:roundtrip_string", "op:bridges", "op:make_forwards", "op:remove_redundant",
            "op:build_from_others", "op:lt", "class:build-from-compound-operands",
            "class:connect-single-multi-part-location", "op:extend_frameshift"]


def _s(loc) -> str:
    return str(loc)


def _facts(length, *locs, **extra):
    facts = {"L": length, "operands": [_s(l) for l in locs],
             "any_bridging": any(ring.is_bridging(l) for l in locs),
             "any_multipart": any(len(l.parts) > 1 for l in locs)}
    facts.update(extra)
    return facts


# --------------------------------------------------------------------------
# oracles: each takes ctx, the arguments and the observed result, records deviations
# --------------------------------------------------------------------------

def valid_input(loc, length) -> bool:
    if ring.wellformed(loc, length) is not None:
        return False
    strands = {p.strand for p in loc.parts}
    if len(strands) != 1:
        return False
    # at most one descent in forward order
    fwd = ring.forward_parts(loc)
    descents = sum(1 for i in range(len(fwd) - 1) if fwd[i + 1][0] < fwd[i][0])
    if descents > 1 or (descents and length is None):
        return False
    if descents:
        idx = next(i for i in range(len(fwd) - 1) if fwd[i + 1][0] < fwd[i][0])
        if max(e for _, e in fwd[idx + 1:]) > min(s for s, _ in fwd[:idx + 1]):
            return False
    return True


def _nonempty(*locs) -> bool:
    return all(int(p.start) < int(p.end) for l in locs for p in l.parts)


def oracle_overlap(ctx, a, b, result, case=None):
    ctx.count("op:overlap")
    if not _nonempty(a, b):
        ctx.count("skipped:invalid-input")
        return
    if bool(result) != ring.overlap(a, b):
        ctx.violate("overlap-iff-share-base", _facts(None, a, b, got=bool(result)), case or [_s(a), _s(b)])


def oracle_contains(ctx, outer, inner, result, case=None):
    ctx.count("op:contains")
    if not _nonempty(outer, inner):
        ctx.count("skipped:invalid-input")
        return
    if bool(result) != ring.contains(outer, inner):
        ctx.violate("contains-iff-parts-inside", _facts(None, outer, inner, got=bool(result)),
                    case or [_s(outer), _s(inner)])


def oracle_distance(ctx, a, b, wrap, result, case=None):
    ctx.count("op:distance_ring" if wrap else "op:distance_line")
    if not (valid_input(a, wrap or None) and valid_input(b, wrap or None)):
        # includes origin-bridging operands measured without a wrap point (the ring distance does that internally)
        ctx.count("skipped:invalid-input")
        return
    expected = ring.distance(a, b, wrap or None)
    if result != expected:
        interleaved = (not ring.overlap(a, b)) and ring.intervals_intersect(
            ring.span(a, wrap or None) if valid_input(a, wrap or None) else ring.parts_of(a),
            ring.span(b, wrap or None) if valid_input(b, wrap or None) else ring.parts_of(b))
        ctx.violate("distance-is-gap", _facts(wrap or None, a, b, got=result, expected=expected,
                                               interleaved=interleaved,
                                               span_distance=ring.span_distance(a, b, wrap or None)
                                               if valid_input(a, wrap or None) and valid_input(b, wrap or None) else None),
                    case or {"a": _s(a), "b": _s(b), "wrap": wrap})


def oracle_connect(ctx, locations, wrap, result, case=None, again=None):
    """ again: callable(list)->location used for idempotence/order checks (the real function) """
    ctx.count("op:connect_ring" if wrap else "op:connect_line")
    if not all(valid_input(l, wrap or None) for l in locations):
        ctx.count("skipped:invalid-input")
        return
    case = case or {"locations": [_s(l) for l in locations], "wrap": wrap}
    spans = [iv for l in locations for iv in ring.span(l, wrap or None)]
    res = ring.parts_of(result)
    facts = _facts(wrap or None, *locations, result=_s(result), n=len(locations))
    wf = ring.wellformed(result, wrap or None, span_like=True)
    if wf:
        ctx.violate("connect-wellformed:" + wf, facts, case)
        return
    if not ring.covers(res, spans):
        ctx.violate("connect-covers-inputs", facts, case)
        return
    hull = (min(s for s, _ in spans), max(e for _, e in spans))
    if not wrap:
        if ring.normalise(res) != [hull]:
            ctx.violate("connect-line-is-hull", facts, case)
    else:
        if ring.total_len(res) > hull[1] - hull[0]:
            ctx.violate("connect-ring-longer-than-hull", facts, case)
        cands = ring.cover_candidates(spans, wrap)
        arc_len = cands[0][1]
        facts["shortest_arc"] = arc_len
        if 2 * arc_len < wrap:
            if ring.normalise(res) != ring.normalise(ring.arc_to_intervals(cands[0][0], arc_len, wrap)):
                ctx.violate("connect-ring-shortest-arc", facts, case)
        else:
            ctx.count("connect:arc>=half")
        if len(res) == 2 and not all(p.strand == 1 for p in result.parts):
            ctx.violate("connect-ring-forward-strand", facts, case)
    if again is not None:
        try:
            twice = again([result])
            if ring.normalise(ring.parts_of(twice)) != ring.normalise(res):
                ctx.violate("connect-idempotent", dict(facts, twice=_s(twice)), case)
            if len(locations) > 1:
                other = again(list(reversed(locations)))
                if ring.normalise(ring.parts_of(other)) != ring.normalise(res):
                    ctx.violate("connect-order-independent", dict(facts, reversed_result=_s(other)), case)
        except Exception as err:  # pylint: disable=broad-except
            ctx.violate("connect-crash-on-own-output", dict(facts, exception=type(err).__name__), case)


def oracle_offset(ctx, loc, offset, wrap, result, case=None):
    ctx.count("op:offset_ring" if wrap else "op:offset_line")
    if wrap and abs(offset) > wrap:
        ctx.count("op:offset_ring_beyond_one_turn")
    case = case or {"loc": _s(loc), "offset": offset, "wrap": wrap}
    facts = _facts(wrap or None, loc, offset=offset, result=_s(result))
    src = ring.parts_of(loc)
    res = ring.parts_of(result)
    if wrap:
        expected = ring.rotate_intervals(src, offset, wrap)
    else:
        expected = ring.normalise((s + offset, e + offset) for s, e in src)
    wf = ring.wellformed(result, wrap or None)
    if wf:
        ctx.violate("offset-wellformed:" + wf, facts, case)
        return
    if ring.normalise(res) != expected:
        ctx.violate("offset-rotates-same-bases", facts, case)
    if ring.total_len(res) != ring.total_len(src):
        ctx.violate("offset-keeps-length", facts, case)
    if result.strand != loc.strand:
        ctx.violate("offset-keeps-strand", facts, case)


def oracle_extend(ctx, loc, distance, length, circular, result, case=None):
    ctx.count("op:extend_ring" if circular else "op:extend_line")
    case = case or {"loc": _s(loc), "distance": distance, "L": length, "circular": circular}
    if not valid_input(loc, length if circular else None) or (not circular and ring.is_bridging(loc)):
        ctx.count("skipped:invalid-input")
        return
    fwd = ring.forward_parts(loc)
    added = ring.extend_intervals(fwd[0], fwd[-1], distance, length, circular)
    expected = ring.normalise(list(fwd) + added)
    span_len = ring.total_len(ring.span(loc, length if circular else None))
    has_introns = span_len != ring.total_len(fwd)
    self_lapping = circular and span_len + 2 * distance > length
    facts = _facts(length, loc, distance=distance, circular=circular, result=_s(result),
                   self_lapping=self_lapping, has_introns=has_introns, parts=len(loc.parts))
    wf = ring.wellformed(result, length)
    if wf:
        ctx.violate("extend-wellformed:" + wf, facts, case)
        return
    got = ring.normalise(ring.parts_of(result))
    if self_lapping and has_introns:
        # both extensions run into the location's own far side: whether bases inside its introns
        # are "within the distance" is not specified; everything else is
        ctx.count("unspecified:extend-selflap-with-introns")
        introns = [(fwd[i][1], fwd[i + 1][0]) for i in range(len(fwd) - 1) if fwd[i][1] < fwd[i + 1][0]]
        if ring.is_bridging(loc):
            introns = [iv for iv in ring.span(loc, length)]  # whole span minus exons, conservatively
        if not ring.covers(got, fwd) or not ring.covers(expected, got) \
                or not ring.covers(ring.normalise(got + introns), expected):
            ctx.violate("extend-selflap-bounds", dict(facts, expected=expected), case)
        return
    if got != expected:
        ctx.violate("extend-exact-bases", dict(facts, expected=expected), case)
        return
    if len(loc.parts) == 1 and len(result.parts) == 2:
        # a span result: second part starts at the origin, first ends at the record end
        res = ring.forward_parts(result)
        if not (res[1][0] == 0 and res[0][1] == length):
            ctx.violate("extend-span-shape", facts, case)


def oracle_string_roundtrip(ctx, loc, case=None):
    ctx.count("op:roundtrip_string")
    try:
        back = L.location_from_string(str(loc))
    except Exception as err:  # pylint: disable=broad-except
        ctx.violate("string-roundtrip-crash", _facts(None, loc, exception=type(err).__name__), case or _s(loc))
        return
    same = (ring.parts_of(back) == ring.parts_of(loc) and [p.strand for p in back.parts] == [p.strand for p in loc.parts]
            and type(back) is type(loc) and back == loc)
    if not same:
        ctx.violate("string-roundtrip", _facts(None, loc, back=_s(back)), case or _s(loc))
    if len(loc.parts) > 1:
        # the other operator GenBank knows for several parts: order(...) instead of join(...)
        ordered = CompoundLocation(list(loc.parts), operator="order")
        ctx.count("op:roundtrip_string_order_operator")
        try:
            back = L.location_from_string(str(ordered))
        except Exception as err:  # pylint: disable=broad-except
            ctx.violate("string-roundtrip-crash", _facts(None, ordered, exception=type(err).__name__, operator="order"),
                        case or str(ordered))
            return
        if not (isinstance(back, CompoundLocation) and back.operator == "order" and back == ordered
                and str(back) == str(ordered)):
            ctx.violate("string-roundtrip", _facts(None, loc, back=str(back), given=str(ordered), operator="order"),
                        case or str(ordered))


def oracle_bridges(ctx, loc, length, case=None):
    ctx.count("op:bridges")
    got = L.location_bridges_origin(loc)
    # the variant that may repair a mis-ordered location must leave a well-formed one exactly as it was, and agree
    before = _s(loc)
    flipped = CompoundLocation(list(reversed(loc.parts))) if len(loc.parts) > 1 else loc
    if ring.is_bridging(loc) and not ring.is_bridging(flipped):
        # ambiguous by design: the same parts in the other order are an ordinary multi-exon location, and the
        # repairing variant is documented to prefer that reading
        ctx.count("unspecified:bridging-location-that-reads-as-ordinary-when-reversed")
        ok = False
    else:
        ok, tolerant = ctx.guard("bridges-origin-crash", case or before, L.location_bridges_origin, loc,
                                 allow_reversing=True)
    if ok:
        ctx.count("op:bridges_allow_reversing")
        if _s(loc) != before:
            ctx.violate("query-leaves-location-unchanged", _facts(length, loc, before=before, after=_s(loc),
                                                                   op="location_bridges_origin(allow_reversing=True)"),
                        case or before)
            return
        if tolerant != got:
            ctx.violate("bridges-origin", _facts(length, loc, got=tolerant, allow_reversing=True), case or before)
    if got != ring.is_bridging(loc):
        ctx.violate("bridges-origin", _facts(length, loc, got=got), case or _s(loc))
        return
    if got:
        lower, upper = L.split_origin_bridging_location(loc)
        fwd = ring.forward_parts(loc)
        idx = next(i for i in range(len(fwd) - 1) if fwd[i + 1][0] < fwd[i][0])
        exp_upper = sorted(fwd[:idx + 1])
        exp_lower = sorted(fwd[idx + 1:])
        if sorted(ring.parts_of(CompoundLocation(upper) if len(upper) > 1 else upper[0])) != exp_upper or \
           sorted(ring.parts_of(CompoundLocation(lower) if len(lower) > 1 else lower[0])) != exp_lower:
            ctx.violate("split-origin-bridging", _facts(length, loc, lower=[_s(p) for p in lower],
                                                        upper=[_s(p) for p in upper]), case or _s(loc))


def oracle_make_forwards(ctx, loc, case=None):
    ctx.count("op:make_forwards")
    res = L.make_forwards(loc)
    ok = (res.strand == 1 and ring.parts_of(res) == ring.forward_parts(loc))
    if not ok:
        ctx.violate("make-forwards", _facts(None, loc, result=_s(res)), case or _s(loc))


def oracle_remove_redundant(ctx, loc, case=None):
    ctx.count("op:remove_redundant")
    res = L.remove_redundant_exons(loc)
    src = ring.parts_of(loc)
    out = ring.parts_of(res)
    problems = []
    if ring.normalise(out) != ring.normalise(src):
        problems.append("bases-changed")
    if any(i != j and a[0] <= b[0] and b[1] <= a[1] for i, a in enumerate(out) for j, b in enumerate(out)):
        problems.append("redundant-part-left")
    if not all(p in src for p in out):
        problems.append("new-part")
    if res.strand != loc.strand:
        problems.append("strand")
    if problems:
        ctx.violate("remove-redundant-exons", _facts(None, loc, result=_s(res), problems=problems), case or _s(loc))


def oracle_build_from_others(ctx, pieces, case=None):
    ctx.count("op:build_from_others")
    given = [_s(p) for p in pieces]
    res = L.build_location_from_others(pieces)
    # the operands are the caller's (a gene's location, a leader): they stay as they were, and asking again
    # gives the same answer
    again = L.build_location_from_others(pieces)
    if [_s(p) for p in pieces] != given or _s(again) != _s(res):
        ctx.violate("query-leaves-location-unchanged",
                    {"op": "build_location_from_others", "before": given, "after": [_s(p) for p in pieces],
                     "first": _s(res), "again": _s(again)}, case or given)
        return
    src = [iv for p in pieces for iv in ring.parts_of(p)]
    out = ring.parts_of(res)
    problems = []
    if ring.normalise(out) != ring.normalise(src):
        problems.append("bases-changed")
    if ring.wellformed(res, None):
        problems.append("ill-formed")
    if sum(e - s for s, e in out) != sum(e - s for s, e in src):
        problems.append("length-changed")
    if problems:
        ctx.violate("build-location-from-others", _facts(None, *pieces, result=_s(res), problems=problems),
                    case or [_s(p) for p in pieces])


def oracle_lt(ctx, feats, length, case=None):
    """ Feature.__lt__ : asymmetric, transitive, consistent with position for non-bridging,
        origin-spanning features first """
    ctx.count("op:lt")
    case = case or [_s(f.location) for f in feats]
    for a, b in itertools.permutations(feats, 2):
        ab, ba = a < b, b < a
        if ab and ba:
            ctx.violate("lt-asymmetric", _facts(length, a.location, b.location), case)
        ba_ = ring.is_bridging(a.location)
        bb_ = ring.is_bridging(b.location)
        if not ba_ and not bb_:
            ka = (int(a.location.start), len(a.location))
            kb = (int(b.location.start), len(b.location))
            if (ka < kb) != ab and ka != kb:
                ctx.violate("lt-follows-position", _facts(length, a.location, b.location, got=ab), case)
        elif ba_ and not bb_ and not ab:
            ctx.violate("lt-origin-spanning-first", _facts(length, a.location, b.location), case)
    for a, b, c in itertools.permutations(feats, 3):
        if a < b and b < c and not a < c:
            ctx.violate("lt-transitive", _facts(length, a.location, b.location, c.location), case)


# --------------------------------------------------------------------------
# monitors (used by this and by pipeline checks)
# --------------------------------------------------------------------------

def install_monitors(ctx, which=("overlap", "contains", "distance", "connect", "offset")) -> None:
    if "overlap" in which:
        instrument.monitor_function(L, "locations_overlap",
                                    lambda a, k, r: oracle_overlap(ctx, a[0], a[1], r), ctx)
    if "contains" in which:
        instrument.monitor_function(L, "location_contains_other",
                                    lambda a, k, r: oracle_contains(ctx, a[0], a[1], r), ctx)
    if "distance" in which:
        def post_distance(a, k, r):
            wrap = k.get("wrap_point", a[2] if len(a) > 2 else None)
            oracle_distance(ctx, a[0], a[1], wrap, r)
        instrument.monitor_function(L, "get_distance_between_locations", post_distance, ctx)
    if "connect" in which:
        def post_connect(a, k, r):
            wrap = k.get("wrap_point", a[1] if len(a) > 1 else None)
            oracle_connect(ctx, list(a[0]), wrap, r)
        instrument.monitor_function(L, "connect_locations", post_connect, ctx)
    if "offset" in which:
        def post_offset(a, k, r):
            oracle_offset(ctx, a[0], a[1], k.get("wrap_point"), r)
        instrument.monitor_function(L, "offset_location", post_offset, ctx)


# --------------------------------------------------------------------------
# workload
# --------------------------------------------------------------------------

def _touches(length, *locs, half=False) -> bool:
    for loc in locs:
        for s, e in ring.parts_of(loc):
            if s == 0 or e == length:
                return True
        if len(loc.parts) > 1:
            return True
    return half


def _call(ctx, clause, case, fn, *args, **kwargs):
    ok, res = ctx.guard(clause, case, fn, *args, **kwargs)
    return ok, res


def _strand_variants(parts, rng=None):
    if rng is None:
        return [G.mk(parts, 1), G.mk(parts, -1)]
    return [G.mk(parts, rng.choice([1, -1]))]


def exhaustive(ctx, lengths):
    rng = ctx.rng("exh")
    for length in lengths:
        if ctx.time_left() <= 0:
            ctx.budget_hit = True
            ctx.exhaustive = False
            return
        simple = list(G.all_simple(length))
        bridging = list(G.all_bridging(length))
        lin_rec = DummyRecord(seq="A" * length, circular=False)
        circ_rec = DummyRecord(seq="A" * length, circular=True)
        circ_rec.add_annotation("topology", ("circular", "Circular", "CIRCULAR")[length % 3])
        # unary operations, both strands
        for parts in simple + bridging:
            for loc in _strand_variants(parts):
                is_b = len(parts) > 1
                key = ("unary", length, _s(loc))
                ctx.case(key, nontrivial=_touches(length, loc), sample={"op": "unary", "L": length, "loc": _s(loc)})
                oracle_string_roundtrip(ctx, loc)
                oracle_bridges(ctx, loc, length)
                oracle_make_forwards(ctx, loc)
                # every offset up to a turn either way, and on to more than three turns ("all offsets")
                for off in range(-3 * length - 2, 3 * length + 3):
                    case = {"op": "offset", "loc": G.to_case(loc), "offset": off, "wrap": length}
                    ok, res = _call(ctx, "offset-crash", case, L.offset_location, loc, off, wrap_point=length)
                    if ok:
                        oracle_offset(ctx, loc, off, length, res, case)
                    if not is_b and parts[0][0] + off >= 0:
                        case = {"op": "offset", "loc": G.to_case(loc), "offset": off, "wrap": None}
                        ok, res = _call(ctx, "offset-crash", case, L.offset_location, loc, off)
                        if ok:
                            oracle_offset(ctx, loc, off, None, res, case)
                for dist in range(0, length + 3):
                    case = {"op": "extend", "loc": G.to_case(loc), "distance": dist, "L": length, "circular": True}
                    ok, res = _call(ctx, "extend-crash", case, circ_rec.extend_location, loc, dist)
                    if ok:
                        oracle_extend(ctx, loc, dist, length, True, res, case)
                    if not is_b:
                        case = dict(case, circular=False)
                        ok, res = _call(ctx, "extend-crash", case, lin_rec.extend_location, loc, dist)
                        if ok:
                            oracle_extend(ctx, loc, dist, length, False, res, case)
        # two parts with the origin in the gap between them (a gene whose intron holds the origin)
        for parts in G.all_gapped(length):
            for loc in _strand_variants(parts):
                ctx.case(("gapped", length, _s(loc)), nontrivial=True)
                for dist in range(0, length + 3):
                    case = {"op": "extend", "loc": G.to_case(loc), "distance": dist, "L": length, "circular": True}
                    ok, res = _call(ctx, "extend-crash", case, circ_rec.extend_location, loc, dist)
                    if ok:
                        ctx.count("op:extend_ring_two_parts_origin_in_gap")
                        oracle_extend(ctx, loc, dist, length, True, res, case)
        # binary operations
        every = simple + bridging
        for pa in every:
            for pb in every:
                a = G.mk(pa, rng.choice([1, -1]))
                b = G.mk(pb, rng.choice([1, -1]))
                key = ("pair", length, _s(a), _s(b))
                ctx.case(key, nontrivial=_touches(length, a, b))
                case = {"op": "pair", "a": G.to_case(a), "b": G.to_case(b), "L": length}
                ok, res = _call(ctx, "overlap-crash", case, L.locations_overlap, a, b)
                if ok:
                    oracle_overlap(ctx, a, b, res, case)
                ok, res = _call(ctx, "contains-crash", case, L.location_contains_other, a, b)
                if ok:
                    oracle_contains(ctx, a, b, res, case)
                ok, res = _call(ctx, "distance-crash", case, circ_rec.get_distance_between_locations, a, b)
                if ok:
                    oracle_distance(ctx, a, b, length, res, case)
                if len(pa) == 1 and len(pb) == 1:
                    ok, res = _call(ctx, "distance-crash", case, lin_rec.get_distance_between_locations, a, b)
                    if ok:
                        oracle_distance(ctx, a, b, None, res, case)
                    ok, res = _call(ctx, "connect-crash", case, lin_rec.connect_locations, [a, b])
                    if ok:
                        oracle_connect(ctx, [a, b], None, res, case, again=lin_rec.connect_locations)
                ok, res = _call(ctx, "connect-crash", case, circ_rec.connect_locations, [a, b])
                if ok:
                    oracle_connect(ctx, [a, b], length, res, case, again=circ_rec.connect_locations)
    if ctx.exhaustive is None:
        ctx.exhaustive = True


def _run_random_case(ctx, case):
    length = case["L"]
    circular = case["circular"]
    locs = [G.from_case(c) for c in case["locs"]]
    wrap = length if circular else None
    nontrivial = _touches(length, *locs) or len(locs) > 2
    ctx.case(("rand", length, circular, [_s(l) for l in locs]), nontrivial=nontrivial,
             sample=dict(case, op="random-list"))
    as_given = [_s(l) for l in locs]
    ok, res = _call(ctx, "connect-crash", case, L.connect_locations, locs, wrap)
    if ok:
        oracle_connect(ctx, locs, wrap, res, case, again=lambda ls: L.connect_locations(ls, wrap))
    # the record's own helper is the entry point of the pipeline (also for a single location, whose hull fills its
    # introns and faces forward)
    rec = _SizedRecord(length, circular)
    ok, res = _call(ctx, "connect-crash", case, rec.connect_locations, locs)
    if ok:
        ctx.count("op:connect_through_record")
        if len(locs) == 1 and len(locs[0].parts) > 1:
            ctx.count("class:connect-single-multi-part-location")
        oracle_connect(ctx, locs, wrap, res, case, again=rec.connect_locations)
    for a, b in itertools.combinations(locs, 2):
        ok, res = _call(ctx, "overlap-crash", case, L.locations_overlap, a, b)
        if ok:
            oracle_overlap(ctx, a, b, res, case)
        for x, y in ((a, b), (b, a)):
            ok, res = _call(ctx, "contains-crash", case, L.location_contains_other, x, y)
            if ok:
                oracle_contains(ctx, x, y, res, case)
        ok, res = _call(ctx, "distance-crash", case, L.get_distance_between_locations, a, b, wrap)
        if ok:
            oracle_distance(ctx, a, b, wrap, res, case)
    # an inner location whose exons overlap each other (ribosomal slippage, shared stop codon): containment is decided
    # part by part, the summed length of the parts says nothing
    for loc in locs[:2]:
        part = max(loc.parts, key=len)
        if len(part) < 4:
            continue
        third = len(part) // 3
        pieces = [FeatureLocation(part.start, part.end - third, loc.strand), FeatureLocation(part.start + third, part.end, loc.strand)]
        while sum(len(piece) for piece in pieces) <= len(loc):
            pieces.append(FeatureLocation(part.start + 1, part.end, loc.strand))
        inner = CompoundLocation(pieces if loc.strand != -1 else pieces[::-1])
        sticking_out = None
        if part.end < length:
            sticking_out = CompoundLocation([pieces[0], FeatureLocation(part.start + third, part.end + 1, loc.strand)])
        for outer in (loc, FeatureLocation(part.start, part.end, loc.strand)):
            for candidate in (inner, sticking_out):
                if candidate is None:
                    continue
                ctx.count("class:contains-inner-with-overlapping-exons")
                ok, res = _call(ctx, "contains-crash", case, L.location_contains_other, outer, candidate)
                if ok:
                    oracle_contains(ctx, outer, candidate, res, dict(case, op="contains-overlapping-exons",
                                                                     outer=G.to_case(outer), inner=G.to_case(candidate)))
    for loc, off in zip(locs, case["offsets"]):
        oracle_string_roundtrip(ctx, loc, case)
        oracle_bridges(ctx, loc, length, case)
        oracle_make_forwards(ctx, loc, case)
        if circular:
            ok, res = _call(ctx, "offset-crash", case, L.offset_location, loc, off, wrap_point=length)
            if ok:
                oracle_offset(ctx, loc, off, length, res, case)
        elif int(loc.start) + off >= 0:
            ok, res = _call(ctx, "offset-crash", case, L.offset_location, loc, off)
            if ok:
                oracle_offset(ctx, loc, off, None, res, case)
    feats = [Feature(loc, feature_type="misc") for loc in locs]
    oracle_lt(ctx, feats, length, case)
    # extension through a record of the right length
    big = _SizedRecord(length, circular)
    for loc, dist in zip(locs, case["distances"]):
        ok, res = _call(ctx, "extend-crash", case, big.extend_location, loc, dist)
        if ok:
            oracle_extend(ctx, loc, dist, length, circular, res, case)
    # none of the operations above may have changed the locations handed to it
    ctx.count("op:arguments-unchanged")
    if [_s(l) for l in locs] != as_given:
        ctx.violate("query-leaves-location-unchanged", {"L": length, "circular": circular, "before": as_given,
                                                        "after": [_s(l) for l in locs], "op": "any of the above"}, case)


def _SizedRecord(length, circular):
    """ a real Record of the given length without allocating the sequence content """
    from Bio.Seq import Seq
    rec = record_module.Record(seq="")
    rec._record.seq = Seq(None, length=length)  # pylint: disable=protected-access
    # the topology annotation is not case sensitive
    rec.add_annotation("topology", ("circular", "Circular", "CIRCULAR")[length % 3] if circular
                       else ("linear", "Linear")[length % 2])
    return rec


def gen_random_case(rng):
    length = rng.choice(list(range(6, 51)) * 3 + [1000, 1000, 100000])
    circular = rng.random() < 0.65
    count = rng.randrange(1, 6)
    max_span = rng.choice([None, max(2, length // 3), max(2, length // 2 + 1)])
    # one location in ten has no known strand (strand 0, written '?')
    locs = [G.rand_location(rng, length, circular, max_span=max_span, strand=rng.choice([1, -1] * 9 + [0, 0]))
            for _ in range(count)]
    # boundary helpers: a pair exactly half the record apart
    if circular and rng.random() < 0.2 and length >= 8:
        half = length // 2
        s = rng.randrange(0, length - half - 1)
        locs = [G.mk([(s, s + 1)], 1), G.mk([(s + 1 + half - rng.choice([0, 1, 2]), min(length, s + 2 + half))], 1)]
        locs = [l for l in locs if ring.wellformed(l, length) is None] or [G.mk([(0, 1)], 1)]
    offsets = [rng.choice([0, 1, -1, length, -length, length // 2, rng.randrange(-length, length + 1)]) for _ in locs]
    distances = [rng.choice([0, 1, length // 2, length, rng.randrange(0, length + 3)]) for _ in locs]
    return {"L": length, "circular": circular, "locs": [G.to_case(l) for l in locs],
            "offsets": offsets, "distances": distances}


def overlapping_exon_cases(ctx, count):
    """ remove_redundant_exons and build_location_from_others need their own inputs """
    rng = ctx.rng("exons")
    for i in ctx.cases(count):
        length = rng.randrange(10, 60)
        strand = rng.choice([1, -1])
        parts = []
        for _ in range(rng.randrange(2, 5)):
            s = rng.randrange(0, length - 1)
            parts.append((s, rng.randrange(s + 1, length + 1)))
        loc = G.mk(sorted(set(parts)), strand)
        if len(loc.parts) > 1:
            ctx.case(("exons", _s(loc)), nontrivial=True)
            oracle_remove_redundant(ctx, loc)
        # a gene with a programmed frameshift: two exons sharing one or two bases; extended, it covers the stretch from
        # its first to its last base plus the distance on both sides
        s = rng.randrange(0, length - 8)
        m = rng.randrange(s + 3, length - 3)
        e = rng.randrange(m + 2, length + 1)
        shift = G.mk([(s, m + rng.choice([1, 2])), (m, e)], strand)
        distance = rng.choice([0, 1, 3, rng.randrange(0, length)])
        for circular in (False, True):
            rec = _SizedRecord(length, circular)
            fcase = {"op": "extend-frameshift", "loc": _s(shift), "distance": distance, "L": length, "circular": circular}
            ok, res = _call(ctx, "extend-crash", fcase, rec.extend_location, shift, distance)
            if ok:
                ctx.count("op:extend_frameshift")
                whole = (s, e)
                expected = ring.normalise([whole] + ring.extend_intervals(whole, whole, distance, length, circular))
                got = ring.normalise(ring.parts_of(res))
                if got != expected:
                    ctx.violate("extend-exact-bases", _facts(length, shift, distance=distance, circular=circular,
                                                             result=_s(res), expected=expected, parts=2,
                                                             exons_share_bases=True), fcase)
        # contiguous / gapped pieces for build_location_from_others
        cuts = sorted(rng.sample(range(0, length + 1), rng.randrange(2, 7)))
        pieces = []
        for s, e in zip(cuts, cuts[1:]):
            if rng.random() < 0.75:
                pieces.append(FeatureLocation(s, e, 1))
        if pieces:
            ctx.case(("build", [_s(p) for p in pieces]), nontrivial=len(pieces) > 1)
            ok, _ = ctx.guard("build-from-others-crash", [_s(p) for p in pieces], oracle_build_from_others, ctx, pieces)
        # the same with operands of several exons (a leader or core cut by introns), on either strand, in the
        # biological order of the strand
        segs = [(p.start, p.end) for p in pieces]
        if len(segs) >= 3:
            groups, i = [], 0
            while i < len(segs):
                n = rng.randrange(1, 4)
                groups.append(segs[i:i + n])
                i += n
            operands = []
            for group in groups:
                merged = [list(group[0])]
                for a, b in group[1:]:
                    if a == merged[-1][1] and rng.random() < 0.5:
                        merged[-1][1] = b
                    else:
                        merged.append([a, b])
                operands.append(G.mk([tuple(m) for m in merged], strand))
            if strand == -1:
                operands.reverse()
            if any(len(o.parts) > 1 for o in operands) and len(operands) > 1:
                ctx.count("class:build-from-compound-operands")
                key = [_s(o) for o in operands]
                ctx.case(("build", key), nontrivial=True)
                ctx.guard("build-from-others-crash", key, oracle_build_from_others, ctx, operands)


def run(ctx):
    if ctx.tier == "quick":
        lengths = [5, 6, 7]
    else:
        # split the exhaustive part over workers by length
        all_lengths = [5, 6, 7, 8, 9]
        lengths = [n for i, n in enumerate(all_lengths) if i % ctx.nworkers == ctx.worker % len(all_lengths)] \
            if ctx.worker < len(all_lengths) else []
    exhaustive(ctx, lengths)
    overlapping_exon_cases(ctx, ctx.quota(3000, 200000))
    rng = ctx.rng("random")
    for i in ctx.cases(ctx.quota(10000, 1500000)):
        case = gen_random_case(rng)
        ok, _ = ctx.guard("harness-or-crash", case, _run_random_case, ctx, case)
    if ctx.exhaustive is None and ctx.tier == "thorough":
        ctx.exhaustive = None
    ctx.extra["exhaustive_part"] = f"rings and lines of length {lengths} in this process"


def replay(ctx, case):
    if isinstance(case, dict) and "locs" in case:
        _run_random_case(ctx, case)
    else:
        print("replay of exhaustive cases: re-run the quick tier; case:", case)
